"""R-RANGE (C02): Engler-style range checker on the receive surface.

Sources (taint, per function, flow-insensitive closure over assignments): bytes loaded through uint8_t pointer
parameters / PDU buffer pointers, results of coap_decode_var_bytes*, coap_opt_length, oscore_cbor_get_*, and
fields of parse results (coap_option_t, coap_block_b_t ...) filled from them.
Sinks:  (i) index into a FIXED-SIZE array with a tainted, non-constant index: IVL with the path facts must prove
            0 <= index < length;
        (ii) size argument of memcpy/memmove/memset with a tainted size copied into a FIXED-SIZE destination: IVL
            must prove size <= sizeof(destination).
Persistent reader state (hdr_ofs, http_ofs, data_ofs, partial_read) needs a relational invariant and is declined
here (its accounting is R-STREAM-ADV / R-STREAM-CAP)."""
from core.prog import strip, walk, ap, key, short, const_int, aps_of, root_var
from core.psts import Env, solve, relevance, apply_generic, INF
from core import ivl
from rules.r_shift import walk_env

SURFACE_UNITS = ('coap_pdu.c', 'coap_option.c', 'coap_net.c', 'coap_block.c', 'coap_ws.c', 'coap_oscore.c', 'oscore.c', 'oscore_cbor.c',
                 'oscore_cose.c', 'oscore_context.c', 'coap_debug.c', 'coap_session.c', 'coap_resource.c', 'coap_cache.c', 'coap_subscribe.c',
                 'coap_encode.c', 'coap_uri.c', 'coap_tcp.c', 'coap_netif.c', 'coap_io.c', 'coap_proxy.c', 'coap_gnutls.c')
SRC_CALLS = ('coap_decode_var_bytes', 'coap_decode_var_bytes8', 'coap_opt_length', 'oscore_cbor_get_element_size', 'oscore_cbor_get_next_element',
             'oscore_cbor_get_number', 'get_byte', 'get_byte_inc', 'coap_opt_value', 'coap_get_data', 'coap_get_data_large')
DECLINED_STATE = ('hdr_ofs', 'http_ofs', 'data_ofs', 'partial_read', 'partial_write')
PDU_WIRE_FIELDS = ('code', 'type')


def _wire_field(y):
    """header field of a message object that the function was HANDED (parameter): on the receive surface that is what the peer sent.  A
    message reached through another object (a stored request, a record read from disk) was checked when it was stored and is not judged."""
    if isinstance(y, dict) and y.get('k') == 'mem' and y.get('rec') == 'coap_pdu_t' and y.get('f') in PDU_WIRE_FIELDS:
        b = strip(y.get('b'))
        return isinstance(b, dict) and b.get('k') == 'var' and 'pi' in b
    return False


def option_length_table(P):
    """option number -> (min, max) value length that coap_pdu_parse_opt_base accepts (extracted from its switch)"""
    if not P.has('coap_pdu_parse_opt_base'):
        return {}
    f = P.func('coap_pdu_parse_opt_base')
    ids = dict((p['n'], 'v%d' % p['id']) for p in f['params'])
    L = ids.get('len')
    sw = None
    for b in f['blocks']:
        t = b.get('term')
        if t and t.get('c') == 'SwitchStmt' and t.get('cond') is not None:
            sw = ap(t['cond'])
    if not L or not sw:
        return {}
    res_ap = None
    for b, ev in P.events(f):
        t = ev['e']
        if t.get('k') == 'ret' and 'e' in t and ap(t['e']):
            res_ap = ap(t['e'])
    table = {}

    def on_event(ev, env, ctx):
        t = ev['e']
        if t.get('k') == 'ret':
            n = env.intf(sw)
            if n[0] != n[1]:
                return None
            r = env.intf(res_ap) if res_ap else (1, 1, frozenset())
            if r[0] == r[1] == 0:
                return None
            lo, hi, ex = env.intf(L)
            lo = max(lo, 0)
            while lo in ex:
                lo += 1
            cur = table.get(n[0])
            table[n[0]] = (min(cur[0], lo), max(cur[1], hi)) if cur else (lo, hi)
        return None
    solve(f, Env(), on_event, None, None, None, key_fn=lambda e: (e.intf(sw)[:2], e.intf(res_ap)[:2] if res_ap else None, e.intf(L)), max_envs=512)
    return dict((k, v) for k, v in table.items() if v[1] != INF)


def option_of_params(P):
    """(function, param index) -> option number, when every call site passes a pointer obtained from
    coap_check_option(_, NUM, _) with one and the same NUM"""
    def local_opts(f):
        m = {}
        for b, ev in P.events(f):
            t = ev['e']
            pairs = []
            if t.get('k') == 'asg' and t.get('op') == '=':
                pairs.append((ap(t['l']), strip(t['r'])))
            elif t.get('k') == 'decl':
                for d in t['d']:
                    if 'init' in d:
                        pairs.append(('v%d' % d['id'], strip(d['init'])))
            for a, r in pairs:
                if a and isinstance(r, dict) and r.get('k') == 'call' and r.get('fn') == 'coap_check_option' and len(r['a']) > 1:
                    K = const_int(r['a'][1])
                    m.setdefault(a, set()).add(K)
                elif a and isinstance(r, dict) and r.get('k') != 'nullptr' and const_int(r) != 0 and a in m:
                    m[a].add(None)
        return dict((a, list(v)[0]) for a, v in m.items() if len(v) == 1 and None not in v)
    per = {}
    sites = {}
    for f in P.funcs.values():
        lo = local_opts(f)
        per[f['name']] = lo
        for b, ev in P.events(f):
            t = ev['e']
            if t.get('k') == 'call' and t.get('fn') in P.funcs:
                for i, a in enumerate(t.get('a', [])):
                    sa = strip(a)
                    if isinstance(sa, dict) and sa.get('p') and sa.get('pt') in ('unsigned char', 'uint8_t', 'coap_opt_t'):
                        sites.setdefault((t['fn'], i), []).append(lo.get(ap(sa)) if sa.get('k') != 'nullptr' else 'null')
    out = {}
    for k, vals in sites.items():
        nums = set(v for v in vals if v != 'null')
        if len(nums) == 1 and None not in nums:
            out[k] = list(nums)[0]
    return per, out


def tainted_set(P, f):
    """access paths holding values derived from received bytes (flow-insensitive)"""
    T = set()
    bufp = set()
    for p in f['params']:
        if p.get('p') and p.get('pt') in ('unsigned char', 'uint8_t', 'const unsigned char', 'char') :
            bufp.add('v%d' % p['id'])

    def is_src(x):
        x = strip(x)
        if not isinstance(x, dict):
            return False
        for y in walk(x):
            if not isinstance(y, dict):
                continue
            if y.get('k') == 'call' and y.get('fn') in SRC_CALLS:
                return True
            if y.get('k') in ('un', 'sub'):
                base = y.get('e') if y.get('k') == 'un' and y.get('op') == '*' else y.get('b') if y.get('k') == 'sub' else None
                if base is not None:
                    rv = root_var(base)
                    if rv is not None and (ap(rv) in bufp or ap(rv) in T) and (y.get('w') == 8):
                        return True
            if y.get('k') in ('var', 'mem') and ap(y) in T:
                return True
            # header fields of a message object: on the receive surface the PDU a function is handed is what the peer sent
            if _wire_field(y):
                return True
        return False
    changed = True
    n = 0
    while changed and n < 6:
        changed = False
        n += 1
        for b, ev in P.events(f):
            t = ev['e']
            pairs = []
            if t.get('k') == 'asg':
                pairs.append((ap(t['l']), t['r']))
            elif t.get('k') == 'decl':
                for d in t['d']:
                    if 'init' in d:
                        pairs.append(('v%d' % d['id'], d['init']))
            for a, r in pairs:
                if a and a not in T and is_src(r):
                    T.add(a)
                    changed = True
    return T, bufp


def run(run, P, units=SURFACE_UNITS, only=None):
    run.rule('R-RANGE')
    table = option_length_table(P)
    run.require(len(table) >= 15 or run.fixture_mode, 'R-RANGE: only %d rows of the option length table could be extracted' % len(table))
    run.notes.append('option length table (extracted from coap_pdu_parse_opt_base): ' + ', '.join('%d:[%s,%s]' % (k, v[0], v[1]) for k, v in sorted(table.items())))
    local_opt, param_opt = option_of_params(P)
    declined = [0]
    for f in sorted(P.lib_funcs(), key=lambda f: f['name']):
        if f['unit'] not in units:
            continue
        if only and f['name'] not in only:
            continue
        name = f['name']
        T, bufp = tainted_set(P, f)
        # values derived from persistent reader state: need a relational invariant, declined here
        D = set()
        for rnd in range(4):
            for b, ev in P.events(f):
                t = ev['e']
                pairs = []
                if t.get('k') == 'asg':
                    pairs.append((ap(t['l']), t['r']))
                elif t.get('k') == 'decl':
                    pairs += [('v%d' % d['id'], d['init']) for d in t['d'] if 'init' in d]
                for a, r in pairs:
                    if a and a not in D and any(isinstance(y, dict) and ((y.get('k') == 'mem' and y['f'] in DECLINED_STATE) or ap(y) in D) for y in walk(r)):
                        D.add(a)
        optvars = dict(local_opt.get(name, {}))
        for i, p in enumerate(f['params']):
            if (name, i) in param_opt:
                optvars['v%d' % p['id']] = param_opt[(name, i)]

        def call_range(r):
            """known range of the result of a call"""
            r = strip(r)
            if not isinstance(r, dict) or r.get('k') != 'call':
                return None
            if r.get('fn') == 'strlen' and r['a']:
                a0 = strip(r['a'][0])
                if isinstance(a0, dict) and a0.get('alen'):
                    return (0, a0['alen'] - 1)
            if r.get('fn') == 'coap_opt_length' and r['a']:
                num = optvars.get(ap(r['a'][0]))
                if num in table:
                    return (0, table[num][1])
            return None
        sites = []
        for b, ev in P.events(f):
            t = ev['e']
            if t.get('k') == 'sub' and t.get('alen') and const_int(t['i']) is None:
                if any(isinstance(y, dict) and ap(y) in T for y in walk(t['i'])) or any(isinstance(y, dict) and y.get('k') == 'call' and y.get('fn') in SRC_CALLS for y in walk(t['i'])) or \
                        any(_wire_field(y) for y in walk(t['i'])):
                    base = strip(t['b'])
                    if not any(isinstance(y, dict) and ((y.get('k') == 'mem' and y['f'] in DECLINED_STATE) or ap(y) in D) for y in walk(t['i'])):
                        sites.append((id(ev), 'idx'))
                    else:
                        declined[0] += 1
            if t.get('k') == 'call' and t.get('fn') in ('memcpy', 'memmove', 'memset') and len(t['a']) == 3:
                dst = strip(t['a'][0])
                dlen = None
                if isinstance(dst, dict) and dst.get('alen') and dst.get('k') in ('var', 'mem'):
                    dlen = dst['alen']
                if dlen and const_int(t['a'][2]) is None and any(isinstance(y, dict) and ap(y) in T for y in walk(t['a'][2])):
                    if any(isinstance(y, dict) and ((y.get('k') == 'mem' and y['f'] in DECLINED_STATE) or ap(y) in D) for y in walk(t['a'][2])):
                        declined[0] += 1
                    else:
                        sites.append((id(ev), 'size'))
        if not sites:
            continue
        ids = dict(sites)
        extra = set()
        for b, ev in P.events(f):
            if id(ev) in ids:
                extra |= aps_of(ev['e'])
        # variables that receive a call result with a known range feed the sinks
        for b, ev in P.events(f):
            t = ev['e']
            if t.get('k') == 'asg' and call_range(t['r']) and ap(t['l']):
                extra.add(ap(t['l']))
            elif t.get('k') == 'decl':
                for d in t['d']:
                    if 'init' in d and call_range(d['init']):
                        extra.add('v%d' % d['id'])

        def is_rule_event(ev):
            return id(ev) in ids
        keys, R = relevance(f, is_rule_event, extra)
        R = R | extra
        done = set()

        def on_event(ev, env, ctx):
            kind = ids.get(id(ev))
            if not kind:
                t = ev['e']
                pairs = []
                if t.get('k') == 'asg' and t.get('op') == '=':
                    pairs.append((ap(t['l']), t['r']))
                elif t.get('k') == 'decl':
                    pairs += [('v%d' % d['id'], d['init']) for d in t['d'] if 'init' in d]
                upd = [(a, call_range(r)) for a, r in pairs if a and call_range(r)]
                if upd:
                    e = apply_generic(ev, env, R).copy()
                    for a, rg in upd:
                        e.ints[a] = (rg[0], rg[1], frozenset())
                    return [e]
                return None
            t = ev['e']
            if kind == 'idx':
                rng = ivl.eval_raw(t['i'], env)
                n = t['alen']
                txt = '%s[%s]' % (short(t['b'])[:30], short(t['i'])[:40])
                run.instance('R-RANGE', '%s: %s (array of %d)' % (name, txt, n))
                ok = rng[0] >= 0 and rng[1] < n
                run.oblige('R-RANGE', ok, '%s:idx:%s' % (name, txt))
                if not ok and (name, txt) not in done:
                    done.add((name, txt))
                    run.violation('R-RANGE', name, ev['loc'], 'index:%s' % txt,
                                  'index %s derived from received bytes can be %s but the array has %d elements' % (short(t['i'])[:40], ivl.fmt(rng), n), ctx.path())
            else:
                dst = strip(t['a'][0])
                n = dst['alen']
                rng = ivl.eval_raw(t['a'][2], env)
                txt = '%s(%s, .., %s)' % (t['fn'], short(dst)[:30], short(t['a'][2])[:40])
                run.instance('R-RANGE', '%s: %s (destination of %d bytes)' % (name, txt, n))
                ok = rng[1] <= n
                run.oblige('R-RANGE', ok, '%s:size:%s' % (name, txt))
                if not ok and (name, txt) not in done:
                    done.add((name, txt))
                    run.violation('R-RANGE', name, ev['loc'], 'size:%s' % txt,
                                  'size %s derived from received bytes can be %s but the destination has %d bytes' % (short(t['a'][2])[:40], ivl.fmt(rng), n), ctx.path())
            return None
        ctx = solve(f, Env(), on_event, None, keys, R)
        run.stats['range_solver_steps'] += ctx.steps
    run.stats['range_sinks_declined_persistent_state'] = declined[0]


CBOR_SIZE = 'oscore_cbor_get_element_size'


def run_cbor(run, P, units=('coap_oscore.c',)):
    """a byte-string size declared by a CBOR header taken from the wire is compared with the remaining length
    (the variable handed to the CBOR reader by address) before it is used as a length"""
    run.rule('R-RANGE')
    nsites = 0
    for f in sorted(P.lib_funcs(), key=lambda f: f['name']):
        if f['unit'] not in units:
            continue
        name = f['name']
        srcs = []
        for b, ev in P.events(f):
            t = ev['e']
            if t.get('k') == 'asg' and t.get('op') == '=':
                r = strip(t['r'])
                if isinstance(r, dict) and r.get('k') == 'call' and r.get('fn') == CBOR_SIZE and len(r['a']) == 2 and ap(t['l']):
                    la = strip(r['a'][1])
                    lenap = ap(la['e']) if isinstance(la, dict) and la.get('k') == 'un' and la.get('op') == '&' else None
                    srcs.append((id(ev), ap(t['l']), lenap))
        if not srcs:
            continue
        nsites += len(srcs)
        sid = dict((i, (x, l)) for i, x, l in srcs)
        xs = set(x for i, x, l in srcs)

        def on_branch(b, s, e, ctx):
            pend = e.ts.get('cbor')
            if not pend:
                return e
            c = strip((b.get('term') or {}).get('cond'))
            if not isinstance(c, dict) or c.get('k') != 'bin' or c.get('op') not in ('>', '>=', '<', '<='):
                return e
            l, r = ap(c['l']), ap(c['r'])
            x, lenap = pend[0], pend[1]
            if {l, r} != {x, lenap}:
                return e
            truth = s == b['succ'][0]
            exceed = (c['op'] in ('>', '>=')) == (l == x)
            e2 = e.copy()
            del e2.ts['cbor']
            if exceed == truth:
                e2.ts['over'] = 1      # the rejecting arm: using the size here would be the violation
            return e2

        def on_event(ev, env, ctx):
            t = ev['e']
            if id(ev) in sid:
                x, lenap = sid[id(ev)]
                run.instance('R-RANGE', '%s: %s = %s(.., &%s)' % (name, short(t['l']), CBOR_SIZE, short(strip(t['r'])['a'][1])[1:]))
                e = apply_generic(ev, env, None).copy()
                e.ts['cbor'] = (x, lenap, ev['loc'])
                e.ts.pop('over', None)
                return [e]
            pend = env.ts.get('cbor')
            if pend and t.get('k') in ('asg', 'call', 'decl', 'ret'):
                x = pend[0]
                base = x.split('.')[0].split('->')[0]
                used = False
                for y in walk(t):
                    if isinstance(y, dict) and y.get('k') in ('var', 'mem', 'un'):
                        a = ap(y)
                        if a == x or a == '&' + base or (a == base and t.get('k') == 'call'):
                            used = True
                if used:
                    run.oblige('R-RANGE', False, '%s:cbor-size-compared' % name)
                    run.violation('R-RANGE', name, pend[2], 'cbor-size-unchecked:%s' % x.split('.')[-1].split('->')[-1],
                                  'the size declared by a CBOR header in the received option is used (%s) without having been compared with the bytes that remain: '
                                  'a peer can make the library read far behind the message' % short(t)[:60], ctx.path())
                    e = env.copy()
                    del e.ts['cbor']
                    return [apply_generic(ev, e, None)]
            return None
        solve(f, Env(), on_event, None, None, None, key_fn=lambda e: (e.ts.get('cbor'), e.ts.get('over')), on_branch=on_branch, max_envs=64)
        for i, x, l in srcs:
            run.oblige('R-RANGE', True, '%s:cbor-site:%s' % (name, x))
    run.require_count(nsites >= (2 if run.cfg == 'base' else 1) or run.fixture_mode, 'R-RANGE: only %d CBOR size sources found on the wire-facing surface' % nsites)


# ---------------------------------------------------------------------------------------------------------------
def run_cbor_reader(run, P, wire_units=('coap_oscore.c',), reader_unit='oscore_cbor.c'):
    """R-RANGE (CBOR reader): the CBOR reader's only length checks are assert()s, which the shipped build compiles out.
    For every reader function that wire-facing code calls (computed: functions of oscore_cbor.c with a (const uint8_t **cursor,
    size_t *remaining) parameter pair called from coap_oscore.c, plus what they call in that unit), NDEBUG build:
      every read through the cursor -- a dereference of *cursor, or a call of a primitive of that unit that does so with the
      same two parameters (get_byte, get_byte_inc) -- is covered by a real test of *remaining on its path:
        a test against 0/1 covers one read, a test against a non-constant count covers the reads that follow it.
    A primitive is a reader function without any real test of *remaining; primitives are not judged themselves, their
    callers are."""
    run.rule('R-RANGE')

    def pair(f):
        cur = rem = None
        for i, p in enumerate(f['params']):
            t = p.get('t', '')
            if t.replace(' ', '') in ('constuint8_t**', 'constunsignedchar**'):
                cur = 'v%d' % p['id']
            if t.replace(' ', '') in ('size_t*', 'unsignedlong*'):
                rem = 'v%d' % p['id']
        return (cur, rem) if cur and rem else None
    readers = dict((f['name'], f) for f in P.lib_funcs() if f['unit'] == reader_unit and pair(f))

    def tests_rem(f):
        cur, rem = pair(f)
        for b in f['blocks']:
            c = (b.get('term') or {}).get('cond')
            if c is not None and any(ap(x) == '*' + rem for x in walk(c) if isinstance(x, dict)):
                return True
        return False

    def derefs_cursor(t, cur):
        for x in walk(t):
            if isinstance(x, dict) and x.get('k') in ('idx', 'sub', 'un'):
                if x.get('k') == 'un' and x.get('op') != '*':
                    continue
                inner = strip(x.get('b') if x.get('k') in ('idx', 'sub') else x.get('e'))
                # (*cursor)[k]  or  *(*cursor)  or  *(*cursor)++
                while isinstance(inner, dict) and inner.get('k') == 'un' and inner.get('op') in ('++', '--', 'post++', 'post--'):
                    inner = strip(inner.get('e'))
                if isinstance(inner, dict) and inner.get('k') == 'un' and inner.get('op') == '*' and ap(inner.get('e')) == cur:
                    return True
        return False
    prims = set(n for n, f in readers.items() if not tests_rem(f) and any(derefs_cursor(ev['e'], pair(f)[0]) for b, ev in P.events(f)))
    # wire-reachable readers
    wire = set()
    for f in P.lib_funcs():
        if f['unit'] in wire_units:
            for b, ev in P.events(f):
                t = ev['e']
                if t.get('k') == 'call' and t.get('fn') in readers:
                    wire.add(t['fn'])
    work = list(wire)
    while work:
        n = work.pop()
        for b, ev in P.events(readers[n]):
            t = ev['e']
            if t.get('k') == 'call' and t.get('fn') in readers and t['fn'] not in wire:
                wire.add(t['fn'])
                work.append(t['fn'])
    judged = sorted(wire - prims)
    run.require(bool(judged) or run.fixture_mode, 'R-RANGE: no wire-reachable CBOR reader function found')
    run.notes.append('CBOR reader: primitives %s; wire-reachable and judged %s' % (sorted(prims), judged))
    for name in judged:
        f = readers[name]
        cur, rem = pair(f)
        remd = '*' + rem
        run.instance('R-RANGE', '%s: cursor reads covered by a test of *%s' % (name, [p['n'] for p in f['params'] if 'v%d' % p['id'] == rem][0]))

        def is_read(t):
            if t.get('k') == 'call' and t.get('fn') in prims:
                a = [ap(x) for x in t.get('a', [])]
                return cur in a
            return False

        def on_event(ev, env, ctx):
            t = ev['e']
            rd = is_read(t) or (ev.get('top') and t.get('k') != 'call' and derefs_cursor(t, cur) and not any(isinstance(x, dict) and x.get('k') == 'call' for x in walk(t)))
            if rd:
                cov = env.ts.get('cov', 0)
                run.oblige('R-RANGE', cov != 0, '%s:read-covered' % name)
                if cov == 0:
                    run.violation('R-RANGE', name, ev['loc'], 'cbor-read-untested',
                                  'the CBOR cursor is read (%s) on a path that has not tested the remaining length since the last covered read: with NDEBUG the '
                                  'assert() inside the primitive is gone, a truncated item is read behind the buffer and the remaining length wraps' % short(t)[:50], ctx.path())
                    return None
                if cov == 1:
                    e = env.copy()
                    e.ts['cov'] = 0
                    return [apply_generic(ev, e, None)]
                return None
            if t.get('k') == 'asg' and ap(t['l']) == remd:
                e = env.copy()
                e.ts['cov'] = 0
                return [apply_generic(ev, e, None)]
            return None

        def on_branch(b, s, env, ctx):
            term = b.get('term') or {}
            c = term.get('cond')
            if c is None or len(b['succ']) != 2:
                return env
            truth = s == b['succ'][0]
            c = strip(c)
            while isinstance(c, dict) and c.get('k') == 'un' and c.get('op') == '!':
                c = strip(c['e'])
                truth = not truth
            if isinstance(c, dict) and c.get('k') == 'un' and c.get('op') == '*' and ap(c) == remd:
                if truth:
                    e = env.copy()
                    e.ts['cov'] = max(1, env.ts.get('cov', 0)) if env.ts.get('cov') != 'bulk' else 'bulk'
                    return e
                return env
            if not (isinstance(c, dict) and c.get('k') == 'bin' and c.get('op') in ('==', '!=', '<', '<=', '>', '>=')):
                return env
            l, r = c['l'], c['r']
            op = c['op']
            if ap(r) == remd:
                l, r = r, l
                op = {'<': '>', '<=': '>=', '>': '<', '>=': '<=', '==': '==', '!=': '!='}[op]
            if ap(l) != remd:
                return env
            if not truth:
                op = {'==': '!=', '!=': '==', '<': '>=', '<=': '>', '>': '<=', '>=': '<'}[op]
            K = const_int(r)
            cov = None
            if K is not None:
                if (op == '!=' and K == 0) or (op == '>' and K >= 0) or (op == '>=' and K >= 1):
                    cov = 'bulk' if (op in ('>', '>=') and K >= 8) else 1
            else:
                if op in ('>=', '>'):
                    cov = 'bulk'
            if cov is None:
                return env
            e = env.copy()
            e.ts['cov'] = 'bulk' if 'bulk' in (cov, env.ts.get('cov')) else 1
            return e
        solve(f, Env({'cov': 0}), on_event, None, None, None, key_fn=lambda e: e.ts.get('cov'), on_branch=on_branch, max_envs=64)


def run_token_ext(run, P, units=('coap_pdu.c',), parsers=('coap_pdu_parse_header',)):
    """R-RANGE (extended token length bytes): the header parser finds the length of an RFC 8974 extended token in the first one or two bytes
    behind the fixed header: pdu->token[0], pdu->token[1].  A message may end right after its header, and the PDU is allocated for exactly
    what arrived, so those bytes exist only if used_size says so: every read of `pdu->token[K]` (K constant) in the header parser lies on
    a path that knows pdu->used_size >= K + 1."""
    run.rule('R-RANGE')
    n = 0
    for fn in parsers:
        if not P.has(fn):
            run.require(run.fixture_mode, 'R-RANGE(token extension): anchor %s() not found' % fn)
            continue
        f = P.func(fn)
        reads = []
        used = set()
        for b, ev in P.events(f):
            t = ev['e']
            if not ev.get('top') and t.get('k') != 'decl':
                continue          # sub-expression events repeat what their statement contains
            parts = [t.get('r')] if t.get('k') == 'asg' else [t]
            # `&pdu->token[K]` computes an address, it does not read the byte
            addr = set(id(strip(y.get('e'))) for y in walk(parts) if isinstance(y, dict) and y.get('k') == 'un' and y.get('op') == '&')
            for x in walk(parts):
                if id(x) in addr:
                    continue
                if isinstance(x, dict) and x.get('k') in ('sub', 'idx') and const_int(x.get('i')) is not None:
                    base = strip(x.get('b'))
                    if isinstance(base, dict) and base.get('k') == 'mem' and base.get('f') == 'token' and base.get('rec') == 'coap_pdu_t' and ap(base.get('b')):
                        reads.append((ev, const_int(x['i']), ap(base['b']) + '->used_size'))
                        used.add(ap(base['b']) + '->used_size')
        if not reads:
            continue
        rid = {}
        for ev, K, u in reads:
            rid.setdefault(id(ev), []).append((K, u))

        def is_rule_event(ev):
            return id(ev) in rid
        keys, R = relevance(f, is_rule_event, used)
        R = set(R) | used
        keys = set(keys)
        for b in f['blocks']:
            c = (b.get('term') or {}).get('cond')
            if c is not None and any(isinstance(x, dict) and ap(x) in used for x in walk(c)):
                keys.add(b['id'])
        done = set()

        def on_event(ev, env, ctx):
            for K, u in rid.get(id(ev), ()):
                lo, hi, ex = env.intf(u)
                ok = lo >= K + 1
                run.oblige('R-RANGE', ok, '%s:token[%d]' % (fn, K))
                if (ev['loc'], K) not in done:
                    done.add((ev['loc'], K))
                    run.instance('R-RANGE', '%s: pdu->token[%d] read within used_size' % (fn, K))
                if not ok:
                    run.violation('R-RANGE', fn, ev['loc'], 'token-extension-byte-unchecked:%d' % K,
                                  'pdu->token[%d] is read on a path that does not know pdu->used_size >= %d: for a message that ends right after its header this is the first '
                                  'byte behind the PDU\'s heap block' % (K, K + 1), ctx.path())
            return None
        n += len(reads)
        solve(f, Env(), on_event, None, keys, R, key_fn=lambda e: tuple(e.intf(u)[:2] for u in sorted(used)))
    run.require_count(n >= 2 or run.fixture_mode, 'R-RANGE(token extension): fewer than 2 reads of pdu->token[K] found in the header parser')
