"""R-CNT-CON (C08): accounting of session->con_active.

(a) the only writers are ++, -- and = 0;
(b) every -- happens with a send-queue node in hand: the counter is reached through a coap_queue_t* variable
    (node->session->con_active) or some coap_queue_t* variable is known non-NULL on the path (result of
    coap_remove_from_queue, queue cursor);
(c) every ++ is reached only on the false arm of a comparison of con_active with the session's NSTART, and each
    function that transmits through coap_session_send_pdu() contains such an increment.
"""
from core.prog import strip, walk, ap, key, short, const_int, root_var
from core.psts import Env, solve, relevance, apply_generic, INF

FIELD = 'con_active'
TRANSMIT = 'coap_session_send_pdu'
# the two places that put an unreliable Confirmable on the wire for the first time
TRANSMITTERS = ('coap_send_pdu', 'coap_session_connected')


def _write(t):
    """('++'|'--'|'=K'|'other', lvalue) for a write of con_active"""
    if t.get('k') == 'un' and t.get('op') in ('++', '--'):
        l = strip(t['e'])
        if isinstance(l, dict) and l.get('k') == 'mem' and l['f'] == FIELD:
            return t['op'], l
    if t.get('k') == 'asg':
        l = strip(t['l'])
        if isinstance(l, dict) and l.get('k') == 'mem' and l['f'] == FIELD:
            if t.get('op') == '=' and const_int(t['r']) == 0:
                return '=0', l
            if t.get('op') in ('+=', '-=') and const_int(t['r']) == 1:
                return ('++' if t['op'] == '+=' else '--'), l
            return 'other', l
    return None, None


def _gate(cond):
    """is the condition a comparison of con_active with something (NSTART)?  returns normalised 'ge' truth meaning"""
    c = strip(cond)
    if not isinstance(c, dict) or c.get('k') != 'bin' or c.get('op') not in ('>=', '>', '<', '<='):
        return None
    l, r = strip(c['l']), strip(c['r'])
    if isinstance(l, dict) and l.get('k') == 'mem' and l['f'] == FIELD:
        return c['op'] in ('>=', '>')      # true arm means "limit reached"
    if isinstance(r, dict) and r.get('k') == 'mem' and r['f'] == FIELD:
        return c['op'] in ('<=', '<')
    return None


def run(run, P):
    run.rule('R-CNT-CON')
    nw = 0
    ordinal = {}
    for f in sorted(P.lib_funcs(), key=lambda f: f['name']):
        name = f['name']
        writes = [(ev, _write(ev['e'])) for b, ev in P.events(f) if _write(ev['e'])[0]]
        transmits = [ev for b, ev in P.events(f) if ev['e'].get('k') == 'call' and ev['e'].get('fn') == TRANSMIT]
        if not writes and not transmits:
            continue
        wids = dict((id(ev), w) for ev, w in writes)
        order = sorted(writes, key=lambda x: (int(x[0]['loc'].rsplit(':', 1)[1]), x[0].get('col', 0)))
        ordn = dict((id(ev), i + 1) for i, (ev, w) in enumerate(order))
        for ev, (kind, l) in writes:
            nw += 1
            run.instance('R-CNT-CON', '%s: %s %s' % (name, short(l), kind))
            ok = kind in ('++', '--', '=0')
            run.oblige('R-CNT-CON', ok, '%s:writer-kind:%d' % (name, ordn[id(ev)]))
            if not ok:
                run.violation('R-CNT-CON', name, ev['loc'], 'foreign-writer:%d' % ordn[id(ev)],
                              '%s is assigned a value other than by ++ / -- / = 0: the count of Confirmables in flight no longer follows the send queue' % short(l))
        if transmits and name in TRANSMITTERS:
            has_inc = any(w[0] == '++' for ev, w in writes)
            run.instance('R-CNT-CON', '%s: transmits through %s()' % (name, TRANSMIT))
            run.oblige('R-CNT-CON', has_inc, '%s:transmit-counts' % name)
            if not has_inc:
                run.violation('R-CNT-CON', name, transmits[0]['loc'], 'transmit-without-count',
                              '%s() transmits messages but never increments con_active: transmitted Confirmables are not counted against NSTART' % name)
        if not writes:
            continue
        qvars = set()
        for b, ev in P.events(f):
            for y in walk(ev['e']):
                if isinstance(y, dict) and y.get('k') == 'var' and y.get('prec') == 'coap_queue_t':
                    qvars.add(ap(y))
        for p in f['params']:
            if p.get('prec') == 'coap_queue_t':
                qvars.add('v%d' % p['id'])

        newnode_vars = set()
        for b, ev in P.events(f):
            t = ev['e']
            if t.get('k') == 'asg' and t.get('op') == '=' and isinstance(strip(t['r']), dict) and strip(t['r']).get('fn') == 'coap_new_node' and ap(t['l']):
                newnode_vars.add(ap(t['l']))
            elif t.get('k') == 'decl':
                for d in t['d']:
                    r0 = strip(d.get('init'))
                    if isinstance(r0, dict) and r0.get('k') == 'call' and r0.get('fn') == 'coap_new_node':
                        newnode_vars.add('v%d' % d['id'])

        def is_rule_event(ev):
            return id(ev) in wids
        keys, R = relevance(f, is_rule_event, qvars)
        R = R | qvars

        CON = 0
        try:
            CON = P.const_named('COAP_MESSAGE_CON')
        except Exception:
            pass

        def on_branch(b, s, e, ctx):
            c0 = strip((b.get('term') or {}).get('cond'))
            # classification of the message as (non-)Confirmable is remembered in the typestate: transmitting it does not change its type
            if isinstance(c0, dict) and c0.get('k') == 'bin' and c0.get('op') in ('==', '!=') and const_int(c0['r']) == CON:
                l0 = strip(c0['l'])
                if isinstance(l0, dict) and l0.get('k') == 'mem' and l0['f'] == 'type' and ap(l0):
                    iscon = (s == b['succ'][0]) == (c0['op'] == '==')
                    kk = 'iscon:' + ap(l0)
                    if kk in e.ts and e.ts[kk] != iscon:
                        return None
                    e = e.copy()
                    e.ts[kk] = iscon
                    return e
            g = _gate((b.get('term') or {}).get('cond'))
            if g is None:
                return e
            truth = s == b['succ'][0]
            e2 = e.copy()
            e2.ts['limit'] = 'reached' if (g == truth) else 'below'
            return e2

        def on_event(ev, env, ctx):
            if id(ev) not in wids:
                return None
            kind, l = wids[id(ev)]
            if kind == '--':
                rv = root_var(l)
                in_hand = rv is not None and rv.get('prec') == 'coap_queue_t'
                known = [a for a in qvars if env.nullf(a) == 'N']
                # ... or the node that was to carry the count could not be allocated (un-counting after a failed coap_new_node())
                failed_new = [a for a in newnode_vars if env.nullf(a) == 'Z']
                ok = in_hand or bool(known) or bool(failed_new)
                run.oblige('R-CNT-CON', ok, '%s:dec-with-node:%d' % (name, ordn[id(ev)]))
                if not ok:
                    run.violation('R-CNT-CON', name, ev['loc'], 'decrement-without-node:%d' % ordn[id(ev)],
                                  '%s-- is reached on a path where no send-queue node for the session is in hand (no coap_queue_t* is known non-NULL): '
                                  'the count drops although no Confirmable left the send queue, so more than NSTART can then be in flight' % short(l), ctx.path())
            elif kind == '++':
                ok = env.ts.get('limit') == 'below'
                run.oblige('R-CNT-CON', ok, '%s:inc-gated:%d' % (name, ordn[id(ev)]))
                if not ok:
                    run.violation('R-CNT-CON', name, ev['loc'], 'increment-ungated:%d' % ordn[id(ev)],
                                  '%s++ is reached on a path that did not take the "below the limit" arm of a comparison of con_active with NSTART' % short(l), ctx.path())
            e = env.copy()
            e.ts.pop('limit', None)
            return [apply_generic(ev, e, R)]

        def key_fn(e):
            return (e.ts.get('limit'), tuple(sorted((a, e.nullf(a)) for a in qvars)), tuple(sorted((k, v) for k, v in e.ts.items() if k.startswith('iscon:'))))
        ctx = solve(f, Env(), on_event, None, keys, R, key_fn=key_fn, on_branch=on_branch)
        run.stats['cnt_solver_steps'] += ctx.steps
    # (d) what the counting may depend on: the increment is the accounting of "an unreliable Confirmable was put on the wire";
    # the conditions it is (transitively) control dependent on may only speak about the message type, the transport class, the
    # result of the transmission, the NSTART gate, the session state and the queues - never about who asked for the transmission
    from core.prog import transitive_control_deps, dominators
    ALLOWED_FIELDS = {'type', 'proto', FIELD, 'nstart', 'state', 'flags', 'delayqueue', 'sendqueue', 'is_mcast'}
    for f in sorted(P.lib_funcs(), key=lambda f: f['name']):
        for b in f['blocks']:
            for ev in b['elems']:
                w = _write(ev['e'])
                if w[0] != '++':
                    continue
                send_vars = set()
                for b2, ev2 in P.events(f):
                    t2 = ev2['e']
                    if t2.get('k') == 'asg' and isinstance(strip(t2['r']), dict) and strip(t2['r']).get('k') == 'call' and strip(t2['r']).get('fn') == TRANSMIT and ap(t2['l']):
                        send_vars.add(ap(t2['l']))
                tblocks = [b2['id'] for b2 in f['blocks'] if any(e2['e'].get('k') == 'call' and e2['e'].get('fn') == TRANSMIT for e2 in b2['elems'])]
                dom = dominators(f)
                tdom = [tb for tb in tblocks if tb in dom.get(b['id'], ())]
                if not tdom:
                    continue        # the increment is not "after the transmission" in this function
                for (cb, idx) in sorted(transitive_control_deps(f, b['id'])):
                    if not any(tb in dom.get(cb, ()) for tb in tdom):
                        continue    # a condition evaluated before the transmission decides whether to transmit, not whether to count
                    cond = f['B'][cb]['term']['cond']
                    for y in walk(cond):
                        if not isinstance(y, dict):
                            continue
                        bad = None
                        if y.get('k') == 'mem' and y['f'] not in ALLOWED_FIELDS and not any(isinstance(z, dict) and z.get('k') == 'mem' and z is not y for z in [y.get('b')] if False):
                            # a field that is only the base of an allowed field (session->sock.flags) is fine
                            bad = None if any(isinstance(z, dict) and z.get('k') == 'mem' and z['f'] in ALLOWED_FIELDS and y in list(walk(z.get('b'))) for z in walk(cond)) else y['f']
                        elif y.get('k') == 'var' and not y.get('g'):
                            a = ap(y)
                            used_as_base = any(isinstance(z, dict) and z.get('k') == 'mem' and y in list(walk(z.get('b'))) for z in walk(cond))
                            if not used_as_base and a not in send_vars:
                                bad = y['n']
                        if bad:
                            run.oblige('R-CNT-CON', False, '%s:inc-depends:%s' % (f['name'], bad))
                            run.violation('R-CNT-CON', f['name'], ev['loc'], 'increment-depends-on:%s' % bad,
                                          'whether a transmitted Confirmable is counted depends on "%s" (condition %s): the accounting must only depend on message type, '
                                          'transport class, transmission result and the NSTART gate, or transmissions requested through another path (e.g. a '
                                          'retransmission) go uncounted' % (bad, short(cond)[:60]))
                run.oblige('R-CNT-CON', True, '%s:inc-dependencies' % f['name'])
    if nw < 6 and not run.fixture_mode:
        run.shortfalls.append('R-CNT-CON: only %d writers of con_active found' % nw)
    for n in TRANSMITTERS:
        run.require(P.has(n) or run.fixture_mode, 'anchor function %s() of R-CNT-CON not found' % n)


# ---------------------------------------------------------------------------------------------------------------
REMOVE = 'coap_remove_from_queue'
DELETE = 'coap_delete_node_lkd'


def run_dequeue(run, P):
    """(e) the other direction of (b): a Confirmable that is taken out of the send queue for good is un-counted.
    In every function that calls coap_remove_from_queue(.., &V): on each path on which V may hold the removed node and
    coap_delete_node_lkd(V) is reached (the exchange is over: the node is not re-queued), con_active was lowered after the
    removal, or is known to be 0, or V is known NULL.  Otherwise the counter stays up although nothing is in flight and,
    with the count at NSTART, everything held in the delay queue is never sent."""
    run.rule('R-CNT-CON')
    n = 0
    CON = P.const_named('COAP_MESSAGE_CON')
    for f in sorted(P.lib_funcs(), key=lambda f: f['name']):
        name = f['name']
        outs = set()
        rsites = []
        for b, ev in P.events(f):
            t = ev['e']
            if t.get('k') == 'call' and t.get('fn') == REMOVE and len(t.get('a', [])) == 4:
                a = strip(t['a'][3])
                if isinstance(a, dict) and a.get('k') == 'un' and a.get('op') == '&' and ap(a['e']):
                    outs.add(ap(a['e']))
                    rsites.append(ev)
        if not outs or name == REMOVE:
            continue
        rsites.sort(key=lambda ev: (int(ev['loc'].rsplit(':', 1)[1]), ev.get('col', 0)))
        rord = dict((id(ev), i + 1) for i, ev in enumerate(rsites))
        dsites = sorted([ev for b, ev in P.events(f) if ev['e'].get('k') == 'call' and ev['e'].get('fn') == DELETE],
                        key=lambda ev: (int(ev['loc'].rsplit(':', 1)[1]), ev.get('col', 0)))
        dord = dict((id(ev), i + 1) for i, ev in enumerate(dsites))

        def is_rule_event(ev):
            t = ev['e']
            if t.get('k') == 'call' and t.get('fn') in (REMOVE, DELETE):
                return True
            return _write(t)[0] is not None
        keys, R = relevance(f, is_rule_event, outs)
        R = set(R) | outs
        for b in f['blocks']:
            c = (b.get('term') or {}).get('cond')
            if c is not None and any(isinstance(x, dict) and x.get('k') == 'mem' and x.get('f') == FIELD for x in walk(c)):
                keys = set(keys) | {b['id']}

        def on_event(ev, env, ctx):
            t = ev['e']
            if t.get('k') == 'call' and t.get('fn') == REMOVE and len(t.get('a', [])) == 4:
                a = strip(t['a'][3])
                v = ap(a['e']) if isinstance(a, dict) and a.get('k') == 'un' else None
                if v in outs:
                    e = apply_generic(ev, env, R).copy()
                    st = dict(env.ts.get('rm', ()))
                    if not str(st.get(v, '')).startswith('pending'):
                        st[v] = 'pending#%d' % rord.get(id(ev), 0)
                    e.ts['rm'] = tuple(sorted(st.items()))
                    # the out-parameter keeps its value when nothing is found: nullness unknown unless it was NULL before
                    if env.nullf(v) == 'Z':
                        e.null.pop(v, None)
                    return [e]
                return None
            w, _l = _write(t)
            if w in ('--', '=0'):
                e = env.copy()
                e.ts['rm'] = tuple((k, 'done') for k, _s in env.ts.get('rm', ()))
                return [apply_generic(ev, e, R)]
            if t.get('k') == 'call' and t.get('fn') == DELETE and t.get('a'):
                v = ap(t['a'][0])
                st = dict(env.ts.get('rm', ()))
                if v in st:
                    ok = st[v] == 'done' or env.nullf(v) == 'Z'
                    run.oblige('R-CNT-CON', ok, '%s:dequeue-accounted:%s' % (name, st[v]))
                    if not ok:
                        rs = rsites[int(st[v].split('#')[1]) - 1]
                        run.violation('R-CNT-CON', name, rs['loc'], 'dequeued-not-uncounted:%s@remove#%s>delete#%d' % (v_name(f, v), st[v].split('#')[1], dord.get(id(ev), 0)),
                                      'the node taken out of the send queue by this coap_remove_from_queue() is deleted (%s) on a path that did not lower session->con_active: ' % ev['loc'].split('/')[-1] +
                                      'the finished Confirmable stays counted and, at NSTART, the messages held in the delay queue are never sent', ctx.path())
                    e = env.copy()
                    st.pop(v, None)
                    e.ts['rm'] = tuple(sorted(st.items()))
                    return [apply_generic(ev, e, R)]
            return None

        def on_branch(b, s, env, ctx):
            term = b.get('term') or {}
            c = term.get('cond')
            if c is None or len(b['succ']) != 2 or not env.ts.get('rm'):
                return env
            truth = s == b['succ'][0]
            c = strip(c)
            while isinstance(c, dict) and c.get('k') == 'un' and c.get('op') == '!':
                c = strip(c['e'])
                truth = not truth
            zero = None
            if isinstance(c, dict) and c.get('k') == 'mem' and c.get('f') == FIELD:
                zero = not truth
            elif isinstance(c, dict) and c.get('k') == 'bin' and c.get('op') in ('==', '!=', '>') and const_int(c['r']) == 0 and \
                    isinstance(strip(c['l']), dict) and strip(c['l']).get('k') == 'mem' and strip(c['l']).get('f') == FIELD:
                zero = truth if c['op'] == '==' else not truth
            if zero:
                e = env.copy()
                e.ts['rm'] = tuple((k, 'done') for k, _s in env.ts.get('rm', ()))
                return e
            # V->pdu->type == COAP_MESSAGE_CON known false: the removed node was not a Confirmable, nothing was counted for it
            if isinstance(c, dict) and c.get('k') == 'bin' and c.get('op') in ('==', '!=') and const_int(c['r']) == CON:
                l = strip(c['l'])
                if isinstance(l, dict) and l.get('k') == 'mem' and l.get('f') == 'type':
                    base = l
                    while isinstance(base, dict) and base.get('k') == 'mem':
                        base = strip(base['b'])
                    v = ap(base)
                    iscon = truth if c['op'] == '==' else not truth
                    if v in outs and not iscon:
                        e = env.copy()
                        e.ts['rm'] = tuple((k, ('done' if k == v else st_)) for k, st_ in env.ts.get('rm', ()))
                        return e
            return env
        for v in sorted(outs):
            n += 1
            run.instance('R-CNT-CON', '%s: node removed into %s' % (name, v_name(f, v)))
        ctx = solve(f, Env({'rm': ()}), on_event, None, keys, R, key_fn=lambda e: (e.ts.get('rm'), tuple(e.nullf(v) for v in sorted(outs))), on_branch=on_branch, max_envs=512)
        run.stats['cnt_dequeue_solver_steps'] += ctx.steps
    run.require_count(n >= 2 or run.fixture_mode, 'R-CNT-CON(e): fewer than 2 functions remove a node from the send queue into a variable')


def v_name(f, v):
    for p in f['params']:
        if 'v%d' % p['id'] == v:
            return p.get('n') or p.get('name') or v
    for b in f['blocks']:
        for ev in b['elems']:
            t = ev['e']
            if t.get('k') == 'decl':
                for d in t['d']:
                    if 'v%d' % d['id'] == v:
                        return d.get('n', v)
    return v


# ---------------------------------------------------------------------------------------------------------------
COUNTING_CALL = 'coap_send_pdu'
WAIT = 'coap_wait_ack'


def run_counted_queued(run, P):
    """(f) counted implies queued.  coap_send_pdu() counts an unreliable Confirmable it transmitted (con_active++).  In a function
    that calls it and then means to queue the message for retransmission (coap_wait_ack), every return that is reached with the
    message known Confirmable-and-unreliable (the arm that did NOT return early for `type != CON || reliable`) either passed
    coap_wait_ack() or lowered con_active again -- otherwise (node allocation failure) the message is counted for ever although
    nothing will ever acknowledge it."""
    run.rule('R-CNT-CON')
    n = 0
    for f in sorted(P.lib_funcs(), key=lambda f: f['name']):
        evs = [ev for b, ev in P.events(f)]
        if not (any(e['e'].get('k') == 'call' and e['e'].get('fn') == COUNTING_CALL for e in evs) or any(_write(e['e'])[0] == '++' for e in evs)) or \
           not any(e['e'].get('k') == 'call' and e['e'].get('fn') == WAIT for e in evs):
            continue
        name = f['name']
        n += 1
        run.instance('R-CNT-CON', '%s: counted by %s() then queued by %s()' % (name, COUNTING_CALL, WAIT))
        CON = P.const_named('COAP_MESSAGE_CON')

        def is_rule_event(ev):
            t = ev['e']
            if t.get('k') == 'call' and t.get('fn') in (COUNTING_CALL, WAIT, DELETE):
                return True
            if t.get('k') == 'ret':
                return True
            return _write(t)[0] is not None
        keys, R = relevance(f, is_rule_event)
        for b in f['blocks']:
            c = (b.get('term') or {}).get('cond')
            if c is not None and any(isinstance(x, dict) and x.get('k') == 'mem' and x.get('f') == 'type' for x in walk(c)):
                keys = set(keys) | {b['id']}

        def on_event(ev, env, ctx):
            t = ev['e']
            if t.get('k') == 'call' and t.get('fn') == COUNTING_CALL:
                e = apply_generic(ev, env, R).copy()
                e.ts['sent'] = 1
                e.ts.pop('q', None)
                e.ts.pop('dec', None)
                return [e]
            if t.get('k') == 'call' and t.get('fn') == WAIT:
                e = apply_generic(ev, env, R).copy()
                e.ts['q'] = 1
                return [e]
            w, _l = _write(t)
            if w == '--':
                e = apply_generic(ev, env, R).copy()
                e.ts['dec'] = 1
                return [e]
            if w == '++':
                # the function counts the message itself: it IS an unreliable Confirmable (that is the condition of the increment)
                e = apply_generic(ev, env, R).copy()
                e.ts['sent'] = 1
                e.ts['con'] = 'con-unreliable'
                e.ts.pop('q', None)
                e.ts.pop('dec', None)
                e.ts.pop('xp', None)
                return [e]
            if t.get('k') == 'call' and t.get('fn') == DELETE and env.ts.get('sent') and env.ts.get('con') == 'con-unreliable':
                ok = bool(env.ts.get('q') or env.ts.get('dec'))
                run.oblige('R-CNT-CON', ok, '%s:counted-queued' % name)
                if not ok:
                    run.violation('R-CNT-CON', name, ev['loc'], 'counted-not-queued',
                                  'the node of an unreliable Confirmable that was counted (con_active++) is deleted on a path that neither passed %s() nor lowered con_active: the message is '
                                  'gone (no retransmission, no NACK) and stays counted against NSTART for ever' % WAIT, ctx.path())
                e = apply_generic(ev, env, R).copy()
                for k2 in ('sent', 'con', 'q', 'dec'):
                    e.ts.pop(k2, None)
                return [e]
            if t.get('k') == 'ret':
                if env.ts.get('sent') and env.ts.get('con') == 'con-unreliable':
                    ok = bool(env.ts.get('q') or env.ts.get('dec'))
                    run.oblige('R-CNT-CON', ok, '%s:counted-queued' % name)
                    if not ok:
                        run.violation('R-CNT-CON', name, ev['loc'], 'counted-not-queued',
                                      'this return is reached after %s() counted an unreliable Confirmable, without %s() and without lowering con_active: the message is '
                                      'counted against NSTART for ever although no queue node exists that an ACK, RST or give-up could retire' % (COUNTING_CALL, WAIT), ctx.path())
            return None

        def on_branch(b, s, env, ctx):
            # the early return `if (pdu->type != CON || RELIABLE(proto)) { delete; return }`: its fall-through arm knows CON and unreliable
            term = b.get('term') or {}
            c = strip(term.get('cond'))
            if not env.ts.get('sent') or not isinstance(c, dict):
                return env
            truth = s == b['succ'][0]
            if c.get('k') == 'mem' and c.get('f') == FIELD and not truth:
                e = env.copy()
                e.ts['dec'] = 1        # the count is known to be 0: nothing is counted
                return e
            if c.get('k') == 'bin' and c.get('op') in ('!=', '==') and const_int(c['r']) == CON:
                l = strip(c['l'])
                if isinstance(l, dict) and l.get('k') == 'mem' and l.get('f') == 'type':
                    iscon = truth if c['op'] == '==' else not truth
                    if env.ts.get('con') == 'con-unreliable':
                        return env if iscon else None       # transmitting a message does not change its type
                    e = env.copy()
                    e.ts['con'] = 'con' if iscon else 'notcon'
                    return e
            # COAP_PROTO_RELIABLE(proto): proto == TCP || TLS || WS || WSS ; after `type == CON` known, every false arm keeps 'con', the
            # block that finally falls through all of them is the unreliable one.  We approximate: once 'con' is known and a later
            # comparison of ->proto with a constant comes out false for every reliable protocol the state becomes con-unreliable.
            if env.ts.get('con') == 'con-unreliable' and c.get('k') == 'bin' and c.get('op') == '==' and isinstance(strip(c['l']), dict) and strip(c['l']).get('f') == 'proto':
                RELIABLE = set(P.const_named(nm) for nm in ('COAP_PROTO_TCP', 'COAP_PROTO_TLS', 'COAP_PROTO_WS', 'COAP_PROTO_WSS'))
                UNREL = set(P.const_named(nm) for nm in ('COAP_PROTO_UDP', 'COAP_PROTO_DTLS'))
                K = const_int(c['r'])
                if truth:
                    return None if K in RELIABLE else env
                ex = set(env.ts.get('xp', ())) | {K}
                if UNREL <= ex:
                    return None          # neither UDP nor DTLS: contradicts "unreliable"
                e = env.copy()
                e.ts['xp'] = tuple(sorted(x for x in ex if x is not None))
                return e
            if env.ts.get('con') in ('con',) and c.get('k') == 'bin' and c.get('op') == '==' and isinstance(strip(c['l']), dict) and strip(c['l']).get('f') == 'proto':
                e = env.copy()
                if truth:
                    e.ts['con'] = 'con-reliable'
                else:
                    seen = set(env.ts.get('np', ())) | {const_int(c['r'])}
                    e.ts['np'] = tuple(sorted(x for x in seen if x is not None))
                    if len(e.ts['np']) >= 4:
                        e.ts['con'] = 'con-unreliable'
                return e
            return env
        ctx = solve(f, Env({}), on_event, None, keys, R, key_fn=lambda e: (e.ts.get('sent'), e.ts.get('con'), e.ts.get('np'), e.ts.get('xp'), e.ts.get('q'), e.ts.get('dec')), on_branch=on_branch, max_envs=512)
        run.stats['cnt_counted_queued_steps'] += ctx.steps
    run.require_count(n >= 1 or run.fixture_mode, 'R-CNT-CON(f): no function both counts through coap_send_pdu() and queues through coap_wait_ack()')


# ---------------------------------------------------------------------------------------------------------------
DRAIN = 'coap_cancel_session_messages'


def run_reset_drains(run, P):
    """(g) reset implies drain.  Setting con_active to 0 says "nothing of this session is in flight".  That is only true if the
    session's nodes leave the send queue as well: on every path from a `con_active = 0` to a return of the same function
    coap_cancel_session_messages() is called for the session.  A reset on a path that returns with the queue intact (the
    COAP_NACK_ICMP_ISSUE early return of the disconnect handler) lets new Confirmables pass the NSTART gate while the old ones
    are still being retransmitted, and overtakes what is held in the delay queue."""
    run.rule('R-CNT-CON')
    n = 0
    for f in sorted(P.lib_funcs(), key=lambda f: f['name']):
        resets = [ev for b, ev in P.events(f) if _write(ev['e'])[0] == '=0']
        if not resets:
            continue
        name = f['name']
        # object construction (the session is being made: nothing can be queued yet) is exempt
        fresh = any(ev['e'].get('k') in ('asg',) and isinstance(strip(ev['e'].get('r')), dict) and strip(ev['e']['r']).get('k') == 'call' and
                    'malloc' in (strip(ev['e']['r']).get('fn') or '') for b, ev in P.events(f))
        if fresh:
            continue
        n += len(resets)
        for r0 in resets:
            run.instance('R-CNT-CON', '%s: con_active = 0' % name)

        def is_rule_event(ev):
            t = ev['e']
            return any(ev is r0 for r0 in resets) or (t.get('k') == 'call' and t.get('fn') == DRAIN) or t.get('k') == 'ret'
        keys, R = relevance(f, is_rule_event)

        def chk(loc, env, ctx):
            if env.ts.get('reset') and not env.ts.get('drain'):
                run.oblige('R-CNT-CON', False, '%s:reset-drains' % name)
                run.violation('R-CNT-CON', name, loc, 'reset-without-drain',
                              'the function returns after session->con_active = 0 (%s) without %s(): the Confirmables of the session stay in the send queue but are no longer '
                              'counted, so more than NSTART can be in flight and held messages are overtaken' % (env.ts['reset'].rsplit('/', 1)[-1], DRAIN), ctx.path())
            elif env.ts.get('reset'):
                run.oblige('R-CNT-CON', True, '%s:reset-drains' % name)

        def on_event(ev, env, ctx):
            t = ev['e']
            if any(ev is r0 for r0 in resets):
                e = apply_generic(ev, env, R).copy()
                e.ts['reset'] = ev['loc']
                return [e]
            if t.get('k') == 'call' and t.get('fn') == DRAIN:
                e = apply_generic(ev, env, R).copy()
                e.ts['drain'] = 1
                return [e]
            if t.get('k') == 'ret':
                chk(ev['loc'], env, ctx)
                e = env.copy()
                e.ts['done'] = 1
                return [e]
            return None

        def on_exit(env, ctx):
            if not env.ts.get('done'):
                chk(f['loc'], env, ctx)
        solve(f, Env({}), on_event, on_exit, keys, R, key_fn=lambda e: (e.ts.get('reset'), e.ts.get('drain'), e.ts.get('done')))
    run.require_count(n >= 1 or run.fixture_mode, 'R-CNT-CON(g): no reset of con_active outside object construction found')


def run_flush_order(run, P):
    """(h) the slot is free before the held messages are looked at.  coap_session_connected(S) is the flush of S's delay queue: it sends
    held Confirmables while con_active < NSTART.  Wherever it is called because an exchange ended -- the call is controlled by a test of
    con_active -- the decrement for that exchange comes first: a decrement of con_active that is controlled by the same test dominates
    the call.  Flushing with the finished exchange still counted releases nothing, and nothing flushes again afterwards (with NSTART 1
    the held message is stuck until some unrelated exchange ends)."""
    from core.prog import dominators, transitive_control_deps
    run.rule('R-CNT-CON')
    FLUSH = 'coap_session_connected'
    n = 0
    for f in sorted(P.lib_funcs(), key=lambda f: f['name']):
        B = f['B']
        calls = []
        decs = []
        for b in f['blocks']:
            for i, ev in enumerate(b['elems']):
                t = ev['e']
                if t.get('k') == 'call' and t.get('fn') == FLUSH and ev.get('top', True):
                    calls.append((b['id'], i, ev))
                w = _write(t)
                if w[0] == '--' or (w[0] is None and t.get('k') == 'un' and t.get('op') == 'post--' and isinstance(strip(t.get('e')), dict) and strip(t['e']).get('f') == FIELD):
                    decs.append((b['id'], i, ev))
        if not calls:
            continue
        dom = None
        for cb, ci, cev in calls:
            tcd = transitive_control_deps(f, cb)
            gates = set()
            for (bb, idx) in tcd:
                c = (B[bb].get('term') or {}).get('cond')
                if c is not None and any(isinstance(x, dict) and x.get('k') == 'mem' and x.get('f') == FIELD for x in walk(c)):
                    gates.add(bb)
            if not gates:
                continue           # a connect-time call, not the flush after an exchange ended
            n += 1
            run.instance('R-CNT-CON', '%s: flush of the delay queue under a test of con_active' % f['name'])
            if dom is None:
                dom = dominators(f)
            ok = False
            for db, di, dev in decs:
                if (db == cb and di < ci) or (db != cb and db in dom.get(cb, ())):
                    dg = set(bb for (bb, idx) in transitive_control_deps(f, db))
                    if dg & gates:
                        ok = True
            run.oblige('R-CNT-CON', ok, '%s:decrement-dominates-flush' % f['name'])
            if not ok:
                run.violation('R-CNT-CON', f['name'], cev['loc'], 'flush-before-decrement',
                              'coap_session_connected() is called under a test of con_active, but no decrement of con_active under that test comes before it: the delay queue is '
                              'looked at while the finished exchange still occupies its slot, nothing is released, and no later flush follows the decrement', [])
    run.require_count(n >= (5 if run.cfg == 'base' else 3) or run.fixture_mode, 'R-CNT-CON(h): fewer than 5 flushes of the delay queue under a test of con_active found')


def run_scan_head(run, P):
    """R-CNT-CON (i) (a drain misses nothing): the "unlink with predecessor" scan -- `p = HEAD; q = p->next; while (q) { if (q->session == S)
    unlink q ... }` -- never looks at the element it starts from.  So where such a scan starts, the path knows that the head does not
    belong to S (`HEAD->session == S` known false: the exit of the loop that strips matching heads) -- or there is no head.  A head
    stripping step that runs once instead of until it fails leaves the second of two matching heads in the queue: after a session
    failure that node gets no NACK and keeps being retransmitted while con_active was reset to 0 -- NSTART + 1 in flight."""
    run.rule('R-CNT-CON')
    n = 0
    for f in sorted(P.lib_funcs(), key=lambda f: f['name']):
        sps = [p for p in f.get('params') or () if p.get('prec') == 'coap_session_t']
        if len(sps) != 1:
            continue
        S = 'v%s' % sps[0]['id']
        starts = []
        evs = [(b, ev) for b, ev in P.events(f) if ev.get('top', True) and ev['e'].get('k') == 'asg' and ev['e'].get('op') == '=']
        for i, (b, ev) in enumerate(evs):
            t = ev['e']
            l, r = strip(t['l']), strip(t['r'])
            if not (isinstance(l, dict) and l.get('k') == 'var' and isinstance(r, dict) and r.get('k') == 'mem' and r.get('f') != 'next' and ap(r)):
                continue
            # followed, in the same block, by  q = p->next  with q another local
            for b2, ev2 in evs[i + 1:i + 2]:
                r2 = strip(ev2['e']['r'])
                l2 = strip(ev2['e']['l'])
                if b2['id'] == b['id'] and isinstance(l2, dict) and l2.get('k') == 'var' and ap(l2) != ap(l) and \
                   isinstance(r2, dict) and r2.get('k') == 'mem' and r2.get('f') == 'next' and ap(r2.get('b')) == ap(l) and ap(ev2['e']['l']):
                    starts.append((ev, ap(r), short(r), ap(ev2['e']['l'])))
        if not starts:
            continue
        # the scan judges q->session == S
        judged = False
        for b in f['blocks']:
            c = (b.get('term') or {}).get('cond')
            if c is not None:
                for x in walk(c):
                    if isinstance(x, dict) and x.get('k') == 'bin' and x.get('op') in ('==', '!='):
                        sides = [strip(x['l']), strip(x['r'])]
                        if any(isinstance(s_, dict) and s_.get('k') == 'mem' and s_.get('f') == 'session' and ap(s_.get('b')) in [st[3] for st in starts] for s_ in sides) and \
                           any(isinstance(s_, dict) and ap(s_) == S for s_ in sides):
                            judged = True
        if not judged:
            continue
        name = f['name']
        heads = set(st[1] for st in starts)

        def is_rule_event(ev):
            return any(ev is st[0] for st in starts)
        keys, R = relevance(f, is_rule_event, heads | {S})
        R = set(R) | heads | {S}
        rep = set()

        def on_event(ev, env, ctx):
            for sev, head, htxt, q in starts:
                if ev is sev:
                    want = head + '->session'
                    known = env.nullf(head) == 'Z'
                    for ak, av in env.atoms.items():
                        if S in ak and want in ak and (('==' in ak and av is False) or ('!=' in ak and av is True)):
                            known = True
                    run.oblige('R-CNT-CON', known, '%s:scan-starts-behind-a-foreign-head' % name)
                    if not known and ev['loc'] not in rep:
                        rep.add(ev['loc'])
                        run.violation('R-CNT-CON', name, ev['loc'], 'scan-skips-matching-head',
                                      'the predecessor scan starts at %s without knowing that this element does not belong to the session: the scan only ever examines the elements '
                                      'behind it, so a matching head survives the drain -- no NACK, still retransmitted, not counted' % htxt, ctx.path())
            return None
        n += 1
        run.instance('R-CNT-CON', '%s: the unlink-with-predecessor scan starts behind a head known not to match' % name)
        solve(f, Env(), on_event, None, keys, R,
              key_fn=lambda e: (tuple(sorted((k, v) for k, v in e.atoms.items() if S in k and '->session' in k)), tuple(e.nullf(h) for h in sorted(heads))))
    run.require_count(n >= 1 or run.fixture_mode or run.cfg != 'base', 'R-CNT-CON(i): no unlink-with-predecessor scan over a session\'s queue nodes found (expected coap_cancel_session_messages)')


PARK = 'coap_session_delay_pdu'
# what may decide that a message is parked instead of transmitted (fields of the session / its socket / the message)
PARK_REASONS = {'state', 'type', 'con_active', 'flags', 'proto', 'nstart'}


def run_park_reasons(run, P, fname='coap_send_pdu'):
    """R-CNT-CON (j): NSTART holds back Confirmables only.  In the transmit function every call of coap_session_delay_pdu() (the message is
    parked in the session's delay queue instead of being sent) is controlled only by conditions over the session state (not established
    yet), the NSTART gate (message type and con_active) and the transport's readiness (socket flags).  A condition over anything else -
    `session->delayqueue` non-empty, say, "to keep the order" - parks Non-confirmables, ACKs and Resets behind a held Confirmable until an
    unrelated exchange completes.  And the NSTART gate itself is conjoined with the Confirmable test: the con_active comparison that leads
    to a park is reached only on paths that know the message Confirmable."""
    from core.prog import control_deps
    from core.facts import AnalysisBroken
    run.rule('R-CNT-CON')
    if not P.has(fname):
        raise AnalysisBroken('R-CNT-CON (j): %s not found' % fname)
    f = P.func(fname)
    cd = control_deps(f)
    B = f['B']
    sites = [(b, ev) for b, ev in P.events(f) if any(isinstance(x, dict) and x.get('k') == 'call' and x.get('fn') == PARK for x in walk(ev['e'])) and (ev.get('top') or ev['e'].get('k') == 'ret')]
    if not sites:
        raise AnalysisBroken('R-CNT-CON (j): %s() no longer calls %s()' % (fname, PARK))
    seen = set()
    for b, ev in sites:
        if ev['loc'] in seen:
            continue
        seen.add(ev['loc'])
        run.instance('R-CNT-CON', '%s: park at %s' % (fname, ev['loc'].rsplit(':', 1)[-1]))
        for (cb, idx) in sorted(cd.get(b['id'], ())):
            c = (B[cb].get('term') or {}).get('cond')
            if c is None:
                continue
            fields = set()
            for x in walk(c):
                if isinstance(x, dict) and x.get('k') == 'mem':
                    fields.add(x['f'])
            # keep the innermost field of every access path: session->sock.flags -> flags
            inner = set()
            for x in walk(c):
                if isinstance(x, dict) and x.get('k') == 'mem' and not any(isinstance(y, dict) and y.get('k') == 'mem' and strip(y.get('b')) is x for y in walk(c)):
                    inner.add(x['f'])
            foreign = sorted(inner - PARK_REASONS)
            run.oblige('R-CNT-CON', not foreign, '%s:park-reason:%s' % (fname, short(c)[:40]))
            if foreign:
                run.violation('R-CNT-CON', fname, B[cb].get('term', {}).get('loc') or ev['loc'], 'park-decided-by:%s' % ','.join(foreign),
                              'the message is parked in the delay queue (%s) under the condition `%s`, which reads %s: only the session state, the NSTART gate '
                              '(Confirmable and con_active) and the transport\'s readiness may hold a message back - this parks Non-confirmables, ACKs and Resets behind '
                              'a Confirmable that NSTART holds' % (ev['loc'].rsplit('/', 1)[-1], short(c)[:80], ', '.join(foreign)))
