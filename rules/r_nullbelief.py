"""R-NULL-BELIEF (C18, C12): contradiction between a caller's belief and its callee (Engler et al. 2001, "check then use").

A function that branches on `X->f` (or on a local copied from it) being NULL believes the field may be NULL.  If, on the arm
that knows it NULL, it hands X to a callee that dereferences `X->f` on EVERY path through it and never tests it, one of the
two is wrong: either the test is dead, or the call crashes.  In this library the tests are not dead - they guard the documented
"object not attached to a context yet" state (a resource created with coap_resource_init() and released with
coap_delete_resource() before it was added: the clean-up path of an application whose set-up failed half-way, e.g. after an
allocation failure).

Computed, not listed:
  must-dereference summaries  md[g] = {(parameter index, field suffix)} : g dereferences `param<suffix>` in a block that
      post-dominates its entry (executed on every path that returns), g assigns neither the parameter nor that path, and no
      condition of g mentions the path (so g holds no belief of its own about it); closed under calls in such blocks.
  believers: functions with a condition whose truth decides the nullness of a pointer access path rooted at a parameter or a
      local copied from one.
Reported: the call site, the path on which the fact was learned, and the callee's dereference.
Declined: callees that test the path anywhere (conditional dereference), paths through arrays.
"""
import collections
from core.prog import strip, walk, ap, short, postdoms, succs, aps_of, is_null_const
from core.psts import Env, solve, relevance, apply_generic, Budget

RULE = 'R-NULL-BELIEF'
MEMFN = {'memcpy': (0, 1), 'memset': (0,), 'memmove': (0, 1), 'strlen': (0,), 'memcmp': (0, 1), 'strcmp': (0, 1), 'strncmp': (0, 1)}


def _assigned_paths(P, f):
    asg = set()
    for b, ev in P.events(f):
        t = ev['e']
        if t.get('k') == 'asg':
            a = ap(t['l'])
            if a:
                asg.add(a)
        elif t.get('k') == 'un' and t.get('op') in ('++', '--'):
            a = ap(t.get('e'))
            if a:
                asg.add(a)
        elif t.get('k') == 'un' and t.get('op') == '&':
            a = ap(t['e'])
            if a:
                asg.add(a)          # address taken: may be written through the pointer
    return asg


def _cond_paths(f):
    """access paths whose NULLNESS a condition of f decides: `A`, `!A`, `A == NULL`, `A != NULL` (each operand of && / || and of
    ?: is a CFG branch of its own)"""
    cp = set()
    for b in f['blocks']:
        c = (b.get('term') or {}).get('cond')
        if c is None:
            continue
        c = strip(c)
        while isinstance(c, dict) and c.get('k') == 'un' and c.get('op') == '!':
            c = strip(c['e'])
        if not isinstance(c, dict):
            continue
        if c.get('k') == 'bin' and c.get('op') in ('==', '!='):
            for x, y in ((c['l'], c['r']), (c['r'], c['l'])):
                if is_null_const(y) and ap(x):
                    cp.add(ap(x))
        elif c.get('p') and ap(c):
            cp.add(ap(c))
    return cp


def summaries(P):
    F = P.funcs
    md = collections.defaultdict(dict)      # fn -> {(i, suffix): (loc, how)}
    info = {}
    for n, f in F.items():
        if not f.get('blocks'):
            continue
        pv = {}
        for i, p in enumerate(f['params']):
            if p.get('p'):
                pv['v%d' % p['id']] = i
        if not pv:
            continue
        pd = postdoms(f)
        must = [b for b in f['blocks'] if b['id'] in pd[f['entry']]]
        info[n] = (pv, must, _assigned_paths(P, f), _cond_paths(f))

    def rooted(a, pv):
        for v, i in pv.items():
            if a == v:
                return i, ''
            if a.startswith(v + '->'):
                return i, a[len(v):]
        return None

    def ok_path(a, asg, cp, v):
        if '[' in a or '*' in a or '&' in a:
            return False
        # neither the path nor a prefix of it is assigned / tested in the callee
        parts = a.split('->')
        for k in range(1, len(parts) + 1):
            pre = '->'.join(parts[:k])
            if pre in asg:
                return False
            if pre in cp and pre != v:
                return False
        return a not in cp

    changed = True
    rnd = 0
    while changed and rnd < 6:
        changed = False
        rnd += 1
        for n, (pv, must, asg, cp) in info.items():
            for b in must:
                for ev in b['elems']:
                    t = ev['e']
                    k = t.get('k')
                    cands = []
                    if k == 'mem' and t.get('arrow'):
                        cands.append((ap(t['b']), '->%s' % t['f']))
                    elif k == 'un' and t.get('op') == '*':
                        cands.append((ap(t['e']), 'operator *'))
                    elif k == 'call':
                        fn = t.get('fn')
                        if fn in MEMFN:
                            for i in MEMFN[fn]:
                                if i < len(t['a']):
                                    cands.append((ap(t['a'][i]), '%s()' % fn))
                        elif fn in md:
                            for (j, suf), (loc, how) in list(md[fn].items()):
                                if j < len(t['a']):
                                    a = ap(t['a'][j])
                                    if a:
                                        cands.append((a + suf, '%s() -> %s' % (fn, how)))
                    for a, how in cands:
                        if not a:
                            continue
                        r = rooted(a, pv)
                        if r is None:
                            continue
                        v = [x for x, i in pv.items() if i == r[0]][0]
                        if v in asg or not ok_path(a, asg, cp, v):
                            continue
                        if v in cp and r[1] == '':
                            continue
                        if r not in md[n]:
                            md[n][r] = (ev['loc'], how)
                            changed = True
    return md


def run(run, P, only=None):
    run.rule(RULE)
    md = summaries(P)
    run.stats['nullbelief_summaries'] = sum(len(v) for v in md.values())
    nsites = 0
    steps = 0
    for f in sorted(P.lib_funcs(), key=lambda f: f['name']):
        if only and f['name'] not in only:
            continue
        name = f['name']
        # candidate call sites: callee with a summary on a field path
        sites = []
        for b, ev in P.events(f):
            t = ev['e']
            if t.get('k') == 'call' and t.get('fn') in md and ev.get('top', True):
                for (j, suf), (loc, how) in md[t['fn']].items():
                    if j < len(t['a']):
                        a = ap(t['a'][j])
                        if a and '[' not in a:
                            sites.append((ev['loc'], t['fn'], j, suf, a + suf))
        if not sites:
            continue
        tr = set(s[4] for s in sites)
        # locals / parameters that receive a copy of such a path: a test of the copy is a belief about the path
        copies = set()
        for b, ev in P.events(f):
            t = ev['e']
            if t.get('k') == 'asg' and t.get('op') == '=' and ap(t['r']) in tr and ap(t['l']):
                copies.add(ap(t['l']))
            elif t.get('k') == 'decl':
                for d in t['d']:
                    if 'init' in d and ap(d['init']) in tr:
                        copies.add('v%d' % d['id'])
        # believer: some condition of f decides one of these paths (directly or through a copied local)
        def is_rule_event(ev):
            t = ev['e']
            return t.get('k') == 'call' and t.get('fn') in md
        keys, R = relevance(f, is_rule_event, tr | copies)
        R = R | tr | copies
        seen = set()

        def on_event(ev, env, ctx):
            t = ev['e']
            if t.get('k') == 'call' and t.get('fn') in md:
                for (j, suf), (loc, how) in sorted(md[t['fn']].items()):
                    if j >= len(t['a']):
                        continue
                    a = ap(t['a'][j])
                    if not a or '[' in a:
                        continue
                    full = a + suf
                    inst = '%s>%s:%s%s' % (name, t['fn'], j, suf)
                    z = env.nullf(full) == 'Z' or env.nullf(env.canon(a) + suf) == 'Z'
                    if (inst, ev['loc']) not in seen:
                        seen.add((inst, ev['loc']))
                        run.instance(RULE, '%s: %s(%s) dereferences %s%s' % (name, t['fn'], short(t['a'][j]), short(t['a'][j]), suf))
                    if z:
                        run.oblige(RULE, False, inst)
                        run.violation(RULE, name, ev['loc'], inst,
                                      '%s%s is known NULL on this path (the function tests it), but %s() dereferences it on every path without a test (%s at %s)' % (
                                          short(t['a'][j]), suf, t['fn'], how, loc.rsplit('/', 1)[-1]), ctx.path())
            return None

        def key_fn(e):
            return tuple(sorted((a, e.nullf(a)) for a in tr if e.nullf(a)))
        try:
            ctx = solve(f, Env(), on_event, None, keys, R, key_fn=key_fn, max_envs=512)
        except Budget:
            raise
        steps += ctx.steps
        nsites += len(sites)
    for (rule, desc) in list(run._inst_seen):
        if rule == RULE:
            run.oblige(RULE, True, desc)
    run.stats['nullbelief_call_sites'] = nsites
    run.stats['nullbelief_solver_steps'] = steps
    return md


def run_installed(run, P, md=None):
    """R-NULL-BELIEF (installed call-out): where a library function G is stored into a call-back field of an object X (`X->cb = G`) and G
    dereferences `param<suffix>` on every path without a test (must-dereference summary), with the parameter of X's record type, the store is
    reached only on paths that know `X<suffix>` non-NULL.  The persistence set-up installs one call-out under the condition "file A configured OR
    file B configured" while the call-out uses both file names: with one of them missing the first call crashes."""
    run.rule(RULE)
    md = md or summaries(P)
    n = 0
    for f in sorted(P.lib_funcs(), key=lambda f: f['name']):
        sites = []
        for b, ev in P.events(f):
            t = ev['e']
            if t.get('k') == 'asg' and t.get('op') == '=' and ev.get('top'):
                l, r = strip(t['l']), strip(t['r'])
                while isinstance(r, dict) and r.get('k') in ('cast', 'un') and (r.get('k') == 'cast' or r.get('op') == '&'):
                    r = strip(r.get('e'))
                if isinstance(l, dict) and l.get('k') == 'mem' and l.get('arrow') and isinstance(r, dict) and r.get('k') == 'fn' and r.get('n') in md and ap(l.get('b')):
                    g = P.funcs.get(r['n'])
                    if not g:
                        continue
                    need = []
                    for (i, suf), (loc, how) in md[r['n']].items():
                        if suf and i < len(g['params']) and g['params'][i].get('prec') and g['params'][i].get('prec') == l.get('rec'):
                            need.append((suf, loc, how))
                    if need:
                        sites.append((ev, ap(l['b']), r['n'], need))
        if not sites:
            continue
        name = f['name']
        tr = set(x + suf for _e, x, _g, need in sites for suf, _l, _h in need)
        rep = set()

        def on_event(ev, env, ctx):
            t = ev['e']
            # a call in between is handed the object and makes the solver forget its fields: what a NULL test established is remembered in the
            # typestate until the field is assigned again
            e2 = None
            if t.get('k') == 'asg' and ap(t.get('l')) in tr and env.ts.get('nn:' + ap(t['l'])):
                e2 = apply_generic(ev, env, None).copy()
                del e2.ts['nn:' + ap(t['l'])]
            base = e2 or env
            add = [a for a in tr if base.nullf(a) == 'N' and not base.ts.get('nn:' + a)]
            if add:
                e2 = (e2 or apply_generic(ev, env, None)).copy()
                for a in add:
                    e2.ts['nn:' + a] = 1
            for sev, x, g, need in sites:
                if ev is sev:
                    for suf, loc, how in need:
                        ok = env.nullf(x + suf) == 'N' or bool(env.ts.get('nn:' + x + suf))
                        run.oblige(RULE, ok, '%s:installed:%s%s' % (name, g, suf))
                        if not ok and (ev['loc'], suf) not in rep:
                            rep.add((ev['loc'], suf))
                            run.violation(RULE, name, ev['loc'], 'callout-installed-without:%s%s' % (g, suf),
                                          '%s() is installed as a call-out of the object on a path that does not know its %s non-NULL, but %s() dereferences that field on '
                                          'every path without a test (%s at %s): the first call crashes' % (g, suf[2:], g, how, loc.rsplit('/', 1)[-1]), ctx.path())
            return [e2] if e2 is not None else None
        for sev, x, g, need in sites:
            n += 1
            run.instance(RULE, '%s: installs %s()' % (name, g))
        solve(f, Env(), on_event, None, None, None, key_fn=lambda e: tuple(sorted((a, e.nullf(a)) for a in tr if e.nullf(a))) + tuple(sorted(k for k in e.ts if k.startswith('nn:'))), max_envs=512)
    run.stats['nullbelief_installed_callouts'] = n
    return n
