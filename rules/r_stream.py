"""R-STREAM-ADV and R-STREAM-CAP (C05, C02).

R-STREAM-ADV  a transfer of n bytes to base + C (memcpy, or a layer l_read(.., &buf[C], cap) returning n), C a
              progress-counter field, is followed on every path - before the next transfer at C and before the
              function returns - by exactly one update of C: `C += n` with the SAME n, or a reset `C = e` with e
              free of C.  No obligation on paths where n <= 0 is known, or which reach a closing call.
R-STREAM-CAP  (a) a declared message / frame length taken from the stream (result of coap_pdu_parse_size(),
              WebSocket bytes_size) reaches an allocation / copy / read size only on the non-exceeding arm of a
              comparison with a maximum, and the exceeding arm reaches a closing call before the function returns;
              (b) the handshake line buffer: coap_ws_rd_http_header compares the fill level with the buffer size
              and the exceeding arm returns 0 (which makes coap_ws_read() disconnect).
"""
import collections
from core.prog import strip, walk, ap, key, short, const_int, callee_field, succs
from core.psts import Env, solve, relevance, apply_generic, INF

COUNTERS = {'partial_read', 'partial_write', 'hdr_ofs', 'http_ofs', 'data_ofs'}
CLOSERS = {'coap_session_disconnected_lkd', 'coap_ws_close'}
SIZE_SINKS = {'coap_pdu_resize': 1, 'coap_pdu_init': 3, 'memcpy': 2, 'memmove': 2, 'coap_malloc_type': 1}
# declared-length sources: function -> how the variable is recognised
CAP_SOURCES = {
    'coap_read_session': ('call', 'coap_pdu_parse_size'),
    'coap_ws_read': ('var', 'bytes_size'),
}


def counter_in(t):
    for y in walk(t):
        if isinstance(y, dict) and y.get('k') == 'mem' and y.get('f') in COUNTERS:
            return ap(y), y['f']
    return None, None


def run_adv(run, P, only=None):
    run.rule('R-STREAM-ADV')
    for f in sorted(P.lib_funcs(), key=lambda f: f['name']):
        if only and f['name'] not in only:
            continue
        name = f['name']

        def transfer(t):
            """(counter ap, counter field, amount key, amount text) if the event transfers bytes to base + C"""
            if t.get('k') == 'call' and t.get('fn') == 'memcpy' and len(t['a']) == 3:
                c, fld = counter_in(t['a'][0])
                if c:
                    return c, fld, key(t['a'][2]), short(t['a'][2])
            r = None
            tgt = None
            if t.get('k') == 'asg' and t.get('op') == '=':
                r, tgt = strip(t['r']), t['l']
            if isinstance(r, dict) and r.get('k') == 'call' and r.get('fn') is None and len(r['a']) == 3:
                from core.prog import callee_field
                if callee_field(r) in ('l_read',):
                    c, fld = counter_in(r['a'][1])
                    if c:
                        return c, fld, key(tgt), short(tgt)
            return None
        if not any(transfer(ev['e']) for b, ev in P.events(f)):
            continue
        amount_aps = set()
        for b, ev in P.events(f):
            tr = transfer(ev['e'])
            if tr and tr[2].startswith('v'):
                amount_aps.add(tr[2])

        def is_rule_event(ev):
            t = ev['e']
            if transfer(t):
                return True
            if t.get('k') == 'call' and t.get('fn') in CLOSERS:
                return True
            if t.get('k') == 'asg':
                l = strip(t['l'])
                if isinstance(l, dict) and l.get('k') == 'mem' and l['f'] in COUNTERS:
                    return True
            if t.get('k') == 'un' and t.get('op') in ('++', '--'):
                l = strip(t['e'])
                if isinstance(l, dict) and l.get('k') == 'mem' and l['f'] in COUNTERS:
                    return True
            return t.get('k') == 'ret'
        keys, R = relevance(f, is_rule_event, amount_aps)
        R = R | amount_aps

        def normalize(env):
            """transfers of a non-positive amount carry no obligation"""
            e = None
            for k2, v in list(env.ts.items()):
                if k2.startswith('pend:'):
                    amt = v[0]
                    if amt.startswith('v') or '->' in amt:
                        lo, hi, ex = env.intf(amt)
                        if hi <= 0:
                            e = e or env.copy()
                            del e.ts[k2]
            return e or env

        def on_event(ev, env0, ctx):
            env = normalize(env0)
            t = ev['e']
            tr = transfer(t)
            if tr:
                c, fld, amt, txt = tr
                run.instance('R-STREAM-ADV', '%s: %s bytes to base + %s' % (name, txt, fld))
                old = env.ts.get('pend:' + c)
                if old:
                    run.oblige('R-STREAM-ADV', False, '%s:%s:second-transfer' % (name, fld))
                    run.violation('R-STREAM-ADV', name, old[2], 'unaccounted-transfer:%s' % fld,
                                  '%s bytes were stored at offset %s but %s was not advanced before the next transfer at it' % (old[1], fld, fld), ctx.path())
                e = apply_generic(ev, env, R)
                if e is env:
                    e = env.copy()
                e.ts['pend:' + c] = (amt, txt, ev['loc'])
                return [e]
            if t.get('k') == 'call' and t.get('fn') in CLOSERS:
                if any(k2.startswith('pend:') for k2 in env.ts):
                    e = env.copy()
                    for k2 in [k2 for k2 in e.ts if k2.startswith('pend:')]:
                        del e.ts[k2]
                    return [apply_generic(ev, e, R)]
                return None
            l = None
            op = None
            rhs = None
            if t.get('k') == 'asg':
                l, op, rhs = strip(t['l']), t.get('op'), t['r']
            elif t.get('k') == 'un' and t.get('op') in ('++', '--'):
                l, op, rhs = strip(t['e']), t['op'][0] + '=', {'k': 'int', 'v': 1}
            if isinstance(l, dict) and l.get('k') == 'mem' and l['f'] in COUNTERS:
                c = ap(l)
                # `C = C + n` / `C = n + C` is the long form of `C += n`
                if op == '=':
                    r0 = strip(rhs)
                    if isinstance(r0, dict) and r0.get('k') == 'bin' and r0.get('op') == '+':
                        for a_, b_ in ((r0['l'], r0['r']), (r0['r'], r0['l'])):
                            if ap(strip(a_)) == c and not any(isinstance(y, dict) and ap(y) == c for y in walk(b_)):
                                op, rhs = '+=', b_
                                break
                p = env.ts.get('pend:' + c)
                if p is None:
                    return None if env is env0 else [apply_generic(ev, env, R)]
                e = apply_generic(ev, env, R)
                if e is env:
                    e = env.copy()
                if op == '+=':
                    ok = key(rhs) == p[0]
                    run.oblige('R-STREAM-ADV', ok, '%s:%s:advance-by-transfer' % (name, l['f']))
                    if not ok:
                        run.violation('R-STREAM-ADV', name, ev['loc'], 'advance-mismatch:%s' % l['f'],
                                      '%s is advanced by %s although %s bytes were stored at that offset (%s): after a read that ends inside this '
                                      'part of the message the reader looks for the rest at the wrong place' % (short(l), short(rhs), p[1], p[2].rsplit('/', 1)[-1]), ctx.path())
                    del e.ts['pend:' + c]
                    return [e]
                if op == '=' and key(rhs) == p[0] and not (env.intf(c)[0] == env.intf(c)[1] == 0):
                    # `C = n` with n the size just transferred: the bytes went to base + C, so the new position is C + n; this is only the same
                    # when C was 0, which is not known here
                    run.oblige('R-STREAM-ADV', False, '%s:%s:position-set-to-transfer-size' % (name, l['f']))
                    run.violation('R-STREAM-ADV', name, ev['loc'], 'position-set-to-transfer-size:%s' % l['f'],
                                  '%s is SET to %s, the number of bytes just stored at base + %s, instead of being advanced by it: whenever the offset was not 0 (a unit '
                                  'that arrives in more than two pieces) the next piece overwrites what was collected before' % (short(l), short(rhs), l['f']), ctx.path())
                    del e.ts['pend:' + c]
                    return [e]
                if op == '=':
                    free = not any(isinstance(y, dict) and y.get('k') == 'mem' and ap(y) == c for y in walk(rhs))
                    run.oblige('R-STREAM-ADV', free, '%s:%s:reset' % (name, l['f']))
                    if not free:
                        run.violation('R-STREAM-ADV', name, ev['loc'], 'reset-not-free:%s' % l['f'],
                                      '%s is re-assigned from an expression that still contains it while a transfer of %s bytes is unaccounted' % (short(l), p[1]), ctx.path())
                    del e.ts['pend:' + c]
                    return [e]
                del e.ts['pend:' + c]
                return [e]
            if t.get('k') == 'ret':
                for k2, v in env.ts.items():
                    if k2.startswith('pend:'):
                        run.oblige('R-STREAM-ADV', False, '%s:%s:exit' % (name, k2))
                        run.violation('R-STREAM-ADV', name, v[2], 'unaccounted-transfer:%s' % k2.rsplit('->', 1)[-1],
                                      '%s bytes were stored at the progress offset but it is not advanced before the function returns' % v[1], ctx.path())
                return None
            if env is not env0:
                return [apply_generic(ev, env, R)]
            return None

        def key_fn(e):
            return tuple(sorted((k, v[0]) for k, v in e.ts.items() if k.startswith('pend:')))
        ctx = solve(f, Env(), on_event, None, keys, R, key_fn=key_fn)
        run.stats['stream_solver_steps'] += ctx.steps


# phase transitions of the stream readers: (function, field whose assignment starts the new phase, value test, progress counter
# that the new phase uses as transfer offset).  On every path from the transition to the next transfer at that counter the
# counter is assigned (initialised for the new unit of data).
PHASE_INIT = (
    ('coap_ws_read', 'all_hdr_in', lambda r: const_int(r) == 1, 'data_ofs', 'a new WebSocket frame (header complete)'),
    ('coap_read_session', 'partial_pdu', lambda r: isinstance(strip(r), dict) and strip(r).get('k') == 'call', 'partial_read', 'a new TCP message body'),
)


def run_phase(run, P):
    run.rule('R-STREAM-ADV')
    for fname, pfield, ptest, counter, what in PHASE_INIT:
        if not P.has(fname):
            if run.fixture_mode:
                continue
            run.require(False, 'anchor function %s() of R-STREAM-ADV not found' % fname)
        f = P.func(fname)
        seen = {'phase': 0, 'xfer': 0}

        def xfer_at_counter(t):
            """the event transfers bytes to base + counter"""
            if t.get('k') == 'call' and t.get('fn') == 'memcpy' and len(t['a']) == 3:
                c, fld = counter_in(t['a'][0])
                return fld == counter
            if t.get('k') == 'call' and t.get('fn') is None and len(t['a']) == 3:
                from core.prog import callee_field
                if callee_field(t) == 'l_read':
                    c, fld = counter_in(t['a'][1])
                    return fld == counter
            return False

        def on_event(ev, env, ctx):
            t = ev['e']
            if t.get('k') == 'asg':
                l = strip(t['l'])
                if isinstance(l, dict) and l.get('k') == 'mem' and l['f'] == pfield and t.get('op') == '=' and ptest(t['r']):
                    seen['phase'] += 1
                    e = apply_generic(ev, env, None).copy()
                    e.ts['fresh'] = ev['loc']
                    return [e]
                if isinstance(l, dict) and l.get('k') == 'mem' and l['f'] == counter and env.ts.get('fresh'):
                    e = apply_generic(ev, env, None).copy()
                    del e.ts['fresh']
                    return [e]
            if xfer_at_counter(t):
                seen['xfer'] += 1
                ok = not env.ts.get('fresh')
                run.oblige('R-STREAM-ADV', ok, '%s:%s-initialised-for-new-phase' % (fname, counter))
                if not ok:
                    run.violation('R-STREAM-ADV', fname, ev['loc'], 'stale-offset:%s' % counter,
                                  'bytes are transferred to buffer + %s on a path that started %s (%s) without assigning %s: the offset left over from the '
                                  'previous unit is used, so the message is garbled when the read ends exactly at this boundary' % (counter, what, env.ts['fresh'].rsplit('/', 1)[-1], counter), ctx.path())
            return None
        solve(f, Env(), on_event, None, None, None, key_fn=lambda e: (e.ts.get('fresh'),), max_envs=64)
        run.instance('R-STREAM-ADV', '%s: phase entry %s -> %s initialised before use (%d transition visit(s), %d transfer visit(s))' % (fname, pfield, counter, seen['phase'], seen['xfer']))
        run.require((seen['phase'] > 0 and seen['xfer'] > 0) or run.fixture_mode, 'R-STREAM-ADV: phase transition %s / transfer at %s not found in %s()' % (pfield, counter, fname))


def run_cap(run, P):
    run.rule('R-STREAM-CAP')
    _signed_rep = set()
    for fname, (kind, what) in sorted(CAP_SOURCES.items()):
        if not P.has(fname):
            if run.fixture_mode:
                continue
            run.require(False, 'anchor function %s() of R-STREAM-CAP not found' % fname)
        f = P.func(fname)
        # the tainted variable(s): flow-insensitive closure over copies into locals and fields
        taint = set()
        for b, ev in P.events(f):
            t = ev['e']
            if kind == 'call':
                tg = None
                if t.get('k') == 'asg' and t.get('op') == '=' and isinstance(strip(t['r']), dict) and strip(t['r']).get('k') == 'call' and strip(t['r']).get('fn') == what:
                    tg = ap(t['l'])
                elif t.get('k') == 'decl':
                    for d in t['d']:
                        r = strip(d.get('init'))
                        if isinstance(r, dict) and r.get('k') == 'call' and r.get('fn') == what:
                            tg = 'v%d' % d['id']
                if tg:
                    taint.add(tg)
            else:
                for y in walk(t):
                    if isinstance(y, dict) and y.get('k') == 'var' and y['n'] == what:
                        taint.add(ap(y))
        run.require(bool(taint) or run.fixture_mode, 'R-STREAM-CAP: declared-length source %s not found in %s()' % (what, fname))
        if not taint:
            continue
        src = set(taint)
        for rnd in range(3):
            for b, ev in P.events(f):
                t = ev['e']
                if t.get('k') == 'asg' and t.get('op') == '=' and ap(t['r']) in taint and ap(t['l']):
                    taint.add(ap(t['l']))

        def sink_of(t):
            if t.get('k') != 'call':
                return None
            fn = t.get('fn')
            idx = SIZE_SINKS.get(fn)
            if fn is None:
                from core.prog import callee_field
                if callee_field(t) == 'l_read':
                    idx = 2
            if idx is None or idx >= len(t['a']):
                return None
            for y in walk(t['a'][idx]):
                if isinstance(y, dict) and ap(y) in taint:
                    return (fn or 'l_read', ap(y))
            return None

        def is_rule_event(ev):
            t = ev['e']
            if sink_of(t):
                return True
            if t.get('k') == 'call' and t.get('fn') in CLOSERS:
                return True
            return t.get('k') == 'ret'
        keys, R = relevance(f, is_rule_event, taint)
        keys = None       # every comparison may be the cap

        def on_branch(b, s, e, ctx):
            term = b.get('term') or {}
            c = strip(term.get('cond'))
            if not isinstance(c, dict) or c.get('k') != 'bin' or c.get('op') not in ('>', '>=', '<', '<='):
                return e
            l, r = ap(c['l']), ap(c['r'])
            truth = s == b['succ'][0]
            tv = None

            def is_max(node):
                """a maximum: a constant or a parameter of this function"""
                n = strip(node)
                return const_int(n) is not None or (isinstance(n, dict) and n.get('k') == 'var' and 'pi' in n)
            if l in src and c['op'] in ('>', '>=') and is_max(c['r']):
                tv, exceed = l, truth
            elif r in src and c['op'] in ('<', '<=') and is_max(c['l']):
                tv, exceed = r, truth
            elif l in src and c['op'] in ('<', '<=') and is_max(c['r']):
                tv, exceed = l, not truth
            elif r in src and c['op'] in ('>', '>=') and is_max(c['l']):
                tv, exceed = r, not truth
            if tv is None:
                return e
            # comparisons with tiny constants (== 0 tests written as < 1) are not caps
            K = const_int(c['r']) if l in src else const_int(c['l'])
            if K is not None and K < 16:
                return e
            e2 = e.copy()
            if exceed:
                e2.ts['exceed'] = term.get('loc')
            else:
                # a cap made as a SIGNED comparison lets through every declared length whose top bit is set (a 64-bit WebSocket length of
                # 2^63 and more is negative as ssize_t): the non-exceeding arm only caps when the declared value is compared as unsigned
                # or is known non-negative on this path
                tn = c['l'] if tv == l else c['r']          # NOT stripped: the cast the comparison sees decides its signedness
                while isinstance(tn, dict) and tn.get('k') == 'paren':
                    tn = tn.get('e')
                signed_cmp = isinstance(tn, dict) and tn.get('s') == 1
                lo = e.intf(tv)[0]
                if signed_cmp and not (lo >= 0):
                    if (fname, term.get('loc')) not in _signed_rep:
                        _signed_rep.add((fname, term.get('loc')))
                        run.oblige('R-STREAM-CAP', False, '%s:cap-is-unsigned' % fname)
                        run.violation('R-STREAM-CAP', fname, term.get('loc') or f['loc'], 'signed-cap-comparison',
                                      'the declared length is compared with the maximum as a SIGNED value and is not known non-negative: a declared length with the top bit set '
                                      'is negative here, passes as "not too big", the session is not closed and the reader waits for (or copies) an absurd amount', ctx.path())
                    return e
                e2.ts['capped'] = 1
            return e2

        def on_event(ev, env, ctx):
            t = ev['e']
            sk = sink_of(t)
            if sk:
                run.instance('R-STREAM-CAP', '%s: declared length reaches the size of %s()' % (fname, sk[0]))
                if not env.ts.get('live'):
                    return None      # the value was stored (and compared) by an earlier invocation
                ok = bool(env.ts.get('capped')) and not env.ts.get('exceed')
                run.oblige('R-STREAM-CAP', ok, '%s:capped-before:%s' % (fname, sk[0]))
                if not ok:
                    run.violation('R-STREAM-CAP', fname, ev['loc'], 'uncapped-length:%s' % sk[0],
                                  'the length declared by the peer reaches the size argument of %s() on a path that did not pass the non-exceeding arm of a '
                                  'comparison with a maximum' % sk[0], ctx.path())
                return None
            if t.get('k') == 'call' and t.get('fn') in CLOSERS and env.ts.get('exceed'):
                e = env.copy()
                del e.ts['exceed']
                e.ts['closed'] = 1
                return [apply_generic(ev, e, None)]
            if t.get('k') == 'ret' and env.ts.get('exceed'):
                run.oblige('R-STREAM-CAP', False, '%s:exceed-closes' % fname)
                run.violation('R-STREAM-CAP', fname, env.ts['exceed'], 'overlong-not-closed',
                              'a path on which the declared length exceeds the maximum returns without reaching %s: the session is not closed' % ' / '.join(sorted(CLOSERS)), ctx.path())
                return None
            newval = False
            if t.get('k') == 'asg' and t.get('op') == '=' and ap(t['l']) in src and const_int(t['r']) is None:
                newval = True
            elif t.get('k') == 'decl':
                newval = any(('v%d' % d['id']) in src and 'init' in d and const_int(d['init']) is None for d in t['d'])
            if newval:
                # the length variable gets a (new) value from the stream: it needs a (new) comparison
                e = apply_generic(ev, env, None).copy()
                e.ts.pop('capped', None)
                e.ts['live'] = 1
                return [e]
            return None

        def key_fn(e):
            return (e.ts.get('capped'), e.ts.get('exceed'), e.ts.get('closed'), e.ts.get('live'))
        ctx = solve(f, Env(), on_event, None, keys, None, key_fn=key_fn, on_branch=on_branch, max_envs=64)
        run.stats['stream_solver_steps'] += ctx.steps
        run.oblige('R-STREAM-CAP', True, '%s:analysed' % fname)
    # (b) handshake line buffer
    if P.has('coap_ws_rd_http_header'):
        f = P.func('coap_ws_rd_http_header')
        alen = None
        fl = P.field('coap_ws_state_t', 'http_hdr')
        if fl:
            alen = fl.get('alen')
        run.require(alen is not None, 'R-STREAM-CAP: coap_ws_state_t.http_hdr is not a fixed-size array any more')
        found = {'cmp': False}

        def on_branch(b, s, e, ctx):
            term = b.get('term') or {}
            c = strip(term.get('cond'))
            if not isinstance(c, dict) or c.get('k') != 'bin' or c.get('op') not in ('>', '>=', '<', '<=', '=='):
                return e
            ls, rs = strip(c['l']), strip(c['r'])
            K = const_int(rs)
            if isinstance(ls, dict) and ls.get('k') == 'mem' and ls['f'] == 'http_ofs' and K is not None and alen - 2 <= K <= alen:
                found['cmp'] = True
                truth = s == b['succ'][0]
                exceed = truth if c['op'] in ('>', '>=', '==') else not truth
                if exceed:
                    e2 = e.copy()
                    e2.ts['full'] = term.get('loc')
                    return e2
            return e

        def on_event(ev, env, ctx):
            t = ev['e']
            if t.get('k') == 'ret' and env.ts.get('full'):
                v = const_int(t.get('e')) if 'e' in t else None
                ok = v == 0
                run.oblige('R-STREAM-CAP', ok, 'coap_ws_rd_http_header:full-line-rejected')
                if not ok:
                    run.violation('R-STREAM-CAP', 'coap_ws_rd_http_header', env.ts['full'], 'overlong-line-not-rejected',
                                  'a path on which the handshake line buffer is full returns %s instead of 0: an over-long line is buffered forever and '
                                  'the session is never closed' % (short(t)), ctx.path())
                return None
            if t.get('k') == 'call' and t.get('fn') is None and env.ts.get('full'):
                # reading more into the buffer with the fill level known to be at the limit
                return None
            return None
        ctx = solve(f, Env(), on_event, None, None, None, key_fn=lambda e: (e.ts.get('full'),), on_branch=on_branch, max_envs=64)
        run.instance('R-STREAM-CAP', 'coap_ws_rd_http_header: http_hdr[%d] fill-level comparison %s' % (alen, 'present' if found['cmp'] else 'MISSING'))
        if not found['cmp']:
            run.oblige('R-STREAM-CAP', False, 'coap_ws_rd_http_header:fill-compared')
            run.violation('R-STREAM-CAP', 'coap_ws_rd_http_header', f['loc'], 'line-buffer-unbounded',
                          'the fill level http_ofs is never compared with the size of http_hdr[%d] (full-buffer test missing): an over-long handshake line is buffered forever and the '
                          'session is never closed' % alen)
    elif not run.fixture_mode:
        run.require(False, 'anchor function coap_ws_rd_http_header() not found')


# ---------------------------------------------------------------------------------------------------------------
READ_FIELDS = ('l_read',)
READ_FUNCS = ('recv', 'read', 'recvfrom', 'coap_socket_read', 'coap_netif_strm_read', 'gnutls_record_recv')


def run_cursor(run, P, units=('coap_net.c', 'coap_ws.c', 'coap_tcp.c', 'coap_io.c', 'coap_netif.c')):
    """R-STREAM-ADV (cursor): a parse cursor into a receive buffer is re-derived after every refill of that buffer.
    refill  = a call through a layer read slot (l_read) or a socket read that is handed buffer B as destination;
    cursor  = a local pointer assigned from B (or B + k);
    a cursor that was advanced since it was derived is stale after a refill until it is assigned from B again (one that
    still points at the start of B stays valid); dereferencing a stale cursor or
    handing it to a function (memcpy source ...) parses bytes of an earlier read -- only when one read fills the buffer
    exactly and more data is waiting, i.e. under one particular segmentation."""
    from core.prog import callee_field
    run.rule('R-STREAM-ADV')
    nf = 0
    for f in sorted(P.lib_funcs(), key=lambda f: f['name']):
        if f['unit'] not in units:
            continue
        name = f['name']
        refills = []
        for b, ev in P.events(f):
            t = ev['e']
            if t.get('k') == 'call' and (callee_field(t) in READ_FIELDS or t.get('fn') in READ_FUNCS) and len(t.get('a', [])) >= 2:
                bufs = [ap(a) for a in t['a'] if ap(a) and isinstance(strip(a), dict) and (strip(a).get('p') or strip(a).get('alen'))]
                bufs = [x for x in bufs if x and not x.startswith('v') or (x and ('>' in x or '.' in x))] or bufs
                for x in bufs[1:2] if len(bufs) > 1 else bufs[:1]:
                    refills.append((ev, x))
        if not refills:
            continue
        bufaps = set(x for _e, x in refills)
        cursors = {}
        for b, ev in P.events(f):
            t = ev['e']
            pairs = []
            if t.get('k') == 'asg' and t.get('op') == '=':
                pairs.append((ap(t['l']), t['r']))
            elif t.get('k') == 'decl':
                for d in t['d']:
                    if 'init' in d:
                        pairs.append(('v%d' % d['id'], d['init']))
            for l, r in pairs:
                r0 = strip(r)
                while isinstance(r0, dict) and r0.get('k') == 'bin' and r0.get('op') in ('+', '-'):
                    r0 = strip(r0['l'])
                if l and '.' not in l and '>' not in l and ap(r0) in bufaps:
                    cursors.setdefault(l, set()).add(ap(r0))
        if not cursors:
            continue
        nf += 1
        run.instance('R-STREAM-ADV', '%s: cursor(s) into %d refilled buffer(s)' % (name, len(bufaps)))
        rid = dict((id(ev), x) for ev, x in refills)

        def is_rule_event(ev):
            t = ev['e']
            if id(ev) in rid:
                return True
            if t.get('k') in ('asg', 'decl'):
                return True
            if t.get('k') == 'call':
                return any(ap(a) in cursors for a in t.get('a', []))
            if t.get('k') == 'un' and t.get('op') in ('*', '++', '--') and ap(t.get('e')) in cursors:
                return True
            if t.get('k') in ('idx', 'sub') and ap(t.get('b')) in cursors:
                return True
            return False
        keys, R = relevance(f, is_rule_event)

        def stale_use(ev, env, ctx, c, how):
            run.oblige('R-STREAM-ADV', False, '%s:cursor:%s' % (name, c))
            run.violation('R-STREAM-ADV', name, ev['loc'], 'stale-cursor',
                          'the parse cursor is %s after the receive buffer it points into was refilled and before it was set to the start of the buffer again: '
                          'bytes of the previous read (or behind the buffer) are parsed instead of the new ones' % how, ctx.path())

        def on_event(ev, env, ctx):
            t = ev['e']
            st = dict(env.ts.get('cur', ()))
            if id(ev) in rid:
                b0 = rid[id(ev)]
                e = apply_generic(ev, env, R).copy()
                for c, bs in cursors.items():
                    # a cursor still at the start of the buffer stays valid; one that was advanced points into old data
                    if b0 in bs and st.get(c) == 'moved':
                        st[c] = 'stale'
                e.ts['cur'] = tuple(sorted(st.items()))
                return [e]
            if t.get('k') in ('asg', 'decl'):
                pairs = []
                if t.get('k') == 'asg':
                    pairs.append((ap(t['l']), t['r'], t.get('op')))
                else:
                    for d in t['d']:
                        if 'init' in d:
                            pairs.append(('v%d' % d['id'], d['init'], '='))
                ch = False
                for l, r, op in pairs:
                    if l in cursors:
                        if op == '=':
                            r0 = strip(r)
                            while isinstance(r0, dict) and r0.get('k') == 'bin' and r0.get('op') in ('+', '-'):
                                r0 = strip(r0['l'])
                            st[l] = ('fresh' if strip(r) is r0 or ap(strip(r)) in bufaps else 'moved') if ap(r0) in bufaps else None
                            ch = True
                        elif st.get(l) == 'stale':
                            stale_use(ev, env, ctx, l, 'advanced')
                            st[l] = None
                            ch = True
                        elif st.get(l) == 'fresh':
                            st[l] = 'moved'
                            ch = True
                if ch:
                    e = apply_generic(ev, env, R).copy()
                    e.ts['cur'] = tuple(sorted((k, v) for k, v in st.items() if v))
                    return [e]
                return None
            if t.get('k') == 'un' and t.get('op') in ('++', '--') and ap(t.get('e')) in cursors and st.get(ap(t['e'])) == 'fresh':
                e = apply_generic(ev, env, R).copy()
                st[ap(t['e'])] = 'moved'
                e.ts['cur'] = tuple(sorted((k, v) for k, v in st.items() if v))
                return [e]
            used = None
            if t.get('k') == 'call':
                for a in t.get('a', []):
                    if ap(a) in cursors and st.get(ap(a)) == 'stale':
                        used = (ap(a), 'handed to %s()' % (t.get('fn') or 'a callee'))
            elif t.get('k') == 'un' and ap(t.get('e')) in cursors and st.get(ap(t['e'])) == 'stale':
                used = (ap(t['e']), 'dereferenced')
            elif t.get('k') in ('idx', 'sub') and ap(t.get('b')) in cursors and st.get(ap(t['b'])) == 'stale':
                used = (ap(t['b']), 'indexed')
            if used:
                stale_use(ev, env, ctx, used[0], used[1])
                e = env.copy()
                st[used[0]] = None
                e.ts['cur'] = tuple(sorted((k, v) for k, v in st.items() if v))
                return [apply_generic(ev, e, R)]
            return None
        ctx = solve(f, Env({'cur': ()}), on_event, None, keys, R, key_fn=lambda e: e.ts.get('cur'))
        run.stats['stream_cursor_steps'] += ctx.steps
        run.oblige('R-STREAM-ADV', True, '%s:cursor-analysed' % name)
    run.require_count(nf >= 1 or run.fixture_mode, 'R-STREAM-ADV(cursor): no function with a parse cursor into a refilled receive buffer found')


# ---------------------------------------------------------------------------------------------------------------
DECODERS = ('coap_decode_var_bytes', 'coap_decode_var_bytes8')


def peer_fields(P):
    """session fields a peer can set: assigned from a decoded option value, directly or through a setter whose parameter ends up in the field"""
    setters = {}          # function -> {param index: field}
    for f in P.lib_funcs():
        pidx = dict(('v%d' % p['id'], i) for i, p in enumerate(f['params']))
        for b, ev in P.events(f):
            t = ev['e']
            if t.get('k') == 'asg' and t.get('op') == '=':
                l = strip(t['l'])
                if isinstance(l, dict) and l.get('k') == 'mem' and l.get('rec') == 'coap_session_t' and ap(strip(t['r'])) in pidx:
                    setters.setdefault(f['name'], {})[pidx[ap(strip(t['r']))]] = l['f']
    out = {}
    for f in P.lib_funcs():
        dec_locals = set()
        for b, ev in P.events(f):
            t = ev['e']
            srcs = []
            if t.get('k') == 'asg' and t.get('op') == '=':
                srcs.append((t['l'], t['r'], ev['loc']))
            for d in t.get('d') or ():
                if d.get('init') is not None:
                    srcs.append(({'k': 'var', 'id': d['id'], 'n': d['n']}, d['init'], ev['loc']))
            for l, r, loc in srcs:
                dec = any(isinstance(x, dict) and ((x.get('k') == 'call' and x.get('fn') in DECODERS) or ap(x) in dec_locals) for x in walk(r))
                if not dec:
                    continue
                l0 = strip(l)
                if isinstance(l0, dict) and l0.get('k') == 'mem' and l0.get('rec') == 'coap_session_t':
                    out.setdefault(l0['f'], '%s (%s)' % (f['name'], loc.rsplit('/', 1)[-1]))
                elif ap(l0):
                    dec_locals.add(ap(l0))
        for b, ev in P.events(f):
            for t in walk(ev['e']):
                if isinstance(t, dict) and t.get('k') == 'call' and t.get('fn') in setters:
                    for i, fld in setters[t['fn']].items():
                        if i < len(t.get('a') or []) and any(isinstance(x, dict) and ((x.get('k') == 'call' and x.get('fn') in DECODERS) or ap(x) in dec_locals) for x in walk(t['a'][i])):
                            out.setdefault(fld, '%s via %s() (%s)' % (f['name'], t['fn'], ev['loc'].rsplit('/', 1)[-1]))
    return out


def run_cap_own(run, P):
    """R-STREAM-CAP (own limit): the stream reader sizes the buffer for an incoming message -- and so the largest message it will collect
    before it closes the session -- with a limit function (computed: the callee in the size argument of coap_pdu_init() in the functions of
    CAP_SOURCES).  Inside that function, a return that is guarded by the non-zero test of a session field (our own announced maximum) is
    computed without any field a peer can set (computed: session fields assigned from a decoded option value, directly or through a
    setter).  Otherwise the peer's Max-Message-Size, not ours, decides how much is buffered."""
    from core.psts import Env, solve, relevance, apply_generic
    run.rule('R-STREAM-CAP')
    limit_funcs = set()
    for fname in CAP_SOURCES:
        if not P.has(fname):
            continue
        for b, ev in P.events(P.func(fname)):
            for t in walk(ev['e']):
                if isinstance(t, dict) and t.get('k') == 'call' and t.get('fn') == 'coap_pdu_init' and len(t.get('a') or []) >= 4:
                    for x in walk(t['a'][3]):
                        if isinstance(x, dict) and x.get('k') == 'call' and x.get('fn') and P.has(x['fn']):
                            limit_funcs.add(x['fn'])
    run.require(bool(limit_funcs) or run.fixture_mode or run.cfg != 'base', 'R-STREAM-CAP(own limit): no limit function found in the size argument of coap_pdu_init() in %s' % (sorted(CAP_SOURCES),))
    PEER = peer_fields(P)
    run.require(bool(PEER) or not limit_funcs or run.fixture_mode, 'R-STREAM-CAP(own limit): no session field is assigned from a decoded option value any more')
    run.notes.append('session fields a peer can set (computed): ' + ', '.join('%s <- %s' % kv for kv in sorted(PEER.items())))
    for fn in sorted(limit_funcs):
        f = P.func(fn)
        guarded = [0]

        def fld_test(c):
            c = strip(c)
            truthy = True
            while isinstance(c, dict) and c.get('k') == 'un' and c.get('op') == '!':
                c = strip(c['e'])
                truthy = not truthy
            if isinstance(c, dict) and c.get('k') == 'bin' and c.get('op') in ('!=', '>') and const_int(c['r']) == 0:
                c = strip(c['l'])
            if isinstance(c, dict) and c.get('k') == 'mem' and c.get('rec') == 'coap_session_t':
                return c['f'], truthy
            return None

        def on_branch(b, s, env, ctx):
            c = (b.get('term') or {}).get('cond')
            if c is None or len(b['succ']) != 2:
                return env
            ft = fld_test(c)
            if ft and ft[0] not in PEER and ((s == b['succ'][0]) == ft[1]):
                e = env.copy()
                e.ts['own'] = ft[0]
                return e
            return env

        def on_event(ev, env, ctx):
            t = ev['e']
            if t.get('k') == 'ret' and t.get('e') is not None and env.ts.get('own'):
                guarded[0] += 1
                bad = sorted(set(x['f'] for x in walk(t['e']) if isinstance(x, dict) and x.get('k') == 'mem' and x.get('rec') == 'coap_session_t' and x['f'] in PEER))
                run.oblige('R-STREAM-CAP', not bad, '%s:own-limit-return' % fn)
                if bad:
                    run.violation('R-STREAM-CAP', fn, ev['loc'], 'own-limit-from-peer-field:%s' % ','.join(bad),
                                  'with our own maximum (%s) known to be set, the receive limit is computed from %s, which the peer sets (%s): the peer\'s announcement, not our '
                                  'configuration, bounds what the stream reader buffers before it closes the session' %
                                  (env.ts['own'], ', '.join(bad), PEER[bad[0]]), ctx.path())
            return None
        solve(f, Env(), on_event, None, None, None, key_fn=lambda e: e.ts.get('own'), on_branch=on_branch)
        run.instance('R-STREAM-CAP', '%s: %d return path(s) under an own-limit test are free of peer-set fields' % (fn, guarded[0]))
        run.require(guarded[0] > 0 or run.fixture_mode, 'R-STREAM-CAP(own limit): %s() has no return guarded by the test of a session field any more' % fn)


def run_needed_len(run, P):
    """R-STREAM-ADV (needed length is final): a stream reader that collects a variable-length header compares what has arrived (a progress
    counter field: hdr_ofs, partial_read, ...) with what is needed (an expression over a local that it builds up from the bytes seen so far:
    `hdr_ofs < 2 + extra_hdr_len`) and carries on only when enough is in.  On no path is that local increased AFTER the comparison that
    let the function carry on: the length that was compared has to be the whole length.  A "+= 4 for the masking key" behind the test makes
    the header count as complete while the key has not arrived -- only when a read happens to end there."""
    from core.psts import Env, solve, relevance, apply_generic
    run.rule('R-STREAM-ADV')
    n = 0
    for f in sorted(P.lib_funcs(), key=lambda f: f['name']):
        # comparisons of a counter field with an expression over locals
        tests = []
        for b in f['blocks']:
            c = (b.get('term') or {}).get('cond')
            if c is None or len(b['succ']) != 2:
                continue
            c0 = strip(c)
            if not (isinstance(c0, dict) and c0.get('k') == 'bin' and c0.get('op') in ('<', '<=', '>', '>=')):
                continue
            for a, o in ((c0['l'], c0['r']), (c0['r'], c0['l'])):
                a0 = strip(a)
                if isinstance(a0, dict) and a0.get('k') == 'mem' and a0.get('f') in COUNTERS:
                    ls = set(ap(x) for x in walk(o) if isinstance(x, dict) and x.get('k') == 'var' and 'pi' not in x and ap(x))
                    if ls:
                        # the arm on which "enough has arrived": counter >= needed
                        if a is c0['l']:
                            enough_true = c0['op'] in ('>', '>=')
                        else:
                            enough_true = c0['op'] in ('<', '<=')
                        tests.append((b['id'], ls, enough_true, b['term'].get('loc')))
        if not tests:
            continue
        locals_ = set().union(*[t[1] for t in tests])
        incs = [ev for b, ev in P.events(f) if ev['e'].get('k') == 'asg' and ev['e'].get('op') == '+=' and ap(ev['e']['l']) in locals_]
        if not incs:
            continue
        name = f['name']
        n += 1
        run.instance('R-STREAM-ADV', '%s: the needed length is complete when it is compared with what has arrived' % name)

        def is_rule_event(ev):
            return any(ev is i for i in incs)
        keys, R = relevance(f, is_rule_event)
        keys = set(keys) | set(t[0] for t in tests)

        def on_branch(b, s, env, ctx):
            for bid, ls, enough_true, loc in tests:
                if b['id'] == bid and ((s == b['succ'][0]) == enough_true):
                    e = env.copy()
                    e.ts['tested'] = tuple(sorted(set(env.ts.get('tested', ())) | set((l, loc) for l in ls)))
                    return e
            return env

        def on_event(ev, env, ctx):
            if any(ev is i for i in incs):
                v = ap(ev['e']['l'])
                hit = [loc for (l, loc) in env.ts.get('tested', ()) if l == v]
                run.oblige('R-STREAM-ADV', not hit, '%s:needed-length-final' % name)
                if hit:
                    run.violation('R-STREAM-ADV', name, ev['loc'], 'needed-length-grows-after-test',
                                  '%s is increased (%s) after it was compared with what has arrived (%s) and found covered: the unit is taken for complete while the bytes this '
                                  'increase stands for may not have been received -- the result depends on where a read happened to end' %
                                  (short(ev['e']['l']), short(ev['e'])[:40], (hit[0] or '').rsplit('/', 1)[-1]), ctx.path())
            return None
        solve(f, Env(), on_event, None, keys, R, key_fn=lambda e: e.ts.get('tested', ()), on_branch=on_branch)
    run.require_count(n >= 1 or run.fixture_mode or run.cfg != 'base', 'R-STREAM-ADV(needed length): no reader that builds up a needed length and compares it with a progress counter found')


def run_unit_complete(run, P, fname='coap_read_session', buf_field='read_header'):
    """R-STREAM-ADV (the unit that is parsed is the unit that was collected): the TCP reader collects a message header of L bytes into
    session->read_header and hands the buffer with that L to the size parser.  The decision "the header is complete" that directly controls
    that call accounts for every term of L: after replacing locals by what they were computed from (one level), the controlling condition
    mentions every variable that L is made of.  A completeness test that forgets a term (the extended token length bytes) lets the parser
    read bytes of the header that have not arrived yet -- only when a read happens to end exactly there."""
    from core.prog import control_deps
    run.rule('R-STREAM-ADV')
    if not P.has(fname):
        run.require(run.fixture_mode or run.cfg != 'base', 'R-STREAM-ADV(unit complete): anchor %s() not found' % fname)
        return
    f = P.func(fname)
    B = f['B']
    cd = control_deps(f)
    defs = {}
    for b, ev in P.events(f):
        t = ev['e']
        if t.get('k') == 'asg' and t.get('op') == '=' and ap(t['l']):
            defs.setdefault(ap(t['l']), []).append(t['r'])
        for d in t.get('d') or ():
            if d.get('init') is not None:
                defs.setdefault('v%d' % d['id'], []).append(d['init'])

    def vars_of(x):
        return set(ap(y) for y in walk(x) if isinstance(y, dict) and y.get('k') == 'var' and not y.get('g') and ap(y))
    n = 0
    for b in f['blocks']:
        for ev in b['elems']:
            for t in walk(ev['e']):
                if not (isinstance(t, dict) and t.get('k') == 'call' and t.get('fn') and len(t.get('a') or []) >= 3):
                    continue
                A = t['a']
                bi = [i for i, a in enumerate(A) if isinstance(strip(a), dict) and strip(a).get('k') == 'mem' and strip(a).get('f') == buf_field]
                if not bi or bi[0] + 1 >= len(A):
                    continue
                L = A[bi[0] + 1]
                lv = vars_of(L)
                if not lv:
                    continue
                ctrl = [bb for (bb, idx) in cd.get(b['id'], ())]
                if not ctrl:
                    continue
                n += 1
                cond = B[ctrl[0]]['term']['cond']
                cv = vars_of(cond)
                for v in list(cv):
                    for d in defs.get(v, ()):
                        cv |= vars_of(d)
                missing = sorted(lv - cv)
                names = {}
                for y in walk([L, cond]):
                    if isinstance(y, dict) and y.get('k') == 'var' and ap(y):
                        names[ap(y)] = y.get('n')
                run.instance('R-STREAM-ADV', '%s: %s(%s, %s) under %s' % (fname, t['fn'], buf_field, short(L)[:30], short(cond)[:30]))
                run.oblige('R-STREAM-ADV', not missing, '%s:unit-complete:%s' % (fname, t['fn']))
                if missing:
                    run.violation('R-STREAM-ADV', fname, ev['loc'], 'completeness-test-forgets-term:%s' % ','.join(names.get(m, m) for m in missing),
                                  '%s() is handed %s with the length %s, but the condition that decides the header is complete (%s) does not account for %s: the parser is '
                                  'called while those bytes of the header may not have arrived' %
                                  (t['fn'], buf_field, short(L)[:40], short(cond)[:50], ', '.join(names.get(m, m) for m in missing)), [])
    run.require_count(n >= 1 or run.fixture_mode or run.cfg != 'base', 'R-STREAM-ADV(unit complete): no parser call on %s found in %s()' % (buf_field, fname))


def run_phase_local(run, P):
    """R-STREAM-ADV (phase-local value): a reader that is re-entered until a unit is complete keeps what it learnt in an earlier call in the
    session's record, not in its locals.  Pattern, computed over the functions that read through a layer read slot: a local V with a constant initialiser whose every assignment
    lies under one common branch arm C (the phase in which the header is parsed) and which is stored into a record field there (`X->f = V`:
    the field is the carrier across calls).  Outside C -- in code a later call reaches with the phase already done -- V still holds its
    initialiser; a read of V there (an argument, a right-hand side, a condition) uses the default where the carried field was meant:
    coap_ws_read() unmasking `bytes_size` (0 in every call but the one that parsed the frame header) instead of ws->data_size bytes
    hands up a still-masked payload whenever a frame arrives in more than one piece.  Address-taken locals are not judged."""
    from core.prog import transitive_control_deps, succs
    run.rule('R-STREAM-ADV')
    n = 0
    for f in sorted(P.lib_funcs(), key=lambda f: f['name']):
        inits = {}
        taken = set()
        for b, ev in P.events(f):
            t = ev['e']
            if t.get('k') == 'decl':
                for d in t['d']:
                    if d.get('init') is not None and const_int(d['init']) is not None and not d.get('alen'):
                        inits['v%s' % d['id']] = (d['n'], const_int(d['init']))
            for x in walk(t):
                if isinstance(x, dict) and x.get('k') == 'un' and x.get('op') == '&' and ap(x.get('e')):
                    taken.add(ap(x['e']))
        inits = dict((k, v) for k, v in inits.items() if k not in taken)
        # readers only: functions that pull bytes through a layer read slot and are re-entered until a unit is complete
        if not inits or not any(isinstance(x, dict) and x.get('k') == 'call' and callee_field(x) in READ_FIELDS for b, ev in P.events(f) for x in walk(ev['e'])):
            continue
        asg = collections.defaultdict(list)
        stores = collections.defaultdict(list)
        uses = collections.defaultdict(list)
        compound = set()

        def reads(t):
            return [ap(x) for x in walk(t) if isinstance(x, dict) and x.get('k') == 'var' and ap(x) in inits]
        for b in f['blocks']:
            for ev in b['elems']:
                t = ev['e']
                if not ev.get('top', True):
                    continue
                if t.get('k') == 'asg' and ap(t['l']) in inits:
                    asg[ap(t['l'])].append(b['id'])
                    if t.get('op') != '=':
                        compound.add(ap(t['l']))
                if t.get('k') == 'un' and t.get('op') in ('++', '--', 'post++', 'post--') and ap(t.get('e')) in inits:
                    asg[ap(t['e'])].append(b['id'])
                    compound.add(ap(t['e']))
                if t.get('k') == 'asg' and t.get('op') == '=':
                    l, r = strip(t['l']), strip(t['r'])
                    while isinstance(r, dict) and r.get('k') == 'cast':
                        r = strip(r['e'])
                    if isinstance(l, dict) and l.get('k') == 'mem' and l.get('arrow') and isinstance(r, dict) and r.get('k') == 'var' and ap(r) in inits:
                        stores[ap(r)].append((b['id'], short(l), ap(l.get('b'))))
                part = t['r'] if t.get('k') == 'asg' and t.get('op') == '=' else t
                if t.get('k') == 'call' and (t.get('fn') or '').startswith('coap_log'):
                    continue
                for v in reads(part):
                    uses[v].append((b['id'], ev['loc'], short(t)[:60], b['elems'].index(ev)))
            c = (b.get('term') or {}).get('cond')
            if c is not None:
                for v in reads(c):
                    uses[v].append((b['id'], (b['term'].get('loc') or f['loc']), short(c)[:60], len(b['elems'])))
        for v in sorted(inits):
            if not asg[v] or not stores[v]:
                continue
            common = None
            for bid in asg[v]:
                d = set(transitive_control_deps(f, bid))
                common = d if common is None else common & d
            if not common or v in compound:
                continue
            # the phase test: a branch all assignments depend on whose condition reads a field of the record the value is stored into
            bases = set(sb_ for _b, _s, sb_ in stores[v])
            phase = [c_ for (c_, _i) in common if any(isinstance(x, dict) and x.get('k') == 'mem' and x.get('arrow') and ap(x.get('b')) in bases
                                                      for x in walk((f['B'][c_].get('term') or {}).get('cond') or {}))]
            if not phase:
                continue
            # blocks reachable from the entry without passing an assignment to V: there V may still hold its initialiser
            first_asg = {}
            for b in f['blocks']:
                for i_, ev in enumerate(b['elems']):
                    t = ev['e']
                    if ev.get('top', True) and ((t.get('k') == 'asg' and ap(t['l']) == v) or
                                                (t.get('k') == 'un' and t.get('op') in ('++', '--', 'post++', 'post--') and ap(t.get('e')) == v)):
                        first_asg.setdefault(b['id'], i_)
            reach = set()
            work = [f['entry']]
            while work:
                x = work.pop()
                if x in reach:
                    continue
                reach.add(x)
                if x in first_asg:
                    continue                     # the paths through this block leave it with V assigned
                work.extend(succs(f['B'][x]))
            n += 1
            field = [s_ for sb, s_, _x in stores[v]][0]
            run.instance('R-STREAM-ADV', '%s: local %s is only read where it was assigned in this call (carried across calls by %s)' % (f['name'], inits[v][0], field))
            seen = set()
            for ub, loc, txt, idx in uses[v]:
                ok = ub not in reach or (ub in first_asg and idx > first_asg[ub])
                run.oblige('R-STREAM-ADV', ok, '%s:%s:phase-local-read-in-phase' % (f['name'], inits[v][0]))
                if not ok and loc not in seen:
                    seen.add(loc)
                    run.violation('R-STREAM-ADV', f['name'], loc, 'phase-local-read-outside-phase:%s' % inits[v][0],
                                  '`%s` reads the local %s on a path that has not assigned it in this call: a call that enters with that phase already done finds the '
                                  'initialiser %d there, the value learnt in the earlier call lives in %s' % (txt, inits[v][0], inits[v][1], field), [])
    run.require_count(n >= 1 or run.fixture_mode or run.cfg != 'base', 'R-STREAM-ADV(phase-local): no local that is assigned in one phase and stored into a record field found (expected coap_ws_read: bytes_size)')


def run_empty_unit(run, P, fname='coap_read_session', unit_field='partial_pdu', dispatch='coap_dispatch'):
    """R-STREAM-ADV (a unit with nothing left to wait for is delivered now): the stream reader creates the message object when the header is
    in and stores the number of bytes still to come (`X->partial_pdu->used_size = size`).  When that number is 0 -- a header-only message:
    an option-less CSM, Ping, Pong, Release -- the message is complete with the byte just read, and no later byte is owed by the peer.  So
    on no path does the function return with the unit still pending: from the store, taken with size == 0 (the analysis splits the path
    there), every path to a return passes the dispatch call or the assignment that clears the unit.  Completing it "when the next byte
    arrives" makes delivery depend on where the stream was cut: a Ping sent alone is never answered."""
    run.rule('R-STREAM-ADV')
    if not P.has(fname):
        run.require_count(run.fixture_mode or run.cfg != 'base', 'R-STREAM-ADV(empty unit): anchor %s() not found' % fname)
        return
    f = P.func(fname)
    stores = []
    for b, ev in P.events(f):
        t = ev['e']
        if t.get('k') == 'asg' and t.get('op') == '=' and ev.get('top', True):
            l = strip(t['l'])
            r = strip(t['r'])
            if isinstance(l, dict) and l.get('k') == 'mem' and l.get('f') == 'used_size' and isinstance(strip(l.get('b')), dict) and strip(l['b']).get('f') == unit_field \
               and isinstance(r, dict) and r.get('k') == 'var' and ap(r):
                stores.append((ev, ap(r)))
    if not stores:
        run.require_count(run.fixture_mode or run.cfg != 'base', 'R-STREAM-ADV(empty unit): no store of the remaining size into %s->used_size found in %s()' % (unit_field, fname))
        return
    sizes = set(s_[1] for s_ in stores)

    def clears(t):
        if t.get('k') == 'asg' and t.get('op') == '=':
            l = strip(t['l'])
            return isinstance(l, dict) and l.get('k') == 'mem' and l.get('f') == unit_field
        if t.get('k') == 'call' and t.get('fn') == dispatch:
            return any(isinstance(strip(a), dict) and strip(a).get('k') == 'mem' and strip(a).get('f') == unit_field for a in t.get('a') or ())
        return False

    def is_rule_event(ev):
        return any(ev is s_[0] for s_ in stores) or (ev.get('top', True) and clears(ev['e']))
    keys, R = relevance(f, is_rule_event, sizes)
    R = set(R) | sizes
    rep = set()

    def on_event(ev, env, ctx):
        t = ev['e']
        for sev, sz in stores:
            if ev is sev:
                lo, hi, ex = env.intf(sz)
                out = []
                if lo <= 0 <= hi and 0 not in ex:
                    e0 = apply_generic(ev, env, R).copy()
                    e0.set_int(sz, (0, 0, frozenset()))
                    e0.ts['pend0'] = ev['loc']
                    out.append(e0)
                if hi >= 1:
                    e1 = apply_generic(ev, env, R).copy()
                    e1.set_int(sz, (max(lo, 1), hi, frozenset(x for x in ex if x >= 1)))
                    e1.ts['pend0'] = None
                    out.append(e1)
                return out or None
        if env.ts.get('pend0') and ev.get('top', True) and clears(t):
            e = apply_generic(ev, env, R).copy()
            e.ts['pend0'] = None
            return [e]
        return None

    def on_exit(env, ctx):
        ok = not env.ts.get('pend0')
        run.oblige('R-STREAM-ADV', ok, '%s:empty-unit-delivered-at-once' % fname)
        if not ok and env.ts['pend0'] not in rep:
            rep.add(env.ts['pend0'])
            run.violation('R-STREAM-ADV', fname, env.ts['pend0'], 'complete-unit-left-pending',
                          'the message object is created here with 0 bytes still to come, and the function can return without having dispatched it: a header-only message '
                          '(Ping, Pong, option-less CSM) is delivered only when the peer happens to send another byte', ctx.path())
    run.instance('R-STREAM-ADV', '%s: a unit created with nothing left to read is dispatched before the function returns' % fname)
    solve(f, Env(), on_event, on_exit, keys, R, key_fn=lambda e: (e.ts.get('pend0'), tuple(e.intf(s_)[:2] for s_ in sorted(sizes))))


def run_buffer_param(run, P):
    """R-STREAM-CAP (the caller's buffer): a layer read function is handed a buffer and its capacity (`uint8_t *data, size_t datalen`) and
    passes part of the buffer down to the next layer's read slot.  The size it asks the lower layer for is bounded by the capacity on
    EVERY path of THIS call: the size expression is built from the capacity parameter, or a variable / field occurring in it has been
    compared with the capacity parameter on the path (and the call sits on the arm that is not "bigger than").  State kept in the session
    from an earlier call -- the declared size of a frame whose header an earlier call parsed -- was checked against THAT call's buffer:
    a re-entered call with a smaller buffer (coap_ws_close() drains with 100 bytes) that skips the header phase reads the declared
    size into whatever it was given."""
    run.rule('R-STREAM-CAP')
    n = 0
    for f in sorted(P.lib_funcs(), key=lambda f: f['name']):
        ps = f.get('params') or ()
        pairs = []
        for i in range(len(ps) - 1):
            a, b_ = ps[i], ps[i + 1]
            if a.get('p') and (a.get('pt') or '').replace('const ', '') in ('unsigned char', 'uint8_t', 'char', 'void') and not a.get('pc') and \
               not b_.get('p') and (b_.get('t') or '') in ('size_t', 'unsigned long', 'unsigned int', 'int', 'ssize_t'):
                pairs.append(('v%s' % a['id'], 'v%s' % b_['id'], a['n'], b_['n']))
        if not pairs:
            continue
        sites = []
        for b, ev in P.events(f):
            t = ev['e']
            if t.get('k') == 'call' and callee_field(t) in READ_FIELDS and len(t.get('a') or ()) >= 3:
                dst, size = t['a'][-2], t['a'][-1]
                for bufp, capp, bn, cn in pairs:
                    if any(isinstance(x, dict) and x.get('k') == 'var' and ap(x) == bufp for x in walk(dst)):
                        sites.append((ev, size, capp, bn, cn))
        if not sites:
            continue
        name = f['name']
        caps = set(s_[2] for s_ in sites)
        sizevars = set()
        for ev, size, capp, bn, cn in sites:
            for x in walk(size):
                if isinstance(x, dict) and x.get('k') in ('var', 'mem') and ap(x):
                    sizevars.add(ap(x))

        def is_rule_event(ev):
            return any(ev is s_[0] for s_ in sites)
        keys, R = relevance(f, is_rule_event, sizevars | caps)
        keys = set(b['id'] for b in f['blocks'])
        R = set(R) | sizevars | caps
        rep = set()

        def on_branch(b, s, env, ctx):
            c = strip((b.get('term') or {}).get('cond'))
            if not (isinstance(c, dict) and c.get('k') == 'bin' and c.get('op') in ('<', '>', '<=', '>=') and len(b['succ']) == 2):
                return env
            truth = s == b['succ'][0]
            lv = set(ap(x) for x in walk(c['l']) if isinstance(x, dict) and x.get('k') in ('var', 'mem') and ap(x))
            rv = set(ap(x) for x in walk(c['r']) if isinstance(x, dict) and x.get('k') in ('var', 'mem') and ap(x))
            for capp in caps:
                if capp in rv and lv - {capp}:          # V op cap
                    small = (c['op'] in ('<', '<=') and truth) or (c['op'] in ('>', '>=') and not truth)
                    vs = lv
                elif capp in lv and rv - {capp}:        # cap op V
                    small = (c['op'] in ('>', '>=') and truth) or (c['op'] in ('<', '<=') and not truth)
                    vs = rv
                else:
                    continue
                if small:
                    e = env.copy()
                    e.ts['le'] = frozenset(env.ts.get('le', frozenset()) | {(v, capp) for v in vs})
                    return e
            return env

        def on_event(ev, env, ctx):
            t = ev['e']
            for sev, size, capp, bn, cn in sites:
                if ev is sev:
                    vs = set(ap(x) for x in walk(size) if isinstance(x, dict) and x.get('k') in ('var', 'mem') and ap(x))
                    ok = capp in vs or any((v, capp) in env.ts.get('le', ()) for v in vs) or const_int(size) is not None
                    run.oblige('R-STREAM-CAP', ok, '%s:read-size-within-callers-buffer' % name)
                    if not ok and ev['loc'] not in rep:
                        rep.add(ev['loc'])
                        run.violation('R-STREAM-CAP', name, ev['loc'], 'read-into-callers-buffer-unbounded-by-its-capacity',
                                      '%s() reads `%s` bytes into the buffer it was handed (%s) on a path of this call that has not compared that size with the capacity %s: '
                                      'the size comes from state an earlier call left in the session, checked against that call\'s buffer, not this one'
                                      % (name, short(size)[:50], bn, cn), ctx.path())
            # an assignment to a size variable forgets what was known about it
            if t.get('k') == 'asg' and ap(t['l']) and any(v == ap(t['l']) for v, _c in env.ts.get('le', ())):
                e = apply_generic(ev, env, R).copy()
                e.ts['le'] = frozenset(x for x in env.ts['le'] if x[0] != ap(t['l']))
                return [e]
            return None
        for s_ in sites:
            n += 1
            run.instance('R-STREAM-CAP', '%s: the size read into the caller\'s buffer %s is bounded by %s on every path of the call' % (name, s_[3], s_[4]))
        solve(f, Env(), on_event, None, keys, R, key_fn=lambda e: e.ts.get('le'), on_branch=on_branch)
    run.require_count(n >= 1 or run.fixture_mode or run.cfg != 'base', 'R-STREAM-CAP(caller\'s buffer): no read slot call into a (buffer, capacity) parameter pair found (expected coap_ws_read)')


def run_buffered_examined(run, P, units=('coap_ws.c', 'coap_net.c', 'coap_tcp.c')):
    """R-STREAM-ADV (buffered bytes are examined): a reader that appends at `B + C` (C a progress counter) and that, before issuing the read,
    branches on `C == 0` with the non-zero arm going on to the read, states a belief: bytes that nobody has looked at yet may already be
    buffered when the read is issued (the WebSocket frame reader is entered with what the HTTP handshake phase read beyond the header).
    After the read, a return on a path that knows the read transferred nothing (result <= 0 with 0 possible) must lie behind a condition that
    examined C since the read, or know C == 0: otherwise a complete unit sitting in the buffer is only noticed when the NEXT bytes arrive -
    delivery then depends on where the stream was cut.  A return for a negative result (error) carries no obligation."""
    from core.prog import callee_field, dominators
    run.rule('R-STREAM-ADV')
    n = 0
    for f in sorted(P.lib_funcs(), key=lambda f: f['name']):
        if f['unit'] not in units:
            continue
        name = f['name']
        reads = []
        for b, ev in P.events(f):
            t = ev['e']
            call, res = None, None
            if t.get('k') == 'asg' and t.get('op') == '=' and isinstance(strip(t['r']), dict) and strip(t['r']).get('k') == 'call':
                call, res = strip(t['r']), ap(t['l'])
            if call is None or callee_field(call) not in READ_FIELDS or not res or len(call.get('a') or ()) < 3:
                continue
            cs = [ap(x) for x in walk(call['a'][-2]) if isinstance(x, dict) and x.get('k') == 'mem' and x.get('f') in COUNTERS and ap(x)]
            if cs:
                reads.append((ev, b['id'], res, cs[0]))
        if not reads:
            continue
        B = f['B']

        def reach(frm):
            seen, work = set(), list(succs(B[frm]))
            while work:
                i = work.pop()
                if i in seen:
                    continue
                seen.add(i)
                if not B[i].get('noret'):
                    work.extend(succs(B[i]))
            return seen
        for rev, rb, res, C in reads:
            # belief: an equality test of C against 0 from which the read is reachable
            belief = False
            for b in f['blocks']:
                c = strip((b.get('term') or {}).get('cond'))
                if not isinstance(c, dict) or len(succs(b)) < 2:
                    continue
                z = None
                if c.get('k') == 'bin' and c.get('op') in ('==', '!=') and ((ap(c['l']) == C and const_int(c['r']) == 0) or (ap(c['r']) == C and const_int(c['l']) == 0)):
                    z = True
                elif c.get('k') == 'un' and c.get('op') == '!' and ap(c['e']) == C:
                    z = True
                elif ap(c) == C:
                    z = True
                if z and (rb in reach(b['id'])) and b['id'] != rb:
                    belief = True
            if not belief:
                run.stats['stream_reads_without_buffered_belief'] += 1
                continue
            n += 1
            run.instance('R-STREAM-ADV', '%s: bytes buffered at %s are examined after an empty read' % (name, C.split('->')[-1]))
            rep = set()

            def on_event(ev, env, ctx):
                if ev is rev:
                    e = apply_generic(ev, env, None).copy()
                    e.ts['rd'] = 1
                    e.ts.pop('seen', None)
                    return [e]
                t = ev['e']
                if env.ts.get('rd') and not env.ts.get('seen') and t.get('k') == 'ret':
                    lo, hi, ex = env.intf(res)
                    zero_only = hi == 0 and lo <= 0 and 0 not in ex
                    c0 = env.intf(C)
                    known0 = c0[0] == 0 and c0[1] == 0
                    if zero_only:
                        ok = known0
                        run.oblige('R-STREAM-ADV', ok, '%s:%s:buffered-examined' % (name, C.split('->')[-1]))
                        if not ok and ev['loc'] not in rep:
                            rep.add(ev['loc'])
                            run.violation('R-STREAM-ADV', name, ev['loc'], 'buffered-not-examined:%s' % C.split('->')[-1],
                                          'the function returns because the read transferred nothing (result <= 0, 0 possible) without having looked at %s since the read, although it '
                                          'was entered believing bytes may already be buffered there (it tests %s == 0 before the read): a complete unit in the buffer stays '
                                          'undelivered until more bytes arrive' % (C.split('->')[-1], C.split('->')[-1]), ctx.path())
                return None

            def on_branch(b, s, env, ctx):
                if env.ts.get('rd') and not env.ts.get('seen'):
                    c = (b.get('term') or {}).get('cond')
                    if c is not None and any(isinstance(x, dict) and x.get('k') == 'mem' and ap(x) == C for x in walk(c)):
                        e = env.copy()
                        e.ts['seen'] = 1
                        return e
                return env
            solve(f, Env(), on_event, None, None, None, key_fn=lambda e: (e.ts.get('rd'), e.ts.get('seen'), e.intf(res)[:2], e.intf(C)[:2]), on_branch=on_branch, max_envs=512)
    run.require_count(n >= 1 or run.fixture_mode or run.cfg != 'base', 'R-STREAM-ADV (buffered bytes are examined): no reader with a buffered-bytes belief found (expected coap_ws_read)')
