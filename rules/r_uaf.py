"""R-USE-AFTER-DESTROY (C18): a local pointer is not used after it was handed to a destructor.

  destructors : computed.  (g, i) such that on EVERY path of g from entry to return on which parameter i is not known NULL, the
                parameter itself is handed to the raw deallocator (coap_free_type / free) or to another destructor (fixed point).
                Reference-count releases and conditional frees are therefore not destructors.
  typestate   : after a call g(.., L, ..) with (g, i) a destructor the plain local L is 'destroyed' until it is assigned again;
                a NULL test of L is not a use, but dereferencing it, passing it to any function or returning it is.
The block-wise code keeps a `coap_lg_xmit_t *lg_xmit` local that the common `fail:` label releases when non-NULL: forgetting to
clear it after an explicit delete releases the transfer (and calls the application's release callback) twice -- only on the
allocation-failure paths that jump to the label."""
import collections
from core.prog import strip, walk, ap, short, is_null_const
from core.psts import Env, solve, relevance, apply_generic, Budget

RAW = {'coap_free_type': 1, 'free': 0, 'coap_free': 0}


def destructors(P):
    D = set((fn, i) for fn, i in RAW.items())
    F = dict((f['name'], f) for f in P.lib_funcs())
    cand = []
    for f in F.values():
        for i, p in enumerate(f['params']):
            if p.get('p') and not p.get('pc'):
                cand.append((f['name'], i))
    changed = True
    rounds = 0
    while changed and rounds < 4:
        changed = False
        rounds += 1
        for (fn, i) in cand:
            if (fn, i) in D:
                continue
            f = F[fn]
            pv = 'v%d' % f['params'][i]['id']
            calls = [ev for b, ev in P.events(f) if ev['e'].get('k') == 'call' and any((ev['e'].get('fn'), j) in D and ap(a) == pv for j, a in enumerate(ev['e'].get('a', [])))]
            if not calls:
                continue
            ok = {'all': True, 'any': False}

            def on_event(ev, env, ctx, calls=calls, pv=pv):
                t = ev['e']
                if any(ev is c for c in calls):
                    e = env.copy()
                    e.ts['d'] = 1
                    return [apply_generic(ev, e, {pv})]
                if t.get('k') == 'asg' and ap(t['l']) == pv:
                    e = env.copy()
                    e.ts['d'] = 2          # parameter re-pointed: give up
                    return [apply_generic(ev, e, {pv})]
                return None

            def on_exit(env, ctx, ok=ok, pv=pv):
                if env.ts.get('d') == 1:
                    ok['any'] = True
                elif env.nullf(pv) != 'Z':
                    ok['all'] = False
            try:
                keys, R = relevance(f, lambda ev: any(ev is c for c in calls), {pv})
                solve(f, Env({'d': 0}), on_event, on_exit, keys, set(R) | {pv}, key_fn=lambda e: (e.ts.get('d'), e.nullf(pv)), max_envs=128, max_steps=50000)
            except Budget:
                continue
            if ok['all'] and ok['any']:
                D.add((fn, i))
                changed = True
    return D


def run(run, P, only=None):
    run.rule('R-USE-AFTER-DESTROY')
    D = destructors(P)
    lib = set(fn for fn, i in D if P.has(fn))
    run.notes.append('destructors (computed, library): ' + ', '.join(sorted('%s#%d' % x for x in D if P.has(x[0]))))
    n = 0
    for f in sorted(P.lib_funcs(), key=lambda f: f['name']):
        if only and f['name'] not in only:
            continue
        name = f['name']
        sites = []
        for b, ev in P.events(f):
            t = ev['e']
            if t.get('k') == 'call':
                for j, a in enumerate(t.get('a', [])):
                    l = ap(a)
                    if (t.get('fn'), j) in D and l and '.' not in l and '>' not in l and not l.startswith('&'):
                        sites.append((ev, l))
                # hand-over with a release callback: g(.., release_func, app_ptr) owns app_ptr from the call on, whether it succeeds or not
                # (R-RELEASE-ONCE proves that g calls the callback exactly once on every path, the failing ones included)
                g = P.funcs.get(t.get('fn')) if t.get('fn') else None
                if g:
                    pn = [p['n'] for p in g.get('params') or ()]
                    if 'release_func' in pn and pn.index('release_func') + 1 < len(t.get('a', [])):
                        r_ = pn.index('release_func')
                        from core.prog import is_null_const as _isnull
                        l = ap(t['a'][r_ + 1])
                        if not _isnull(t['a'][r_]) and l and '.' not in l and '>' not in l and not l.startswith('&'):
                            sites.append((ev, l))
        if not sites:
            continue
        locs = set(l for _e, l in sites)
        # parameters of this function that it destroys itself are its contract, not judged as locals
        pvars = set('v%d' % p['id'] for p in f['params'])
        n += len(sites)

        def is_rule_event(ev):
            t = ev['e']
            if any(ev is s[0] for s in sites):
                return True
            for x in walk(t):
                if isinstance(x, dict) and x.get('k') == 'var' and ap(x) in locs:
                    return True
            return False
        keys, R = relevance(f, is_rule_event, locs)
        R = set(R) | locs

        def on_event(ev, env, ctx):
            t = ev['e']
            st = set(env.ts.get('dead', ()))
            forced = False
            if not ev.get('top') and t.get('k') not in ('call', 'ret', 'decl', 'asg'):
                return None
            if t.get('k') == 'asg' and not ev.get('top'):
                # an assignment buried in a comma expression / loop header (HASH_ITER): only its re-definition effect counts
                if t.get('op') == '=' and ap(t['l']) in st:
                    st2 = set(st)
                    st2.discard(ap(t['l']))
                    e = apply_generic(ev, env, R).copy()
                    e.ts['dead'] = tuple(sorted(st2))
                    return [e]
                return None
            if t.get('k') == 'call' and st:
                # &L handed to a callee (out-parameter): the callee re-points it
                hit = [ap(strip(a)['e']) for a in t.get('a', []) if isinstance(strip(a), dict) and strip(a).get('k') == 'un' and strip(a).get('op') == '&' and ap(strip(a).get('e')) in st]
                if hit:
                    st = set(st) - set(hit)
                    env = env.copy()
                    env.ts['dead'] = tuple(sorted(st))
                    forced = True
            # uses of dead locals
            if st:
                used = None
                if t.get('k') == 'call':
                    for a in t.get('a', []):
                        if ap(a) in st:
                            used = (ap(a), 'handed to %s()' % (t.get('fn') or 'a callee'))
                elif t.get('k') == 'ret' and 'e' in t and ap(t['e']) in st:
                    used = (ap(t['e']), 'returned')
                else:
                    for x in walk(t):
                        if isinstance(x, dict) and x.get('k') == 'mem' and x.get('arrow') and ap(x.get('b')) in st:
                            used = (ap(x['b']), 'dereferenced')
                        if isinstance(x, dict) and x.get('k') == 'un' and x.get('op') == '*' and ap(x.get('e')) in st:
                            used = (ap(x['e']), 'dereferenced')
                if used and env.nullf(used[0]) != 'Z':
                    run.oblige('R-USE-AFTER-DESTROY', False, '%s:%s' % (name, used[0]))
                    run.violation('R-USE-AFTER-DESTROY', name, ev['loc'], 'use-after-destroy',
                                  'the local pointer was handed to a destructor (%s) and is %s here without having been assigned again: use after free / the object is released twice' %
                                  (dict(env.ts.get('by', ())).get(used[0], '?'), used[1]), ctx.path())
                    st.discard(used[0])
            ch = False
            for sev, l in sites:
                if ev is sev and env.nullf(l) != 'Z':
                    st.add(l)
                    by = dict(env.ts.get('by', ()))
                    by[l] = '%s() at line %s' % (t.get('fn'), ev['loc'].rsplit(':', 1)[-1])
                    env = env.copy()
                    env.ts['by'] = tuple(sorted(by.items()))
                    ch = True
            if t.get('k') == 'asg' and t.get('op') == '=' and ap(t['l']) in locs and ap(t['l']) in st:
                st.discard(ap(t['l']))
                ch = True
            if t.get('k') == 'decl':
                for d in t['d']:
                    if 'v%d' % d['id'] in st:
                        st.discard('v%d' % d['id'])
                        ch = True
            if ch or forced or st != set(env.ts.get('dead', ())):
                e = apply_generic(ev, env, R).copy()
                e.ts['dead'] = tuple(sorted(st))
                return [e]
            return None
        try:
            solve(f, Env({'dead': ()}), on_event, None, keys, R, key_fn=lambda e: (e.ts.get('dead'), tuple(e.nullf(l) for l in sorted(locs))), max_envs=512)
        except Budget:
            run.notes.append('R-USE-AFTER-DESTROY: budget exceeded in %s (not judged)' % name)
            continue
        run.oblige('R-USE-AFTER-DESTROY', True, '%s:analysed' % name)
    run.instance('R-USE-AFTER-DESTROY', 'destructor call sites on plain locals: %d' % n, n=1 if n else 0)
    run.stats['uaf_destructors'] = len([1 for x in D if P.has(x[0])])
    run.require_count(n >= 50 or run.fixture_mode, 'R-USE-AFTER-DESTROY: only %d destructor calls on plain locals found' % n)
    return D
