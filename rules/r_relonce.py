"""R-RELEASE-ONCE (C09): the sender's release callback runs exactly once.

For every library function with a parameter `release_func` (function pointer): on every path on which
release_func is not known NULL the callback is either called exactly once, or handed to a callee that takes the
same obligation (a function of this set), or stored into an lg_xmit that is then linked into session->lg_xmit
(LL_PREPEND) or passed to coap_block_delete_lg_xmit().  coap_block_delete_lg_xmit() itself calls
lg_xmit->release_func exactly once on every path where it is non-NULL."""
from core.prog import strip, walk, ap, key, short, const_int, callee_field
from core.psts import Env, solve, relevance, apply_generic

PARAM = 'release_func'
DELETER = 'coap_block_delete_lg_xmit'


def run(run, P):
    run.rule('R-RELEASE-ONCE')
    funcs = {}
    for f in P.lib_funcs():
        for i, p in enumerate(f['params']):
            if p['n'] == PARAM and p.get('pf'):
                funcs[f['name']] = i
    run.require(len(funcs) >= 3 or run.fixture_mode, 'R-RELEASE-ONCE: only %d functions with a release_func parameter' % len(funcs))
    for name, pi in sorted(funcs.items()):
        f = P.func(name)
        rf = 'v%d' % f['params'][pi]['id']
        rq = None
        for p_ in f['params']:
            if p_['n'] == 'request' and p_.get('p'):
                rq = 'v%d' % p_['id']
        run.instance('R-RELEASE-ONCE', '%s(.., release_func, ..)' % name)

        def is_call_of(t):
            return t.get('k') == 'call' and not t.get('fn') and callee_field(t) == 'var:' + PARAM

        def hands_over(t):
            if t.get('k') == 'call' and t.get('fn') in funcs:
                j = funcs[t['fn']]
                return j < len(t['a']) and ap(t['a'][j]) == rf
            return False

        def is_rule_event(ev):
            t = ev['e']
            if is_call_of(t) or hands_over(t) or t.get('k') == 'ret':
                return True
            if t.get('k') == 'call' and t.get('fn') == 'coap_lock_lock_func':
                return True
            if t.get('k') == 'asg' and ap(t['r']) == rf:
                return True
            if t.get('k') == 'call' and t.get('fn') == DELETER:
                return True
            return any(m.startswith('LL_PREPEND') or m.startswith('LL_APPEND') for m in (ev.get('mac') or ()))
        keys, R = relevance(f, is_rule_event, {rf} | ({rq} if rq else set()))
        R = R | {rf} | ({rq} if rq else set())

        def on_event(ev, env, ctx):
            t = ev['e']
            st = env.ts.get('rel', 'pending')
            if t.get('k') == 'call' and t.get('fn') == 'coap_lock_lock_func':
                # stated assumption: paths on which taking the global lock fails carry no obligations
                e = env.copy()
                e.ret[key(t)] = ('nz', 0)
                return [e]
            if is_call_of(t):
                ok = st == 'pending'
                run.oblige('R-RELEASE-ONCE', ok, '%s:call-once' % name)
                if not ok:
                    run.violation('R-RELEASE-ONCE', name, ev['loc'], 'released-twice:%s' % st,
                                  'release_func() is called on a path where the application data was already %s: the application frees its buffer twice'
                                  % {'called': 'released', 'handed': 'handed to a callee that releases it', 'stored': 'stored into the lg_xmit (which releases it when it is deleted)',
                                     'done': 'handed to the lg_xmit machinery'}.get(st, st), ctx.path())
                e = env.copy()
                e.ts['rel'] = 'called'
                return [apply_generic(ev, e, R)]
            if hands_over(t):
                ok = st == 'pending'
                run.oblige('R-RELEASE-ONCE', ok, '%s:hand-over-once' % name)
                if not ok:
                    run.violation('R-RELEASE-ONCE', name, ev['loc'], 'handed-after:%s' % st,
                                  'release_func is handed to %s() although it was already %s on this path' % (t['fn'], st), ctx.path())
                e = env.copy()
                e.ts['rel'] = 'handed'
                return [apply_generic(ev, e, R)]
            if t.get('k') == 'asg' and t.get('op') == '=' and ap(t['r']) == rf:
                l = strip(t['l'])
                if isinstance(l, dict) and l.get('k') == 'mem':
                    e = apply_generic(ev, env, R).copy()
                    if st == 'pending':
                        e.ts['rel'] = 'stored'
                        e.ts['holder'] = ap(l['b'])
                    return [e]
                return None
            if st == 'stored':
                linked = False
                if t.get('k') == 'call' and t.get('fn') == DELETER and len(t['a']) > 1 and ap(t['a'][1]) == env.ts.get('holder'):
                    linked = True
                if t.get('k') == 'asg' and any(m.startswith('LL_PREPEND') or m.startswith('LL_APPEND') for m in (ev.get('mac') or ())) and ap(t['r']) == env.ts.get('holder'):
                    linked = True
                if linked:
                    e = env.copy()
                    e.ts['rel'] = 'done'
                    return [apply_generic(ev, e, R)]
            if t.get('k') == 'ret':
                if env.nullf(rf) == 'Z':
                    return None
                ok = st in ('called', 'handed', 'done')
                run.oblige('R-RELEASE-ONCE', ok, '%s:exit:%s' % (name, st))
                if not ok:
                    run.violation('R-RELEASE-ONCE', name, ev['loc'], 'exit-%s%s' % (st, (':request=%s' % (env.nullf(rq) or '?')) if rq else ''),
                                  'the function returns on a path where a non-NULL release_func was %s: the application buffer is never released'
                                  % ('neither called nor handed on' if st == 'pending' else 'stored into an lg_xmit that was neither linked into session->lg_xmit nor deleted'), ctx.path())
            return None

        def key_fn(e):
            return (e.ts.get('rel', 'pending'), e.ts.get('holder'), e.nullf(rf), e.nullf(rq) if rq else None)
        ctx = solve(f, Env(), on_event, None, keys, R, key_fn=key_fn)
        run.stats['relonce_solver_steps'] += ctx.steps
    # the deleter
    if P.has(DELETER):
        f = P.func(DELETER)
        n = [0]

        def fld_call(t):
            return t.get('k') == 'call' and not t.get('fn') and callee_field(t) == PARAM

        def on_event(ev, env, ctx):
            t = ev['e']
            if fld_call(t):
                n[0] += 1
                c = env.ts.get('n', 0)
                ok = c == 0
                run.oblige('R-RELEASE-ONCE', ok, '%s:once' % DELETER)
                if not ok:
                    run.violation('R-RELEASE-ONCE', DELETER, ev['loc'], 'deleter-twice', 'lg_xmit->release_func is called twice on one path', ctx.path())
                e = env.copy()
                e.ts['n'] = min(2, c + 1)
                return [apply_generic(ev, e, None)]
            if t.get('k') == 'ret' or (t.get('k') == 'call' and t.get('fn') == 'coap_free_type'):
                fa = None
                for a, v in env.null.items():
                    if a.endswith('->' + PARAM):
                        fa = v
                if env.ts.get('n', 0) == 0 and fa != 'Z' and t.get('k') == 'call':
                    run.oblige('R-RELEASE-ONCE', False, '%s:called-before-free' % DELETER)
                    run.violation('R-RELEASE-ONCE', DELETER, ev['loc'], 'deleter-never', 'the lg_xmit is freed on a path where a non-NULL release_func was not called', ctx.path())
            return None
        solve(f, Env(), on_event, None, None, None, key_fn=lambda e: (e.ts.get('n', 0), tuple(sorted((a, v) for a, v in e.null.items() if a.endswith('->' + PARAM)))))
        run.instance('R-RELEASE-ONCE', '%s: %d call visit(s) of lg_xmit->release_func' % (DELETER, n[0]))
        if n[0] == 0:
            run.oblige('R-RELEASE-ONCE', False, '%s:calls' % DELETER)
            run.violation('R-RELEASE-ONCE', DELETER, f['loc'], 'deleter-no-call', '%s() no longer calls lg_xmit->release_func' % DELETER)
    elif not run.fixture_mode:
        run.require(False, 'anchor function %s() not found' % DELETER)
