"""R-RESTART-STATE (C10): a scan that starts over starts over completely.  Where a function re-initialises, inside a loop, the iterator that
loop runs on (coap_option_iterator_init(.., &it, ..) both before the loop and in its body -- "unfortunately need to restart the scan"),
every loop-carried local -- declared with a constant initialiser before the loop, assigned in the body, read in a comparison in the
body -- is set back to its initial value before the loop condition is evaluated again.  The repeated-option check of
coap_option_check_critical() carries the number of the previous option in `last_number`; restarting the scan without resetting it
compares the first option of the second pass with the last option of the first: a request with no repeated option is refused with
4.02 and never reaches its handler."""
import collections
from core.prog import strip, walk, ap, short, const_int
from core.psts import Env, solve, relevance, apply_generic
from rules.r_sizefill import natural_loops


def _init_call(t):
    """access path of the iterator a call (re)initialises"""
    if t.get('k') == 'call' and 'iterator_init' in (t.get('fn') or ''):
        for a in t.get('a') or ():
            a0 = strip(a)
            if isinstance(a0, dict) and a0.get('k') == 'un' and a0.get('op') == '&' and ap(a0.get('e')):
                return ap(a0['e'])
    return None


def run(run, P):
    run.rule('R-RESTART-STATE')
    n = 0
    for f in sorted(P.lib_funcs(), key=lambda f: f['name']):
        inits = [(b, ev, _init_call(ev['e'])) for b, ev in P.events(f) if ev.get('top', True) and _init_call(ev['e'])]
        if len(inits) < 2:
            continue
        loops = natural_loops(f)
        B = f['B']
        for h, body in sorted(loops.items()):
            c = (B[h].get('term') or {}).get('cond')
            if c is None:
                continue
            its = set()
            for x in walk(c):
                if isinstance(x, dict) and x.get('k') == 'call':
                    for a in x.get('a') or ():
                        a0 = strip(a)
                        if isinstance(a0, dict) and a0.get('k') == 'un' and a0.get('op') == '&' and ap(a0.get('e')):
                            its.add(ap(a0['e']))
            inner = [(b, ev, it) for b, ev, it in inits if it in its and b['id'] in body]
            outer = [(b, ev, it) for b, ev, it in inits if it in its and b['id'] not in body]
            if not inner or not outer:
                continue
            # loop-carried locals
            decl = {}
            for b, ev in P.events(f):
                t = ev['e']
                if t.get('k') == 'decl' and b['id'] not in body:
                    for d in t['d']:
                        if d.get('init') is not None and const_int(d['init']) is not None:
                            decl['v%s' % d['id']] = (d['n'], const_int(d['init']))
            assigned, compared = set(), set()
            for bid in body:
                for ev in B[bid]['elems']:
                    t = ev['e']
                    if ev.get('top', True) and t.get('k') == 'asg' and ap(t['l']) in decl and const_int(t['r']) != decl[ap(t['l'])][1]:
                        assigned.add(ap(t['l']))
                cc = (B[bid].get('term') or {}).get('cond')
                if cc is not None:
                    for x in walk(cc):
                        if isinstance(x, dict) and x.get('k') == 'bin' and x.get('op') in ('==', '!=', '<', '>', '<=', '>='):
                            for y in walk(x):
                                if isinstance(y, dict) and y.get('k') == 'var' and ap(y) in decl:
                                    compared.add(ap(y))
            carried = assigned & compared
            if not carried:
                continue
            name = f['name']
            inner_evs = [ev for b, ev, it in inner]

            def is_rule_event(ev):
                t = ev['e']
                return any(ev is x for x in inner_evs) or (t.get('k') == 'asg' and ap(t['l']) in carried)
            keys, R = relevance(f, is_rule_event, carried)
            keys = set(keys) | {h}
            rep = set()

            def on_event(ev, env, ctx):
                t = ev['e']
                if any(ev is x for x in inner_evs):
                    e = apply_generic(ev, env, R).copy()
                    e.ts['at'] = ev['loc']
                    return [e]
                if t.get('k') == 'asg' and ev.get('top', True) and ap(t['l']) in carried:
                    v = ap(t['l'])
                    d = env.ts.get('dirty', frozenset())
                    d2 = d - {v} if (t.get('op') == '=' and const_int(t['r']) == decl[v][1]) else d | {v}
                    if d2 != d:
                        e = apply_generic(ev, env, R).copy()
                        e.ts['dirty'] = d2
                        return [e]
                return None

            def on_branch(b, s, env, ctx):
                if b['id'] != h:
                    return env
                if env.ts.get('at') and env.ts.get('dirty'):
                    for v in sorted(env.ts['dirty']):
                        run.oblige('R-RESTART-STATE', False, '%s:%s:reset-on-restart' % (name, decl[v][0]))
                        if (env.ts['at'], v) not in rep:
                            rep.add((env.ts['at'], v))
                            run.violation('R-RESTART-STATE', name, env.ts['at'], 'restart-keeps:%s' % decl[v][0],
                                          'the scan is restarted here (the iterator is initialised again inside its loop) but the loop-carried local %s still holds what the '
                                          'finished pass left in it (not its initial value %d) when the loop condition runs again: the first element of the new pass is compared '
                                          'with the last one of the old pass' % (decl[v][0], decl[v][1]), ctx.path())
                if env.ts.get('at'):
                    e = env.copy()
                    e.ts['at'] = None
                    return e
                return env
            for v in sorted(carried):
                n += 1
                run.instance('R-RESTART-STATE', '%s: restarting the scan resets %s to %d' % (name, decl[v][0], decl[v][1]))
                run.oblige('R-RESTART-STATE', True, '%s:%s:carried' % (name, decl[v][0]))
            solve(f, Env(), on_event, None, keys, R, key_fn=lambda e: (e.ts.get('dirty'), e.ts.get('at')), on_branch=on_branch)
    run.require_count(n >= 1 or run.fixture_mode or run.cfg != 'base', 'R-RESTART-STATE: no scan that is restarted inside its own loop found (expected coap_option_check_critical)')
