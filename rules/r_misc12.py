"""Clauses added for the twelfth batch of seeded changes (each is wired under its property in props.py; see DESIGN.md section 4)."""
import collections
from core.prog import strip, walk, ap, short, const_int, callee_field, succs, control_deps, transitive_control_deps, is_null_const
from core.psts import Env, solve, relevance, apply_generic, INF
from core.facts import AnalysisBroken


def _reach_blocks(f, frm_block, after_ev=None):
    """(block, events) pairs reachable from an event: the rest of its block, then all successors"""
    B = f['B']
    out = []
    evs = B[frm_block]['elems']
    if after_ev is not None:
        idx = [i for i, e in enumerate(evs) if e is after_ev]
        evs = evs[idx[0] + 1:] if idx else evs
    out.append((frm_block, evs))
    seen, work = set(), list(succs(B[frm_block])) if not B[frm_block].get('noret') else []
    while work:
        i = work.pop()
        if i in seen:
            continue
        seen.add(i)
        out.append((i, B[i]['elems']))
        if not B[i].get('noret'):
            work.extend(succs(B[i]))
    return out


# ---------------------------------------------------------------------------------------------------------------- C06
def run_timeout_drawn(run, P, draw='coap_calc_timeout'):
    """R-RETRANS (T is drawn for datagram Confirmables): the initial retransmission time-out of a queue node is drawn (coap_calc_timeout)
    at more than one place - when a Confirmable is sent at once and when it is parked first.  Every such site lies on a path that knows the
    session's protocol is NOT one of the reliable ones (TCP, TLS, WS, WSS): the sites agree, and a Confirmable parked on a datagram session
    does not come out of the delay queue with time-out 0 (all retransmissions at once, give-up after 0 ms)."""
    run.rule('R-RETRANS')
    rel = [P.const_named(n) for n in ('COAP_PROTO_TCP', 'COAP_PROTO_TLS', 'COAP_PROTO_WS', 'COAP_PROTO_WSS')]
    n = 0
    for f in sorted(P.lib_funcs(), key=lambda f: f['name']):
        # the call event itself (sub-expression events come before the statement that contains them, and before the call's own kill)
        sites = [ev for b, ev in P.events(f) if ev['e'].get('k') == 'call' and ev['e'].get('fn') == draw]
        locs = set()
        sites = [ev for ev in sites if not (ev['loc'] in locs or locs.add(ev['loc']))]
        if not sites or f['name'] == draw:
            continue
        name = f['name']
        seen = set()

        def on_event(ev, env, ctx):
            if not any(ev is s for s in sites) or ev['loc'] in seen:
                return None
            call = ev['e']
            s_ap = ap(call['a'][0]) if call.get('a') else None
            lo, hi, ex = env.intf(s_ap + '->proto') if s_ap else (-INF, INF, frozenset())
            ok = all((v < lo or v > hi or v in ex) for v in rel)
            run.oblige('R-RETRANS', ok, '%s:timeout-drawn-for-datagram' % name)
            if not ok:
                seen.add(ev['loc'])
                run.violation('R-RETRANS', name, ev['loc'], 'timeout-drawn-on-reliable-path',
                              'the retransmission time-out T is drawn here on a path that does not exclude the reliable protocols: the sibling site draws it for datagram '
                              'sessions only, so on one of the two routes a Confirmable over UDP/DTLS is queued with time-out 0 (retransmitted MAX_RETRANSMIT times at once)', ctx.path())
            return None
        for ev in sites:
            n += 1
            run.instance('R-RETRANS', '%s: T drawn at %s' % (name, ev['loc'].rsplit(':', 1)[-1]))
        solve(f, Env(), on_event, None, None, None, key_fn=lambda e: tuple(sorted((k, v[0], v[1], tuple(sorted(v[2]))) for k, v in e.ints.items() if k.endswith('->proto'))), max_envs=512)
    run.require_count(n >= (2 if run.cfg == 'base' else 1) or run.fixture_mode, 'R-RETRANS (T drawn): fewer than 2 sites that draw the retransmission time-out')


# ---------------------------------------------------------------------------------------------------------------- C08
def may_call_out(P, fields):
    """functions whose call closure contains an indirect call through one of the application-callback fields"""
    direct = set()
    for f in P.funcs.values():
        for b, ev in P.events(f):
            for t in walk(ev['e']):
                if isinstance(t, dict) and t.get('k') == 'call' and t.get('fn') is None and callee_field(t) in fields:
                    direct.add(f['name'])
    cg = P.callgraph()
    out = set(direct)
    changed = True
    while changed:
        changed = False
        for n, cs in cg.items():
            if n not in out and cs & out:
                out.add(n)
                changed = True
    return out


def run_no_callout_in_window(run, P, counter='con_active', recount='coap_send_pdu'):
    """R-CNT-CON (k): a function that lowers con_active only to have coap_send_pdu() count the same message again (the retransmission path)
    opens a window in which the session looks one slot freer than it is.  Between that decrement and the call of coap_send_pdu() no
    function is called that can reach an application callback: a Confirmable submitted from the callback would go out as number NSTART+1."""
    from rules.r_lock import APPCB
    run.rule('R-CNT-CON')
    co = may_call_out(P, APPCB)
    n = 0
    for f in sorted(P.lib_funcs(), key=lambda f: f['name']):
        decs = [(b, ev) for b, ev in P.events(f) if ev['e'].get('k') == 'un' and ev['e'].get('op') == '--' and (ap(ev['e'].get('e')) or '').endswith('->' + counter)]
        if not decs:
            continue
        name = f['name']
        for b, dev in decs:
            # the re-counting call is reachable from the decrement
            region = _reach_blocks(f, b['id'], dev)
            calls = []
            hit_recount = False
            for bid, evs in region:
                for ev in evs:
                    for t in walk(ev['e']):
                        if isinstance(t, dict) and t.get('k') == 'call':
                            if t.get('fn') == recount:
                                hit_recount = True
                            calls.append((bid, ev, t))
            if not hit_recount:
                continue
            n += 1
            run.instance('R-CNT-CON', '%s: decrement at %s is compensated by %s()' % (name, dev['loc'].rsplit(':', 1)[-1], recount))
            # blocks from which the re-count is still reachable
            B = f['B']
            can_reach = set()
            for bb in f['blocks']:
                if any(isinstance(t, dict) and t.get('k') == 'call' and t.get('fn') == recount for bid2, evs2 in _reach_blocks(f, bb['id']) for e2 in evs2 for t in walk(e2['e'])):
                    can_reach.add(bb['id'])
            bad = None
            for bid, ev, t in calls:
                if t.get('fn') == recount or bid not in can_reach:
                    continue
                elems = B[bid]['elems']
                me = [i for i, e in enumerate(elems) if e is ev][0]
                rc = [i for i, e in enumerate(elems) if any(isinstance(y, dict) and y.get('k') == 'call' and y.get('fn') == recount for y in walk(e['e']))]
                if rc and me > rc[0]:
                    continue          # behind the re-count in its own block: the window is closed
                fn = t.get('fn')
                if (fn in co) or (fn is None and callee_field(t) in APPCB):
                    bad = (ev, fn or callee_field(t))
                    break
            run.oblige('R-CNT-CON', bad is None, '%s:no-call-out-in-window' % name)
            if bad:
                run.violation('R-CNT-CON', name, bad[0]['loc'], 'callout-between-decrement-and-recount:%s' % bad[1],
                              '%s() can reach an application callback and is called after con_active was lowered (%s) and before %s() counts the message again: inside the '
                              'callback the session looks one slot freer than it is, a Confirmable submitted there goes out as number NSTART+1 and overtakes the held ones'
                              % (bad[1], dev['loc'].rsplit('/', 1)[-1], recount))
    run.require_count(n >= 1 or run.cfg != 'base' or run.fixture_mode, 'R-CNT-CON (k): no compensating decrement in front of coap_send_pdu() found (expected coap_retransmit)')


# ---------------------------------------------------------------------------------------------------------------- C20
def run_literal_length(run, P):
    """R-LIT-LEN: a string literal and the constant that says how many of its bytes are used agree.  (a) a loop `for (i = 0; i < K; i++)`
    whose body reads `"literal"[i]` (the COPY_COND_WITH_OFFSET idiom of the link-format writer): K == strlen(literal) - one more copies the
    terminating NUL into the output (and counts it in the reported length), one less drops a character; (b) memcpy / memcmp / strncmp /
    strncasecmp with a literal and a constant count: count <= strlen(literal) + 1."""
    run.rule('R-LIT-LEN')
    n = 0
    for f in sorted(P.lib_funcs(), key=lambda f: f['name']):
        name = f['name']
        idx = collections.defaultdict(set)      # index variable -> literal lengths it indexes
        where = {}
        for b, ev in P.events(f):
            for t in walk(ev['e']):
                if isinstance(t, dict) and t.get('k') == 'sub':
                    base = strip(t['b'])
                    if isinstance(base, dict) and base.get('k') == 'str' and ap(t['i']) and 'v' in base:
                        idx[ap(t['i'])].add(len(base['v'].encode('utf-8', 'surrogateescape')) if isinstance(base['v'], str) else len(base['v']))
                        where[ap(t['i'])] = (ev['loc'], base['v'])
                if isinstance(t, dict) and t.get('k') == 'call' and t.get('fn') in ('memcpy', 'memcmp', 'strncmp', 'strncasecmp', 'memmove') and len(t.get('a') or ()) == 3:
                    K = const_int(t['a'][2])
                    for a in t['a'][:2]:
                        sa = strip(a)
                        if isinstance(sa, dict) and sa.get('k') == 'str' and 'v' in sa and K is not None and ev.get('top', True):
                            L = len(sa['v'])
                            n += 1
                            run.instance('R-LIT-LEN', '%s: %s("%s", %d)' % (name, t['fn'], sa['v'][:20], K))
                            ok = K <= L + 1
                            run.oblige('R-LIT-LEN', ok, '%s:literal-count' % name)
                            if not ok:
                                run.violation('R-LIT-LEN', name, ev['loc'], 'count-exceeds-literal:%s' % sa['v'][:20],
                                              '%s() is told to use %d bytes of the literal "%s", which has %d (+ the terminator): bytes behind the literal are read' % (t['fn'], K, sa['v'][:30], L))
        if not idx:
            continue
        for b in f['blocks']:
            c = strip((b.get('term') or {}).get('cond'))
            if not (isinstance(c, dict) and c.get('k') == 'bin' and c.get('op') in ('<', '<=', '!=')):
                continue
            i, K = ap(c['l']), const_int(c['r'])
            if i in idx and K is not None and len(idx[i]) == 1:
                L = list(idx[i])[0]
                used = K + (1 if c['op'] == '<=' else 0)
                n += 1
                run.instance('R-LIT-LEN', '%s: %d bytes of "%s"' % (name, used, where[i][1][:20]))
                ok = used == L
                run.oblige('R-LIT-LEN', ok, '%s:loop-over-literal' % name)
                if not ok:
                    run.violation('R-LIT-LEN', name, where[i][0], 'loop-bound-vs-literal:%s' % where[i][1][:20],
                                  'the loop copies %d bytes of the literal "%s", which has %d characters: %s' % (
                                      used, where[i][1][:30], L, 'the terminating NUL (and whatever follows) ends up in the output and in the reported length' if used > L else 'the text is cut short'))
    run.require_count(n >= (3 if run.cfg == 'base' else 1) or run.fixture_mode, 'R-LIT-LEN: fewer than 3 literal / count pairs found')


# ---------------------------------------------------------------------------------------------------------------- C17
def run_observe_codes_agree(run, P, add='coap_add_observer', pdu_arg=3):
    """R-PERSIST (observable methods agree): a subscription is created at two places - when a request arrives (handle_request) and when a
    saved one is restored after a restart (coap_persist_observe_add_lkd).  For each call of coap_add_observer() the request methods that can
    reach it are collected from the equality tests on `->code` of the PDU it is handed (kept in the typestate, so that calls in between do
    not lose them).  All sites admit the same set: a method that can be observed live (FETCH, RFC 8132) but is refused at restore time is an
    observation that does not survive a restart."""
    run.rule('R-PERSIST')
    per_site = {}
    for f in sorted(P.lib_funcs(), key=lambda f: f['name']):
        sites = [ev for b, ev in P.events(f) if ev['e'].get('k') == 'call' and ev['e'].get('fn') == add and len(ev['e'].get('a') or ()) > pdu_arg]
        if not sites or f['name'] == add:
            continue
        name = f['name']
        pdus = set(ap(ev['e']['a'][pdu_arg]) for ev in sites if ap(ev['e']['a'][pdu_arg]))
        if not pdus:
            continue

        def code_test(c):
            c = strip(c)
            if isinstance(c, dict) and c.get('k') == 'bin' and c.get('op') in ('==', '!='):
                for x, y in ((c['l'], c['r']), (c['r'], c['l'])):
                    sx = strip(x)
                    K = const_int(y)
                    if isinstance(sx, dict) and sx.get('k') == 'mem' and sx.get('f') == 'code' and ap(sx.get('b')) in pdus and K is not None and 1 <= K <= 31:
                        return ap(sx['b']), c['op'], K
            return None

        def is_rule_event(ev):
            return any(ev is s for s in sites)
        keys, R = relevance(f, is_rule_event)
        keys = set(keys)
        for b in f['blocks']:
            c = (b.get('term') or {}).get('cond')
            if c is not None and code_test(c):
                keys.add(b['id'])
        got = collections.defaultdict(set)

        def on_branch(b, s, env, ctx):
            ct = code_test((b.get('term') or {}).get('cond'))
            if not ct or len(b['succ']) != 2:
                return env
            p, op, K = ct
            truth = (s == b['succ'][0])
            eq = (op == '==') == truth
            e = env.copy()
            if eq:
                if e.ts.get('is:' + p) not in (None, K) or K in e.ts.get('not:' + p, frozenset()):
                    return None            # contradicts what the path already knows
                e.ts['is:' + p] = K
            else:
                if e.ts.get('is:' + p) == K:
                    return None
                e.ts['not:' + p] = frozenset(e.ts.get('not:' + p, frozenset()) | {K})
            return e

        def on_event(ev, env, ctx):
            for s_ in sites:
                if ev is s_:
                    p = ap(ev['e']['a'][pdu_arg])
                    if env.ts.get('is:' + p) is not None:
                        got[ev['loc']].add(env.ts['is:' + p])
                    else:
                        got[ev['loc']].add(('any-but',) + tuple(sorted(env.ts.get('not:' + p, ()))))
            return None
        solve(f, Env(), on_event, None, keys, R, key_fn=lambda e: tuple(sorted((k, v if not isinstance(v, frozenset) else tuple(sorted(v))) for k, v in e.ts.items())), on_branch=on_branch, max_envs=512)
        for loc, vals in got.items():
            per_site[(name, loc)] = vals
    judged = dict((k, v) for k, v in per_site.items() if v and all(isinstance(x, int) for x in v))
    for (name, loc), v in sorted(per_site.items()):
        run.instance('R-PERSIST', '%s: coap_add_observer() reached with request code in %s' % (name, sorted(v, key=str)))
    if len(judged) >= 2:
        union = set().union(*judged.values())
        for (name, loc), v in sorted(judged.items()):
            ok = v == union
            run.oblige('R-PERSIST', ok, '%s:observable-methods' % name)
            if not ok:
                run.violation('R-PERSIST', name, loc, 'observable-methods-differ:%s' % ','.join(str(x) for x in sorted(union - v)),
                              'this site creates subscriptions for request codes %s only, another site of the library also for %s: an observation registered with that method '
                              'is %s' % (sorted(v), sorted(union - v), 'not re-established after a restart' if 'persist' in name else 'treated differently depending on how it is created'))
    run.require_count(len(judged) >= (2 if run.cfg == 'base' else 0) or run.fixture_mode, 'R-PERSIST (observable methods agree): fewer than 2 sites of coap_add_observer() with a known set of request codes')


# ---------------------------------------------------------------------------------------------------------------- C03
def run_value_fits_rest(run, P, fname='coap_opt_parse', out_field='length'):
    """R-PARSE-GATE (the value fits what is left): the option parser walks the header with a remaining-length parameter that it lowers as it
    goes.  On every path to a successful return, the LAST thing done to the remaining length is its comparison with the decoded value
    length (`length < result->length` -> reject): a comparison made before the final step over the header is made against a remainder that
    is one too large, and an option whose value is cut short by exactly that much is accepted (its value is read behind the datagram)."""
    run.rule('R-PARSE-GATE')
    if not P.has(fname):
        raise AnalysisBroken('R-PARSE-GATE (value fits): %s() not found' % fname)
    f = P.func(fname)
    name = fname
    lens = [p for p in f['params'] if not p.get('p') and p.get('n') in ('length', 'len', 'maxlen')]
    outs = [p for p in f['params'] if p.get('p') and p.get('prec')]
    if not lens or not outs:
        raise AnalysisBroken('R-PARSE-GATE (value fits): %s() has no (remaining length, result record) parameters' % fname)
    L = 'v%d' % lens[0]['id']
    O = 'v%d' % outs[-1]['id'] + '->' + out_field

    def is_cmp(c):
        c = strip(c)
        if isinstance(c, dict) and c.get('k') == 'bin' and c.get('op') in ('<', '>', '<=', '>='):
            aps = set(ap(y) for y in walk(c) if isinstance(y, dict) and y.get('k') in ('var', 'mem') and ap(y))
            return L in aps and O in aps
        return False
    if not any(is_cmp((b.get('term') or {}).get('cond')) for b in f['blocks']):
        # the check itself is gone: that is the violation (the reject-condition table of R-PARSE-GATE reports it as well)
        run.instance('R-PARSE-GATE', '%s: remaining length compared with ->%s after its last change' % (name, out_field))
        run.oblige('R-PARSE-GATE', False, '%s:value-fits-rest' % name)
        run.violation('R-PARSE-GATE', name, f['loc'], 'value-length-never-compared',
                      '%s() never compares the remaining length with the decoded value length: a truncated option value is accepted and read behind the message' % fname)
        return
    run.instance('R-PARSE-GATE', '%s: remaining length compared with ->%s after its last change' % (name, out_field))
    rep = set()

    def on_event(ev, env, ctx):
        t = ev['e']
        wr = (t.get('k') == 'asg' and ap(t.get('l')) == L) or (t.get('k') == 'un' and t.get('op') in ('++', '--') and ap(t.get('e')) == L)
        if wr and env.ts.get('chk'):
            e = apply_generic(ev, env, None).copy()
            e.ts['chk'] = 0
            e.ts['at'] = ev['loc']
            return [e]
        if t.get('k') == 'ret' and 'e' in t:
            c = const_int(t['e'])
            if c == 0:
                return None
            ok = bool(env.ts.get('chk'))
            run.oblige('R-PARSE-GATE', ok, '%s:value-fits-rest' % name)
            if not ok and ev['loc'] not in rep:
                rep.add(ev['loc'])
                run.violation('R-PARSE-GATE', name, env.ts.get('at') or ev['loc'], 'length-changed-after-value-check',
                              'a successful return is reached on a path on which the remaining length was lowered AFTER it was compared with the value length (or never '
                              'compared): an option whose value is short by that step is accepted and its value read behind the end of the message', ctx.path())
        return None

    def on_branch(b, s, env, ctx):
        if is_cmp((b.get('term') or {}).get('cond')):
            e = env.copy()
            e.ts['chk'] = 1
            return e
        return env
    solve(f, Env(), on_event, None, None, None, key_fn=lambda e: (e.ts.get('chk'),), on_branch=on_branch, max_envs=64)


# ---------------------------------------------------------------------------------------------------------------- C05
def run_terminator_last(run, P, units=('coap_ws.c',)):
    """R-STREAM-ADV (the terminator goes in last): a line buffer B that is parsed with the C string routines is terminated at B[C] (C a
    progress counter).  In a basic block that both stores the terminator and moves bytes inside B (memmove / memcpy with destination B), the
    move comes first: a terminator written before the move lands on a byte that has not been processed yet whenever the consumed line is
    shorter than what is buffered behind it - which depends only on how the stream was cut."""
    from rules.r_stream import COUNTERS
    run.rule('R-STREAM-ADV')
    n = 0
    for f in sorted(P.lib_funcs(), key=lambda f: f['name']):
        if f['unit'] not in units:
            continue
        for b in f['blocks']:
            terms, moves = [], []
            for i, ev in enumerate(b['elems']):
                t = ev['e']
                if t.get('k') == 'asg' and t.get('op') == '=' and const_int(t['r']) == 0 and ev.get('top'):
                    l = strip(t['l'])
                    if isinstance(l, dict) and l.get('k') == 'sub' and ap(l['b']) and any(isinstance(y, dict) and y.get('k') == 'mem' and y.get('f') in COUNTERS for y in walk(l['i'])):
                        terms.append((i, ev, ap(l['b'])))
                if t.get('k') == 'call' and t.get('fn') in ('memmove', 'memcpy') and ev.get('top') and t.get('a'):
                    moves.append((i, ev, ap(t['a'][0])))
            for ti, tev, tb in terms:
                for mi, mev, mb in moves:
                    if mb == tb:
                        n += 1
                        run.instance('R-STREAM-ADV', '%s: terminator of %s after the move' % (f['name'], tb.split('->')[-1]))
                        ok = mi < ti
                        run.oblige('R-STREAM-ADV', ok, '%s:terminator-last' % f['name'])
                        if not ok:
                            run.violation('R-STREAM-ADV', f['name'], tev['loc'], 'terminator-before-move',
                                          'the terminating NUL is stored into the line buffer before the remaining bytes are moved to its front: when the consumed line is not longer '
                                          'than what is buffered behind it, the NUL lands inside the unprocessed bytes, the next line never ends and the handshake stalls - for some '
                                          'segmentations of the same byte stream only')
    run.require_count(n >= 1 or run.cfg != 'base' or run.fixture_mode, 'R-STREAM-ADV (terminator last): no block that moves a line buffer and terminates it found (expected coap_ws_rd_http_header)')


# ---------------------------------------------------------------------------------------------------------------- C11
def run_request_flag(run, P):
    """R-LOST-STORE (request flag): a "do it again" flag - a record field that some function raises to a non-zero constant and another one
    consumes with the test-and-clear idiom `if (X->g) { X->g = 0; ... }` - is not cleared on a path that comes from a call which can raise it, unless the flag was read in between.  The notifier raises
    `context->observe_pending` when an observer had to be skipped (NSTART back-pressure, block-wise notification in progress, allocation
    failure); coap_check_notify_lkd() clears it BEFORE it runs the notifier over the resources.  Cleared after the loop, the request to come
    back is wiped out together with the flag: the last state is never notified."""
    run.rule('R-LOST-STORE')
    raisers = collections.defaultdict(set)      # (rec, field) -> functions that store a non-zero constant
    clears = []
    for f in P.lib_funcs():
        for b, ev in P.events(f):
            t = ev['e']
            if t.get('k') == 'asg' and t.get('op') == '=' and ev.get('top'):
                l = strip(t['l'])
                c = const_int(t['r'])
                if isinstance(l, dict) and l.get('k') == 'mem' and l.get('rec') and c is not None and (l.get('w') or 0) <= 8:
                    if c != 0:
                        raisers[(l['rec'], l['f'])].add(f['name'])
                    else:
                        clears.append((f, b, ev, (l['rec'], l['f']), ap(l)))
    cg = P.callgraph()
    closure = {}

    def reaches(fn, targets):
        k = (fn, frozenset(targets))
        if k in closure:
            return closure[k]
        seen, work = set(), [fn]
        hit = False
        while work:
            x = work.pop()
            if x in seen:
                continue
            seen.add(x)
            if x in targets:
                hit = True
                break
            work.extend(cg.get(x, ()))
        closure[k] = hit
        return hit
    n = 0
    for f, b, ev, key_, path in clears:
        rs = raisers.get(key_)
        if not rs or f['name'] in rs:
            continue          # a function that raises and clears the flag itself manages a state of its own
        # the test-and-clear idiom of a request flag: `if (X->g) { X->g = 0; ... }` - the clear is controlled by a test of the same flag
        cdeps = control_deps(f).get(b['id'], ())
        if not any(any(isinstance(y, dict) and y.get('k') == 'mem' and ap(y) == path for y in walk((f['B'][cb_].get('term') or {}).get('cond') or {})) for (cb_, _i) in cdeps):
            continue
        name = f['name']
        # calls in f that can raise the flag and from which the clear is reachable without a read of the flag in between
        B = f['B']
        bad = None
        for cb, cev in P.events(f):
            for t in walk(cev['e']):
                if not (isinstance(t, dict) and t.get('k') == 'call' and t.get('fn') and t['fn'] in P.funcs and reaches(t['fn'], rs)):
                    continue
                # forward search from the call, stopping at reads of the flag
                seen, work = set(), [(cb['id'], cev)]
                while work and not bad:
                    bid, after = work.pop()
                    evs = B[bid]['elems']
                    if after is not None:
                        idx = [i for i, e in enumerate(evs) if e is after]
                        evs = evs[idx[0] + 1:] if idx else evs
                    stop = False
                    for e2 in evs:
                        if e2 is ev:
                            bad = (cev, t['fn'])
                            stop = True
                            break
                        t2 = e2['e']
                        if not (e2.get('top') or t2.get('k') in ('decl', 'ret')):
                            continue          # sub-expression events repeat what their statement holds (and include the lvalue of a store)
                        rd = t2['r'] if t2.get('k') == 'asg' and t2.get('op') == '=' else t2
                        if any(isinstance(y, dict) and y.get('k') == 'mem' and y.get('f') == key_[1] and y.get('rec') == key_[0] for y in walk(rd)) and not (t2.get('k') == 'asg' and t2 is ev['e']):
                            stop = True
                            break
                    if stop:
                        continue
                    c = (B[bid].get('term') or {}).get('cond')
                    if c is not None and any(isinstance(y, dict) and y.get('k') == 'mem' and y.get('f') == key_[1] and y.get('rec') == key_[0] for y in walk(c)):
                        continue
                    if B[bid].get('noret'):
                        continue
                    for s_ in succs(B[bid]):
                        if s_ not in seen:
                            seen.add(s_)
                            work.append((s_, None))
                if bad:
                    break
            if bad:
                break
        n += 1
        run.instance('R-LOST-STORE', '%s: clears %s.%s (raised by %s)' % (name, key_[0], key_[1], ', '.join(sorted(rs))[:60]))
        run.oblige('R-LOST-STORE', bad is None, '%s:%s:request-flag' % (name, key_[1]))
        if bad:
            run.violation('R-LOST-STORE', name, ev['loc'], 'request-flag-cleared-after-raiser:%s:%s' % (key_[1], bad[1]),
                          '%s is cleared here on a path that comes from %s() (%s), which can raise it (%s), and nothing read the flag in between: the request it stands for is lost'
                          % (short(ev['e']['l']), bad[1], bad[0]['loc'].rsplit('/', 1)[-1], ', '.join(sorted(rs))[:80]))
    return n


# ---------------------------------------------------------------------------------------------------------------- C18
LINK_MACROS = ('LL_PREPEND', 'LL_APPEND', 'LL_PREPEND2', 'LL_APPEND2')
UNLINK_MACROS = ('LL_DELETE', 'LL_DELETE2')


def run_linked_destroyed(run, P):
    """R-DANGLING-FIELD (linked, then destroyed): an object that a function links into a list hanging off another object
    (`LL_PREPEND(session->lg_crcv, X)`) is not handed to a destructor (computed: frees its parameter on every path) later on the same path
    unless it was unlinked (`LL_DELETE`) in between or the destructor unlinks it itself (its body contains the unlink macro for a list field
    of the same name).  Otherwise the list head keeps pointing at freed memory: the next walk of the list - the next response, the session
    tear-down - is a use after free.  The classic way in: linking is moved in front of a step that can fail (the send), and the failure path
    still only destroys."""
    from rules.r_uaf import destructors
    run.rule('R-DANGLING-FIELD')
    D = destructors(P)
    # destructors that unlink: body has an UNLINK macro event
    unlinkers = collections.defaultdict(set)
    for f in P.lib_funcs():
        for b, ev in P.events(f):
            if any(m in UNLINK_MACROS for m in (ev.get('mac') or ())):
                for y in walk(ev['e']):
                    if isinstance(y, dict) and y.get('k') == 'mem':
                        unlinkers[f['name']].add(y['f'])
    cg = P.callgraph()
    changed = True
    while changed:
        changed = False
        for fn, cs in cg.items():
            for c_ in cs:
                if unlinkers.get(c_) and not unlinkers[c_] <= unlinkers[fn]:
                    unlinkers[fn] |= unlinkers[c_]
                    changed = True
    n = 0
    for f in sorted(P.lib_funcs(), key=lambda f: f['name']):
        links = []
        for b, ev in P.events(f):
            t = ev['e']
            if any(m in LINK_MACROS for m in (ev.get('mac') or ())) and t.get('k') == 'asg' and t.get('op') == '=' and ev.get('top'):
                l, r = strip(t['l']), strip(t['r'])
                if isinstance(l, dict) and l.get('k') == 'mem' and isinstance(r, dict) and r.get('k') == 'var' and l.get('f') != 'next' and not is_null_const(r):
                    links.append((ev, ap(r), l['f']))
        if not links:
            continue
        name = f['name']
        lvars = set(x for _e, x, _f in links)
        dcalls = [ev for b, ev in P.events(f) if ev['e'].get('k') == 'call' and any((ev['e'].get('fn'), j) in D and ap(a) in lvars for j, a in enumerate(ev['e'].get('a') or ()))]
        for ev, x, fld in links:
            n += 1
        run.instance('R-DANGLING-FIELD', '%s: links %s into a list' % (name, ', '.join(sorted(set('->' + fl for _e, _x, fl in links)))))
        if not dcalls:
            run.oblige('R-DANGLING-FIELD', True, '%s:linked-not-destroyed' % name)
            continue
        rep = set()
        # one expansion of the unlink macro = all its events at one source position; the object it unlinks is named somewhere in it
        unl_at = collections.defaultdict(set)
        for b, ev in P.events(f):
            if any(m in UNLINK_MACROS for m in (ev.get('mac') or ())):
                for y in walk(ev['e']):
                    if isinstance(y, dict) and y.get('k') == 'var' and ap(y) in lvars:
                        unl_at[ev['loc']].add(ap(y))
        for b in f['blocks']:
            tm = b.get('term') or {}
            if tm.get('cond') is not None and tm.get('loc') in unl_at:
                pass

        def is_rule_event(ev):
            return any(ev is l[0] for l in links) or any(ev is d for d in dcalls) or any(m in UNLINK_MACROS for m in (ev.get('mac') or ()))
        keys, R = relevance(f, is_rule_event, lvars)

        def on_event(ev, env, ctx):
            t = ev['e']
            for lev, x, fld in links:
                if ev is lev:
                    e = apply_generic(ev, env, R).copy()
                    e.ts['in:' + x] = fld
                    return [e]
            if any(m in UNLINK_MACROS for m in (ev.get('mac') or ())):
                hit = [x for x in unl_at.get(ev['loc'], ()) if env.ts.get('in:' + x)]
                if hit:
                    e = apply_generic(ev, env, R).copy()
                    for x in hit:
                        e.ts.pop('in:' + x, None)
                    return [e]
            if any(ev is d for d in dcalls):
                for j, a in enumerate(t.get('a') or ()):
                    x = ap(a)
                    fld = env.ts.get('in:' + x) if x else None
                    if fld and (t['fn'], j) in D:
                        ok = fld in unlinkers.get(t['fn'], ())
                        run.oblige('R-DANGLING-FIELD', ok, '%s:%s:unlinked-before-destroyed' % (name, fld))
                        if not ok and ev['loc'] not in rep:
                            rep.add(ev['loc'])
                            run.violation('R-DANGLING-FIELD', name, ev['loc'], 'destroyed-while-linked:%s:%s' % (fld, t['fn']),
                                          '%s() frees the object, which this path has linked into the list ->%s and not unlinked since (and %s() does not unlink): the list head '
                                          'keeps a pointer to freed memory' % (t['fn'], fld, t['fn']), ctx.path())
            return None
        solve(f, Env(), on_event, None, keys, R, key_fn=lambda e: tuple(sorted((k, v) for k, v in e.ts.items() if k.startswith('in:'))), max_envs=256)
    run.require_count(n >= (5 if run.cfg == 'base' else 1) or run.fixture_mode, 'R-DANGLING-FIELD (linked, then destroyed): fewer than 5 list insertions found')


# ---------------------------------------------------------------------------------------------------------------- C14
def run_weak_lookup(run, P, finder='oscore_find_context', kidctx_arg=2, legit_field='rfc8613_b_2', sink='cose_encrypt0_decrypt'):
    """R-OSC-ROLE (a context found without its ID Context is not used as is): the security context of a request is looked up by (kid, kid
    context).  The second, weakened look-up - oscore_find_context() with the kid-context argument NULL - exists for the Appendix B.2
    negotiation only.  A context variable assigned from the weakened look-up reaches the decryption (cose_encrypt0_decrypt) only on paths that
    tested `ctx->rfc8613_b_2` true (or that re-assigned the variable).  Otherwise a request whose kid context was altered in flight - the kid
    context is neither in the AAD nor in the nonce - is decrypted with the real keys and handed to the application."""
    run.rule('R-OSC-ROLE')
    n = 0
    for f in sorted(P.lib_funcs(), key=lambda f: f['name']):
        weak = []
        for b, ev in P.events(f):
            t = ev['e']
            if t.get('k') == 'asg' and t.get('op') == '=' and ev.get('top'):
                r = strip(t['r'])
                if isinstance(r, dict) and r.get('k') == 'call' and r.get('fn') == finder and len(r.get('a') or ()) > kidctx_arg and is_null_const(r['a'][kidctx_arg]) and ap(t['l']):
                    weak.append((ev, ap(t['l'])))
        if not weak:
            continue
        name = f['name']
        wv = set(x for _e, x in weak)
        sinks = [ev for b, ev in P.events(f) if ev['e'].get('k') == 'call' and ev['e'].get('fn') == sink]
        if not sinks:
            continue
        n += len(weak)
        run.instance('R-OSC-ROLE', '%s: context from the look-up without kid context' % name)
        rep = set()

        def on_event(ev, env, ctx):
            t = ev['e']
            for wev, x in weak:
                if ev is wev:
                    e = apply_generic(ev, env, None).copy()
                    e.ts['weak:' + x] = 1
                    return [e]
            if t.get('k') == 'asg' and ap(t.get('l')) in wv and ev.get('top') and env.ts.get('weak:' + ap(t['l'])):
                e = apply_generic(ev, env, None).copy()
                e.ts.pop('weak:' + ap(t['l']), None)
                return [e]
            if any(ev is s for s in sinks):
                bad = [x for x in wv if env.ts.get('weak:' + x) and env.nullf(x) != 'Z']
                run.oblige('R-OSC-ROLE', not bad, '%s:weak-lookup-legitimised' % name)
                if bad and ev['loc'] not in rep:
                    rep.add(ev['loc'])
                    run.violation('R-OSC-ROLE', name, ev['loc'], 'context-found-without-kid-context-used',
                                  'the message is decrypted with a security context that was found by the look-up WITHOUT the kid context, on a path that never tested %s of that '
                                  'context: a request whose kid context was changed in flight is accepted' % legit_field, ctx.path())
            return None

        def on_branch(b, s, env, ctx):
            c = strip((b.get('term') or {}).get('cond'))
            neg = False
            while isinstance(c, dict) and c.get('k') == 'un' and c.get('op') == '!':
                c = strip(c['e'])
                neg = not neg
            if isinstance(c, dict) and c.get('k') == 'mem' and c.get('f') == legit_field and ap(c.get('b')) in wv and len(b['succ']) == 2:
                truth = (s == b['succ'][0]) != neg
                x = ap(c['b'])
                if truth and env.ts.get('weak:' + x):
                    e = env.copy()
                    e.ts.pop('weak:' + x, None)
                    return e
            return env
        solve(f, Env(), on_event, None, None, None, key_fn=lambda e: tuple(sorted(k for k in e.ts if k.startswith('weak:'))) + tuple(e.nullf(x) for x in sorted(wv)), on_branch=on_branch, max_envs=512)
    run.require_count(n >= 1 or run.cfg != 'base' or run.fixture_mode, 'R-OSC-ROLE (weak look-up): no look-up without kid context found (expected coap_oscore_decrypt_pdu)')


# ---------------------------------------------------------------------------------------------------------------- C20 / C02
UNSIGNED_SUB_EXCEPTIONS = {
    'decode_segment': 'caller contract: only called after check_segment() validated every %xx of the same bytes (decided by R-LEN-READ)',
}
UNSIGNED_SUB_DECLINED_UNITS = ('oscore_cbor.c',)     # CBOR cursor primitives: capacity / remaining length guarded by assert() only - the declined class of section 6 (C02)


def run_unsigned_sub(run, P):
    """R-RANGE (unsigned subtraction): library-wide, a statement `X -= K` (K a positive constant) on an unsigned variable or field is reached
    only on paths on which the interval analysis knows X >= K.  A length that wraps to SIZE_MAX turns every later bound check and copy size
    into a read or write far behind the object (`unquoted_val.length -= 2` for a one byte attribute value)."""
    run.rule('R-RANGE')
    n = 0
    for f in sorted(P.lib_funcs(), key=lambda f: f['name']):
        sites = [ev for b, ev in P.events(f) if ev['e'].get('k') == 'asg' and ev['e'].get('op') == '-=' and (const_int(ev['e']['r']) or 0) > 0 and ev.get('top')
                 and isinstance(strip(ev['e']['l']), dict) and strip(ev['e']['l']).get('s') == 0 and ap(ev['e']['l'])]
        # the Jenkins hash of the bundled uthash (`_hj_k -= 12U` under `while (_hj_k >= 12U)`) is third-party code expanded into every look-up
        sites = [ev for ev in sites if not any(m.startswith('HASH_') for m in (ev.get('mac') or ()))]
        if not sites:
            continue
        name = f['name']
        if f['unit'] in UNSIGNED_SUB_DECLINED_UNITS:
            run.stats['unsigned_sub_declined'] += len(sites)
            continue
        for ev in sites:
            n += 1
            run.instance('R-RANGE', '%s: %s' % (name, short(ev['e'])))
        if name in UNSIGNED_SUB_EXCEPTIONS:
            run.notes.append('R-RANGE (unsigned subtraction) exception %s: %s' % (name, UNSIGNED_SUB_EXCEPTIONS[name]))
            continue
        rep = set()

        def on_event(ev, env, ctx):
            for s_ in sites:
                if ev is s_:
                    a, K = ap(ev['e']['l']), const_int(ev['e']['r'])
                    lo, hi, ex = env.intf(a)
                    ok = lo >= K
                    run.oblige('R-RANGE', ok, '%s:unsigned-sub' % name)
                    if not ok and ev['loc'] not in rep:
                        rep.add(ev['loc'])
                        run.violation('R-RANGE', name, ev['loc'], 'unsigned-sub-may-wrap:%s' % short(ev['e']['l'])[:30],
                                      '%s is executed on a path that does not know the unsigned value to be at least %d (it can be %s): it wraps to a huge length and every '
                                      'later bound check or copy size built from it reaches far behind the object' % (short(ev['e']), K, '[%s, %s]' % (lo, hi)), ctx.path())
            return None
        aps_ = set(ap(ev['e']['l']) for ev in sites)
        keys, R = relevance(f, lambda ev: any(ev is s_ for s_ in sites), aps_)
        kmax = max(const_int(ev['e']['r']) for ev in sites)
        import time as _t
        t0 = _t.time()
        solve(f, Env(), on_event, None, keys, set(R) | aps_, key_fn=lambda e: tuple(sorted((a, min(max(e.intf(a)[0], -1), kmax)) for a in aps_)), max_envs=512)
        if _t.time() - t0 > 0.5:
            run.notes.append('R-RANGE (unsigned subtraction): %s took %.1fs' % (name, _t.time() - t0))
    run.require_count(n >= (10 if run.cfg == 'base' else 3) or run.fixture_mode, 'R-RANGE (unsigned subtraction): fewer than 10 constant subtractions from unsigned values found')


# ---------------------------------------------------------------------------------------------------------------- C16
def run_scan_cursor(run, P, units=('coap_uri.c',)):
    """R-LEN-READ (the scanning cursor): cursor / remaining-length pairs are computed - a local byte pointer Q and an unsigned L that some
    basic block steps together (`++Q; --L`).  Every read through Q (`*Q`) lies on a path that knows L non-zero.  The scan loops end either
    at the byte looked for or at the end of the input; a test made after the loop that reads `*Q` first (`*q != ']'` without `!len ||`) reads
    the byte BEHIND the input, and whether a malformed URI is then accepted depends on what lies there."""
    run.rule('R-LEN-READ')
    n = 0
    for f in sorted(P.lib_funcs(), key=lambda f: f['name']):
        if f['unit'] not in units:
            continue
        pairs = set()
        for b in f['blocks']:
            incs = set(ap(ev['e'].get('e')) for ev in b['elems'] if ev['e'].get('k') == 'un' and ev['e'].get('op') == '++' and isinstance(strip(ev['e'].get('e')), dict) and strip(ev['e']['e']).get('p'))
            decs = set(ap(ev['e'].get('e')) for ev in b['elems'] if ev['e'].get('k') == 'un' and ev['e'].get('op') == '--' and isinstance(strip(ev['e'].get('e')), dict) and strip(ev['e']['e']).get('s') == 0 and not strip(ev['e']['e']).get('p'))
            for q in incs:
                for l in decs:
                    if q and l and q.startswith('v') and l.startswith('v') and '->' not in q and '->' not in l:
                        pairs.add((q, l))
        # a cursor paired with exactly one length
        byq = collections.defaultdict(set)
        for q, l in pairs:
            byq[q].add(l)
        pairs = dict((q, list(ls)[0]) for q, ls in byq.items() if len(ls) == 1)
        if not pairs:
            continue
        name = f['name']
        rep = set()
        cnt = [0]

        def on_event(ev, env, ctx):
            t = ev['e']
            if t.get('k') == 'un' and t.get('op') == '*' and ap(t.get('e')) in pairs:
                L = pairs[ap(t['e'])]
                lo, hi, ex = env.intf(L)
                ok = lo >= 1 or 0 in ex
                run.oblige('R-LEN-READ', ok, '%s:scan-cursor-read' % name)
                if not ok and ev['loc'] not in rep:
                    rep.add(ev['loc'])
                    run.violation('R-LEN-READ', name, ev['loc'], 'cursor-read-without-remaining-length',
                                  'the scanning cursor is dereferenced on a path that does not know the remaining length non-zero: after a scan that ran to the end of the input this '
                                  'reads the byte behind it, and what the function decides then depends on memory that is not part of the URI', ctx.path())
            return None
        derefs = set(ev['loc'] for b, ev in P.events(f) if ev['e'].get('k') == 'un' and ev['e'].get('op') == '*' and ap(ev['e'].get('e')) in pairs)
        if not derefs:
            continue
        n += len(derefs)
        run.instance('R-LEN-READ', '%s: %d reads through a scanning cursor' % (name, len(derefs)))
        solve(f, Env(), on_event, None, None, None, max_envs=768)
    run.require_count(n >= (5 if run.cfg == 'base' else 1) or run.fixture_mode, 'R-LEN-READ (scanning cursor): fewer than 5 reads through a (cursor, remaining length) pair found')


# ---------------------------------------------------------------------------------------------------------------- C17
def run_copy_loop_exits(run, P, units=('coap_subscribe.c',)):
    """R-PERSIST (the copy loop runs to the end of the old file): an updater (a function that calls rename()) rewrites the file by copying
    the records to keep in a loop.  A loop that writes to a stream is left towards the rename() only through its header (the read that
    reports the end of the old file): an edge that leaves the loop from inside its body - a `break` on the record being deleted, a `break`
    after a failed write - and still reaches rename() replaces the good file by one that lacks every record behind that point."""
    from rules.r_sizefill import natural_loops
    run.rule('R-PERSIST')
    WRITE = ('fprintf', 'fwrite', 'fputs', 'fputc')
    n = 0
    for f in sorted(P.lib_funcs(), key=lambda f: f['name']):
        if f['unit'] not in units:
            continue
        B = f['B']
        ren = [b['id'] for b, ev in P.events(f) if any(isinstance(t, dict) and t.get('k') == 'call' and t.get('fn') == 'rename' for t in walk(ev['e']))]
        for b in f['blocks']:
            c = (b.get('term') or {}).get('cond')
            if c is not None and any(isinstance(t, dict) and t.get('k') == 'call' and t.get('fn') == 'rename' for t in walk(c)):
                ren.append(b['id'])
        if not ren:
            continue
        try:
            loops = natural_loops(f)
        except KeyError:
            continue
        name = f['name']

        def reach(frm):
            seen, work = set(), [frm]
            while work:
                i = work.pop()
                if i in seen:
                    continue
                seen.add(i)
                if not B[i].get('noret'):
                    work.extend(succs(B[i]))
            return seen
        for h, body in sorted(loops.items()):
            def writes(bid):
                for ev in B[bid]['elems']:
                    for t in walk(ev['e']):
                        if isinstance(t, dict) and t.get('k') == 'call' and (t.get('fn') in WRITE or (t.get('fn') in P.funcs and P.funcs[t['fn']]['params'] and 'FILE' in (P.funcs[t['fn']]['params'][0].get('t') or '') and 'write' in t['fn'])):
                            return True
                c = (B[bid].get('term') or {}).get('cond')
                if c is not None:
                    for t in walk(c):
                        if isinstance(t, dict) and t.get('k') == 'call' and (t.get('fn') in WRITE or (t.get('fn') in P.funcs and 'write' in t['fn'] and P.funcs[t['fn']]['params'] and 'FILE' in (P.funcs[t['fn']]['params'][0].get('t') or ''))):
                            return True
                return False
            if not any(writes(bid) for bid in body):
                continue
            # outermost writing loops only (an inner loop's exit into the outer body is judged through the outer loop)
            n += 1
            run.instance('R-PERSIST', '%s: copy loop at block %d' % (name, h))
            for bid in sorted(body):
                if bid == h:
                    continue
                for s_ in succs(B[bid]):
                    if s_ in body:
                        continue
                    # an exit from inside the body
                    if any(o_h != h and bid in o_body and s_ in o_body for o_h, o_body in loops.items()):
                        continue          # leaves an inner loop only
                    r = reach(s_)
                    bad = any(x in r for x in ren)
                    # leaving because the READ said so (end of file, unparsable record) is the loop's normal end; what is judged is an exit
                    # decided by the record being handled (a condition over a parameter of the updater) or by a failed write
                    c = (B[bid].get('term') or {}).get('cond')
                    why = None
                    if c is not None:
                        if any(isinstance(t, dict) and t.get('k') == 'call' and (t.get('fn') in WRITE or 'write' in (t.get('fn') or '')) for t in walk(c)):
                            why = 'a failed write'
                        elif any(isinstance(t, dict) and t.get('k') == 'var' and 'pi' in t and not (t.get('t') or '').startswith('FILE') for t in walk(c)):
                            why = 'a test on the record this call is about'
                    bad = bad and why is not None
                    loc = (B[bid].get('term') or {}).get('loc') or (B[bid]['elems'][-1]['loc'] if B[bid]['elems'] else f['loc'])
                    run.oblige('R-PERSIST', not bad, '%s:copy-loop-exit' % name)
                    if bad:
                        run.violation('R-PERSIST', name, loc, 'copy-loop-left-early:%d' % len([1 for x in sorted(body) if x < bid]),
                                      'the loop that copies the old file into the new one is left from inside its body here because of %s, and rename() is still reached: every '
                                      'record behind this point is missing from the file that replaces the good one' % why)
    run.require_count(n >= (3 if run.cfg == 'base' else 0) or run.fixture_mode, 'R-PERSIST (copy loop exits): fewer than 3 copy loops found in the updaters')


# ---------------------------------------------------------------------------------------------------------------- C09 / C07
def run_filter_field_recorded(run, P, fname='handle_response'):
    """R-RESP (the filter records what it compares): a duplicate filter compares the received message id with a remembered one
    (`rcvd->mid == session->last_ack_mid`) and, when it is not a duplicate, remembers the new id.  The first `S->G = <same id>` behind the
    non-duplicate arm of a comparison with `S->F` has G == F: recording into the sibling field (`last_con_mid` in the ACK arm) leaves the
    compared field stale - every duplicated piggy-backed response is delivered again (a second success response for a block-wise upload,
    carrying the token libcoap put on the wire) - and poisons the sibling filter."""
    from core.prog import dominators
    run.rule('R-RESP')
    if not P.has(fname):
        raise AnalysisBroken('R-RESP (filter field): %s() not found' % fname)
    f = P.func(fname)
    dom = dominators(f)
    B = f['B']
    n = 0
    types_seen = {}
    from core.prog import preds_map
    pm = preds_map(f)
    for b in f['blocks']:
        c = strip((b.get('term') or {}).get('cond'))
        if not (isinstance(c, dict) and c.get('k') == 'bin' and c.get('op') in ('==', '!=') and len(b['succ']) == 2):
            continue
        sides = [(strip(c['l']), strip(c['r'])), (strip(c['r']), strip(c['l']))]
        for fld, other in sides:
            if isinstance(fld, dict) and fld.get('k') == 'mem' and fld.get('f', '').startswith('last_') and fld['f'].endswith('_mid') and ap(other):
                nondup = b['succ'][1] if c['op'] == '==' else b['succ'][0]
                # first recording assignments dominated by the non-duplicate arm
                cands = []
                for bb in f['blocks']:
                    if nondup in dom.get(bb['id'], ()):
                        for ev in bb['elems']:
                            t = ev['e']
                            if t.get('k') == 'asg' and t.get('op') == '=' and ev.get('top') and ap(t['r']) == ap(other):
                                l = strip(t['l'])
                                if isinstance(l, dict) and l.get('k') == 'mem' and l.get('f', '').startswith('last_') and l['f'].endswith('_mid'):
                                    cands.append((len(dom[bb['id']]), ev, l['f']))
                if not cands:
                    continue
                cands.sort(key=lambda x: x[0])
                depth, ev, g = cands[0]
                n += 1
                run.instance('R-RESP', '%s: filter on ->%s records into ->%s' % (fname, fld['f'], g))
                ok = g == fld['f']
                run.oblige('R-RESP', ok, '%s:filter-records-compared-field' % fname)
                if not ok:
                    run.violation('R-RESP', fname, ev['loc'], 'filter-records-sibling-field:%s' % fld['f'],
                                  'the duplicate filter compares the message id with ->%s but records the new id into ->%s: ->%s is never updated, so a duplicated message of this kind '
                                  'is delivered again, and the sibling filter is fed an id it should not know' % (fld['f'], g, fld['f']))
                # (b) the filter is confined to ONE message type: the comparison is dominated by the equal arm of `X->type == K`, and sibling filters have different K
                ks = set()
                for d in dom.get(b['id'], ()):
                    if d == b['id']:
                        continue
                    cd = strip((B[d].get('term') or {}).get('cond'))
                    if not (isinstance(cd, dict) and cd.get('k') == 'bin' and cd.get('op') in ('==', '!=') and len(B[d]['succ']) == 2):
                        continue
                    for x, y in ((strip(cd['l']), cd['r']), (strip(cd['r']), cd['l'])):
                        if isinstance(x, dict) and x.get('k') == 'mem' and x.get('f') == 'type' and const_int(y) is not None:
                            arm = B[d]['succ'][0] if cd['op'] == '==' else B[d]['succ'][1]
                            if (arm == b['id'] or arm in dom.get(b['id'], ())) and set(pm.get(arm, ())) == {d}:
                                ks.add(const_int(y))
                okt = len(ks) == 1 and not (ks & set(types_seen.values()))
                run.oblige('R-RESP', okt, '%s:filter-confined-to-one-type' % fname)
                if not okt:
                    run.violation('R-RESP', fname, b.get('loc') or ev['loc'], 'filter-not-confined-to-type:%s' % fld['f'],
                                  'the duplicate filter on ->%s is not confined to one message type (%s): messages of another type - a Non-confirmable response carries a message id '
                                  'from the peer\'s own sequence - are compared with, and recorded into, a field that remembers ids of a different kind, so a new response is dropped as a '
                                  'duplicate (or a duplicate is delivered)' % (fld['f'], 'types known at the comparison: %s' % sorted(ks) if ks else 'no `->type == K` arm dominates the comparison'))
                for k in ks:
                    types_seen[fld['f']] = k
    run.require_count(n >= (2 if run.cfg == 'base' else 1) or run.fixture_mode, 'R-RESP (filter field): fewer than 2 duplicate filters found in %s()' % fname)


def run_rst_for_any_type(run, P, helper='coap_send_message_type_lkd', sender='coap_send_internal'):
    """R-RESP (a Reset answers any message type): the typed helper through which coap_send_rst_lkd() emits a Reset sends it whatever the type of the
    message it answers - its transmission is not controlled by a test of `request->type` (only coap_send_ack_lkd() is specific to Confirmables).
    A handler verdict of FAIL on a Non-confirmable response must still produce a Reset."""
    run.rule('R-RESP')
    if not P.has(helper):
        raise AnalysisBroken('R-RESP (RST any type): %s() not found' % helper)
    f = P.func(helper)
    B = f['B']
    n = 0
    for b, ev in P.events(f):
        if not any(isinstance(t, dict) and t.get('k') == 'call' and t.get('fn') == sender for t in walk(ev['e'])):
            continue
        n += 1
        run.instance('R-RESP', '%s: emission at %s' % (helper, ev['loc'].rsplit(':', 1)[-1]))
        bad = None
        for (cb, idx) in transitive_control_deps(f, b['id']):
            c = (B[cb].get('term') or {}).get('cond')
            if c is not None and any(isinstance(y, dict) and y.get('k') == 'mem' and y.get('f') == 'type' and isinstance(strip(y.get('b')), dict) and 'pi' in strip(y['b']) for y in walk(c)):
                bad = c
        run.oblige('R-RESP', bad is None, '%s:emission-independent-of-type' % helper)
        if bad is not None:
            run.violation('R-RESP', helper, ev['loc'], 'typed-helper-emits-by-request-type',
                          'the helper that emits Reset (and ACK) messages only transmits under `%s`: a Reset in answer to a Non-confirmable message - the FAIL verdict of a '
                          'response handler, an unknown critical option - is silently not sent' % short(bad)[:60])
        break
    run.require_count(n >= 1 or run.fixture_mode, 'R-RESP (RST any type): %s() does not call %s()' % (helper, sender))


# ---------------------------------------------------------------------------------------------------------------- C03
def run_marker_whole_byte(run, P, macro='COAP_PAYLOAD_START', units=('coap_pdu.c', 'coap_option.c')):
    """R-CODEC-TAB (12): the payload marker is recognised by comparing a whole byte with 0xFF.  Every constant in a comparison of the decoding units
    that was written with COAP_PAYLOAD_START has the macro's own value: a folded `COAP_PAYLOAD_START >> 4` (15) compared with a shifted byte takes
    every byte 0xF0..0xFE for the marker, so a reserved option delta nibble is accepted and the rest handed out as payload."""
    run.rule('R-CODEC-TAB')
    want = P.const_named(macro)
    n = 0
    for f in sorted(P.lib_funcs(), key=lambda f: f['name']):
        if f['unit'] not in units:
            continue
        for b in f['blocks']:
            c = (b.get('term') or {}).get('cond')
            if c is None:
                continue
            for y in walk(c):
                if isinstance(y, dict) and y.get('k') == 'int' and (y.get('mn') == macro or y.get('en') == macro):
                    n += 1
                    v = const_int(y)
                    run.instance('R-CODEC-TAB', '%s: comparison with %s' % (f['name'], macro))
                    ok = v == want
                    run.oblige('R-CODEC-TAB', ok, '%s:marker-whole-byte' % f['name'])
                    if not ok:
                        run.violation('R-CODEC-TAB', f['name'], (b.get('term') or {}).get('loc') or f['loc'], 'marker-compared-in-part',
                                      'a condition compares with a constant derived from %s that folds to %d, not 0x%X: only part of the byte is compared, so other bytes '
                                      '(0xF0..0xFE: the reserved delta nibble) are taken for the payload marker' % (macro, v, want))
    run.require_count(n >= (2 if run.cfg == 'base' else 1) or run.fixture_mode, 'R-CODEC-TAB (12): fewer than 2 comparisons with %s in the decoding units' % macro)


# ---------------------------------------------------------------------------------------------------------------- C06
def run_unlink_before_callout(run, P, inserter='coap_insert_node', node_rec='coap_queue_t'):
    """R-OWN-NODE (unlinked before anything can insert): a loop that removes a node from the send queue through a predecessor pointer
    (`*p = q->next`) unlinks it BEFORE it calls anything that can insert into that queue (computed: call closure reaches coap_insert_node -
    coap_session_connected() releases a held Confirmable through coap_wait_ack()).  An insertion made while the doomed node is still linked
    can land in front of it; the late unlink then cuts the new node out as well: it is sent once, never retransmitted, never reported."""
    from rules.r_sizefill import natural_loops
    run.rule('R-OWN-NODE')
    cg = P.callgraph()
    ins = {inserter}
    changed = True
    while changed:
        changed = False
        for fn, cs in cg.items():
            if fn not in ins and cs & ins:
                ins.add(fn)
                changed = True
    n = 0
    for f in sorted(P.lib_funcs(), key=lambda f: f['name']):
        unl = []
        for b, ev in P.events(f):
            t = ev['e']
            if t.get('k') == 'asg' and t.get('op') == '=' and ev.get('top'):
                l, r = strip(t['l']), strip(t['r'])
                if isinstance(l, dict) and l.get('k') == 'un' and l.get('op') == '*' and isinstance(r, dict) and r.get('k') == 'mem' and r.get('f') == 'next' and r.get('rec') == node_rec:
                    unl.append((b['id'], ev))
        if not unl:
            continue
        try:
            loops = natural_loops(f)
        except KeyError:
            continue
        name = f['name']
        B = f['B']
        for ub, uev in unl:
            body = None
            for h, bd in loops.items():
                if ub in bd and (body is None or len(bd) < len(body[1])):
                    body = (h, bd)
            if body is None:
                continue
            h, bd = body
            n += 1
            run.instance('R-OWN-NODE', '%s: unlink through a predecessor pointer at %s' % (name, uev['loc'].rsplit(':', 1)[-1]))
            bad = None
            for bid in bd:
                for i, ev in enumerate(B[bid]['elems']):
                    for t in walk(ev['e']):
                        if isinstance(t, dict) and t.get('k') == 'call' and t.get('fn') in ins:
                            # does the unlink come after this call within one iteration (no pass through the header)?
                            if bid == ub:
                                ui = [k for k, e in enumerate(B[bid]['elems']) if e is uev][0]
                                if i < ui:
                                    bad = (ev, t['fn'])
                                continue
                            seen, work = set(), [s_ for s_ in succs(B[bid]) if s_ in bd and s_ != h]
                            while work:
                                x = work.pop()
                                if x in seen:
                                    continue
                                seen.add(x)
                                work.extend(s_ for s_ in succs(B[x]) if s_ in bd and s_ != h)
                            if ub in seen:
                                bad = (ev, t['fn'])
            run.oblige('R-OWN-NODE', bad is None, '%s:unlink-before-insert' % name)
            if bad:
                run.violation('R-OWN-NODE', name, uev['loc'], 'unlinked-after-possible-insert:%s' % bad[1],
                              'the node is unlinked through the predecessor pointer only after %s() was called (%s), which can insert a node into the same queue: an entry linked in '
                              'front of the doomed node in between is cut out with it - transmitted once, never retransmitted, never reported' % (bad[1], bad[0]['loc'].rsplit('/', 1)[-1]))
    run.require_count(n >= 1 or run.cfg != 'base' or run.fixture_mode, 'R-OWN-NODE (unlink before call-out): no unlink through a predecessor pointer found')


# ---------------------------------------------------------------------------------------------------------------- C14
def run_rekey_complete(run, P, derive='oscore_build_key', updater='oscore_update_ctx'):
    """R-OSC-ROLE (re-keying derives everything again): the fields of the security context that are derived with oscore_build_key() are computed
    from the library as a whole (every field name that is assigned from that call anywhere: sender_key, recipient_key, common_iv).  The function
    that moves a context to a new ID Context (oscore_update_ctx, Appendix B.2) assigns each of them from a new derivation: a context that
    advertises the new ID Context but keeps the Common IV of the old one protects messages no other RFC 8613 implementation can open."""
    run.rule('R-OSC-ROLE')
    if not P.has(updater):
        raise AnalysisBroken('R-OSC-ROLE (re-keying): %s() not found' % updater)

    def derived(f):
        out = {}
        for b, ev in P.events(f):
            t = ev['e']
            if t.get('k') == 'asg' and t.get('op') == '=':
                l = strip(t['l'])
                if isinstance(l, dict) and l.get('k') == 'mem' and any(isinstance(y, dict) and y.get('k') == 'call' and y.get('fn') == derive for y in walk(t['r'])):
                    out[l['f']] = ev['loc']
            # a temporary that receives the derivation and is stored into the field afterwards
        tmp = {}
        for b, ev in P.events(f):
            t = ev['e']
            if t.get('k') == 'asg' and t.get('op') == '=' and ap(t['l']) and isinstance(strip(t['l']), dict) and strip(t['l']).get('k') == 'var' \
                    and any(isinstance(y, dict) and y.get('k') == 'call' and y.get('fn') == derive for y in walk(t['r'])):
                tmp[ap(t['l'])] = 1
        for b, ev in P.events(f):
            t = ev['e']
            if t.get('k') == 'asg' and t.get('op') == '=' and ap(t['r']) in tmp:
                l = strip(t['l'])
                if isinstance(l, dict) and l.get('k') == 'mem':
                    out[l['f']] = ev['loc']
        return out
    allf = {}
    for f in P.lib_funcs():
        if f['name'] != updater:
            allf.update(derived(f))
    upd = derived(P.func(updater))
    if len(allf) < 2:
        raise AnalysisBroken('R-OSC-ROLE (re-keying): fewer than 2 derived fields found in the library')
    for fld in sorted(allf):
        run.instance('R-OSC-ROLE', '%s derives ->%s again' % (updater, fld))
        ok = fld in upd
        run.oblige('R-OSC-ROLE', ok, '%s:rederives:%s' % (updater, fld))
        if not ok:
            run.violation('R-OSC-ROLE', updater, P.func(updater)['loc'], 'derived-field-not-rederived:%s' % fld,
                          '->%s is derived with %s() when a context is built (%s) but %s(), which moves the context to a new ID Context, does not derive it again: the context '
                          'keeps a value that belongs to the old ID Context' % (fld, derive, allf[fld].rsplit('/', 1)[-1], updater))


# ---------------------------------------------------------------------------------------------------------------- C19
def run_sibling_deadline_tests(run, P):
    """R-TIMER-REC (sibling deadline tests agree): where one function compares a deadline variable with `now` at several places (the client-
    session loop and the server-session loop of coap_io_prepare_io_lkd() both ask whether the (D)TLS retransmission timer is due), the
    comparisons - brought into the form `deadline OP now` - use the same operator.  coap_dtls_get_timeout() returns exactly `now` for a
    timer that is due: `<` where the sibling says `<=` never fires, the lost handshake flight is never retransmitted and the handshake never
    abandoned (queued Confirmables get no NACK)."""
    run.rule('R-TIMER-REC')
    SW = {'<': '>', '>': '<', '<=': '>=', '>=': '<='}
    n = 0
    for f in sorted(P.lib_funcs(), key=lambda f: f['name']):
        groups = collections.defaultdict(list)
        for b in f['blocks']:
            c = strip((b.get('term') or {}).get('cond'))
            if not (isinstance(c, dict) and c.get('k') == 'bin' and c.get('op') in SW):
                continue
            l, r = strip(c['l']), strip(c['r'])
            if not (isinstance(l, dict) and isinstance(r, dict) and l.get('k') == 'var' and r.get('k') == 'var'):
                continue
            if r.get('n') == 'now':
                groups[l.get('n')].append((c['op'], b))
            elif l.get('n') == 'now':
                groups[r.get('n')].append((SW[c['op']], b))
        for var, occ in sorted(groups.items()):
            if len(occ) < 2:
                continue
            n += 1
            run.instance('R-TIMER-REC', '%s: %d tests of %s against now' % (f['name'], len(occ), var))
            ops = collections.Counter(o for o, _b in occ)
            ok = len(ops) == 1
            run.oblige('R-TIMER-REC', ok, '%s:%s:sibling-deadline-tests' % (f['name'], var))
            if not ok:
                desc = ', '.join('`%s %s now` at line %s' % (var, o, ((b_.get('term') or {}).get('loc') or '?').rsplit(':', 1)[-1]) for o, b_ in occ)
                run.violation('R-TIMER-REC', f['name'], (occ[0][1].get('term') or {}).get('loc') or f['loc'], 'deadline-tests-disagree:%s' % var,
                              'the tests of the deadline %s against now in this function disagree (%s): one of them treats a timer that is due exactly now differently, so on '
                              'one route it never fires (or fires a tick early)' % (var, desc))
    run.require_count(n >= 1 or run.cfg != 'base' or run.fixture_mode, 'R-TIMER-REC (sibling deadline tests): no deadline compared twice with now in one function')


# ---------------------------------------------------------------------------------------------------------------- C05 / C03
def run_short_unit_parsed(run, P, fname='coap_read_session', parse='coap_pdu_parse', ws_min=2):
    """R-PARSE-GATE (a complete message is not dropped for being short): the WebSocket layer hands the session reader one complete CoAP message.
    On the paths that know the protocol to be WS / WSS, the byte count reaching coap_pdu_parse() has a lower bound of at most 2 - the size of the
    CoAP-over-WebSockets header (RFC 8323 section 4: Len = 0 | TKL, code), i.e. of the smallest well-formed message (an option-less Ping, Pong,
    Release, Empty).  A larger bound drops those messages silently: neither parsed nor reported as a bad packet."""
    run.rule('R-PARSE-GATE')
    if not P.has(fname):
        raise AnalysisBroken('R-PARSE-GATE (short unit): %s() not found' % fname)
    f = P.func(fname)
    ws = (P.const_named('COAP_PROTO_WS'), P.const_named('COAP_PROTO_WSS'))
    sites = [ev for b, ev in P.events(f) if ev['e'].get('k') == 'call' and ev['e'].get('fn') == parse and len(ev['e'].get('a') or ()) >= 3]
    if not sites:
        raise AnalysisBroken('R-PARSE-GATE (short unit): %s() does not call %s()' % (fname, parse))
    judged = [0]
    rep = set()

    def on_event(ev, env, ctx):
        if not any(ev is s_ for s_ in sites):
            return None
        t = ev['e']
        if not env.ts.get('ws'):
            return None
        judged[0] += 1
        la = ap(t['a'][2])
        llo = env.intf(la)[0] if la else -INF
        ok = llo <= ws_min
        run.oblige('R-PARSE-GATE', ok, '%s:short-ws-message-parsed' % fname)
        if not ok and ev['loc'] not in rep:
            rep.add(ev['loc'])
            run.violation('R-PARSE-GATE', fname, ev['loc'], 'short-ws-message-dropped',
                          'on the WebSocket path the parser is only reached with a byte count of at least %s: a complete %d byte CoAP-over-WebSockets message (an option-less '
                          'Ping / Pong / Release / Empty) is dropped without being parsed or reported' % (llo, ws_min), ctx.path())
        return None
    def on_branch(b, s_, env, ctx):
        # the protocol test is remembered in the typestate: the read call in between is handed the session and forgets its fields
        c = strip((b.get('term') or {}).get('cond'))
        if isinstance(c, dict) and c.get('k') == 'bin' and c.get('op') == '==' and len(b['succ']) == 2 and s_ == b['succ'][0]:
            for x, y in ((c['l'], c['r']), (c['r'], c['l'])):
                sx = strip(x)
                if isinstance(sx, dict) and sx.get('k') == 'mem' and sx.get('f') == 'proto' and const_int(y) in ws:
                    e = env.copy()
                    e.ts['ws'] = 1
                    return e
        return env
    run.instance('R-PARSE-GATE', '%s: lower bound of the byte count handed to %s() on the WS path' % (fname, parse))
    solve(f, Env(), on_event, None, None, None, key_fn=lambda e: (e.ts.get('ws'),), on_branch=on_branch, max_envs=768)
    run.require_count(judged[0] >= 1 or run.cfg != 'base' or run.fixture_mode, 'R-PARSE-GATE (short unit): no call of %s() on a path that knows the protocol to be WS / WSS' % parse)


# ================================================================================================================ batch 14
def run_token_skip_agrees(run, P, units=('coap_pdu.c',)):
    """R-CODEC-TAB (13): where one basic block describes a string both by its length `X.length = E - K` and its start `X.s = &B[K']` (the
    extended-token arms of the header parser: the K length-extension bytes sit in front of the token), K == K'.  A start one byte early
    hands out the last extension byte as first token byte and drops the last token byte."""
    run.rule('R-CODEC-TAB')
    n = 0
    for f in sorted(P.lib_funcs(), key=lambda f: f['name']):
        if f['unit'] not in units:
            continue
        for b in f['blocks']:
            lens, starts = {}, {}
            for ev in b['elems']:
                t = ev['e']
                if not (t.get('k') == 'asg' and t.get('op') == '=' and ev.get('top')):
                    continue
                l, r = strip(t['l']), strip(t['r'])
                if isinstance(l, dict) and l.get('k') == 'mem' and ap(l.get('b')):
                    if l['f'] == 'length' and isinstance(r, dict) and r.get('k') == 'bin' and r.get('op') == '-' and const_int(r['r']) is not None:
                        lens[ap(l['b'])] = (const_int(r['r']), ev)
                    if l['f'] == 's' and isinstance(r, dict) and r.get('k') == 'un' and r.get('op') == '&':
                        s_ = strip(r['e'])
                        if isinstance(s_, dict) and s_.get('k') == 'sub' and const_int(s_['i']) is not None:
                            starts[ap(l['b'])] = (const_int(s_['i']), ev)
            for x in set(lens) & set(starts):
                n += 1
                run.instance('R-CODEC-TAB', '%s: %s skips %d bytes' % (f['name'], x, lens[x][0]))
                ok = lens[x][0] == starts[x][0]
                run.oblige('R-CODEC-TAB', ok, '%s:token-skip-agrees' % f['name'])
                if not ok:
                    run.violation('R-CODEC-TAB', f['name'], starts[x][1]['loc'], 'string-start-vs-length:%d:%d' % (starts[x][0], lens[x][0]),
                                  'the string is said to be %d bytes shorter than the encoded field but to start %d bytes into it: the bytes reported are not the ones on the wire'
                                  % (lens[x][0], starts[x][0]))
    run.require_count(n >= (2 if run.cfg == 'base' else 1) or run.fixture_mode, 'R-CODEC-TAB (13): fewer than 2 (length, start) pairs found in the header parser')


def run_min_update(run, P):
    """R-TIMER-REC (a minimum is updated with what was compared): library-wide, a branch `A < T` (or `T > A`) whose true arm begins with
    `T = C` assigns C == A - the running-minimum idiom of the timeout computations (`if (timeout == 0 || s_timeout < timeout) timeout =
    s_timeout;`).  Assigning something else (the full idle period instead of the time left) RAISES the wait the library reports to its caller
    above the earliest deadline whenever the branch is taken."""
    from core.prog import key
    run.rule('R-TIMER-REC')
    n = 0
    for f in sorted(P.lib_funcs(), key=lambda f: f['name']):
        B = f['B']
        for b in f['blocks']:
            c = strip((b.get('term') or {}).get('cond'))
            if not (isinstance(c, dict) and c.get('k') == 'bin' and c.get('op') in ('<', '>', '<=', '>=') and len(b['succ']) == 2 and b['succ'][0] is not None):
                continue
            a, t_ = (c['l'], c['r']) if c['op'] in ('<', '<=') else (c['r'], c['l'])
            if not (ap(t_) and isinstance(strip(t_), dict) and strip(t_).get('k') == 'var' and key(a) and const_int(a) is None):
                continue
            tb = B[b['succ'][0]]
            tops = [ev for ev in tb['elems'] if ev.get('top')]
            if not tops:
                continue
            first = tops[0]['e']
            if not (first.get('k') == 'asg' and first.get('op') == '=' and ap(first['l']) == ap(t_)):
                continue
            if const_int(first['r']) is not None:
                continue
            n += 1
            ok = key(first['r']) == key(a)
            run.instance('R-TIMER-REC', '%s: running minimum %s' % (f['name'], short(t_)))
            run.oblige('R-TIMER-REC', ok, '%s:min-update' % f['name'])
            if not ok:
                run.violation('R-TIMER-REC', f['name'], tops[0]['loc'], 'min-update-assigns-other:%s' % short(t_),
                              'under `%s` the running minimum %s is set to %s, not to the value it was compared with: whenever this arm is taken the result is not the '
                              'minimum any more (a wait reported to the caller overshoots the earliest deadline)' % (short(c)[:50], short(t_), short(first['r'])[:40]))
    run.require_count(n >= (3 if run.cfg == 'base' else 1) or run.fixture_mode, 'R-TIMER-REC (min update): fewer than 3 running-minimum updates found')


def run_counter_decrement(run, P, field='con_active'):
    """R-CNT-CON (l): `con_active--` is executed only where the counter is known non-zero (a test of the counter on the path).  The field is
    unsigned and 8 bits wide: an unguarded decrement at 0 wraps to 255, every later Confirmable of the session is parked for ever and the
    retransmission that hits it moves its own node into the delay queue - no response, no NACK."""
    run.rule('R-CNT-CON')
    n = 0
    for f in sorted(P.lib_funcs(), key=lambda f: f['name']):
        sites = [ev for b, ev in P.events(f) if ev['e'].get('k') == 'un' and ev['e'].get('op') == '--' and (ap(ev['e'].get('e')) or '').endswith('->' + field)]
        if not sites:
            continue
        name = f['name']
        aps_ = set(ap(ev['e']['e']) for ev in sites)
        rep = set()

        def on_event(ev, env, ctx):
            for s_ in sites:
                if ev is s_:
                    a = ap(ev['e']['e'])
                    lo, hi, ex = env.intf(a)
                    ok = lo >= 1 or 0 in ex
                    run.oblige('R-CNT-CON', ok, '%s:decrement-guarded' % name)
                    if not ok and ev['loc'] not in rep:
                        rep.add(ev['loc'])
                        run.violation('R-CNT-CON', name, ev['loc'], 'decrement-may-wrap',
                                      '%s-- on a path that does not know the counter non-zero: at 0 the 8-bit unsigned count wraps to 255 and every Confirmable of the session is '
                                      'held back for ever' % short(ev['e']['e']), ctx.path())
            return None
        for ev in sites:
            n += 1
            run.instance('R-CNT-CON', '%s: guarded decrement at %s' % (name, ev['loc'].rsplit(':', 1)[-1]))
        keys, R = relevance(f, lambda ev: any(ev is s_ for s_ in sites), aps_)
        solve(f, Env(), on_event, None, keys, set(R) | aps_, key_fn=lambda e: tuple(sorted((a, e.intf(a)[0] >= 1 or 0 in e.intf(a)[2]) for a in aps_)), max_envs=512)
    run.require_count(n >= (5 if run.cfg == 'base' else 1) or run.fixture_mode, 'R-CNT-CON (l): fewer than 5 decrements of con_active found')


def run_copy_length_of_own_field(run, P):
    """R-PAIR-ARGS (a field is copied with its own length): `memcpy(X->F, .., n)` into an array field F of a record that also has a field
    `F_length` uses, when n is a `*_length` field of the same object, `X->F_length` - not the length of a sibling (`observe` copied with
    `rtag_length`, still 0 at that point: the saved Observe value stays 00 and a deregistration is replayed as a registration)."""
    run.rule('R-PAIR-ARGS')
    n = 0
    for f in sorted(P.lib_funcs(), key=lambda f: f['name']):
        for b, ev in P.events(f):
            t = ev['e']
            if not (t.get('k') == 'call' and t.get('fn') in ('memcpy', 'memmove') and ev.get('top') and len(t.get('a') or ()) == 3):
                continue
            d = strip(t['a'][0])
            if not (isinstance(d, dict) and d.get('k') == 'mem' and d.get('rec') and ap(d.get('b'))):
                continue
            own = d['f'] + '_length'
            if not P.field(d['rec'], own):
                continue
            lens = [y for y in walk(t['a'][2]) if isinstance(y, dict) and y.get('k') == 'mem' and y.get('f', '').endswith('_length') and ap(y.get('b')) == ap(d['b'])]
            if not lens:
                continue
            n += 1
            run.instance('R-PAIR-ARGS', '%s: %s' % (f['name'], short(t)[:60]))
            bad = [y for y in lens if y['f'] != own]
            run.oblige('R-PAIR-ARGS', not bad, '%s:own-length:%s' % (f['name'], d['f']))
            if bad:
                run.violation('R-PAIR-ARGS', f['name'], ev['loc'], 'field-copied-with-sibling-length:%s:%s' % (d['f'], bad[0]['f']),
                              '->%s is filled with ->%s bytes although the record has ->%s: the field is paired with the length of a sibling' % (d['f'], bad[0]['f'], own))
    run.require_count(n >= (2 if run.cfg == 'base' else 1) or run.fixture_mode, 'R-PAIR-ARGS (own length): fewer than 2 copies into a field with its own length field found')


def run_store_then_zeroed(run, P):
    """R-LOST-STORE (stored, then zeroed): within one basic block, a field store `X->f = v` is not followed by `memset(X, 0, ..)` of the same
    object: the value is wiped before anybody saw it (`association->is_observe = is_observe;` moved above the memset that initialises the
    new association - every association is then created as a non-Observe one and is released after the first response)."""
    run.rule('R-LOST-STORE')
    n = 0
    for f in sorted(P.lib_funcs(), key=lambda f: f['name']):
        for b in f['blocks']:
            stores = []
            for ev in b['elems']:
                t = ev['e']
                if t.get('k') == 'asg' and t.get('op') == '=' and ev.get('top'):
                    l = strip(t['l'])
                    if isinstance(l, dict) and l.get('k') == 'mem' and l.get('arrow') and ap(l.get('b')) and const_int(t['r']) != 0 and not is_null_const(t['r']):
                        stores.append((ap(l['b']), l['f'], ev))
                if t.get('k') == 'call' and t.get('fn') == 'memset' and ev.get('top') and len(t.get('a') or ()) == 3 and const_int(t['a'][1]) == 0 and ap(t['a'][0]):
                    n += 1
                    for x, fld, sev in stores:
                        if x == ap(t['a'][0]):
                            run.oblige('R-LOST-STORE', False, '%s:%s:store-survives-memset' % (f['name'], fld))
                            run.violation('R-LOST-STORE', f['name'], sev['loc'], 'store-zeroed-by-memset:%s' % fld,
                                          '->%s is assigned and the whole object is then zeroed by memset() (%s) in the same block: the value is lost' % (fld, ev['loc'].rsplit('/', 1)[-1]))
    run.stats['memset_zero_sites'] = n
    return n


def run_in_progress_not_failure(run, P, units=('coap_gnutls.c',), closer='coap_session_disconnected_lkd'):
    """R-ROUTE (in progress is not failure): tri-state functions are computed - static functions of the TLS back end whose returns are exactly
    the constants -1, 0 and 1 (do_gnutls_handshake: failed / not completed yet / established).  A condition that tests such a call directly
    and whose deciding arm disconnects the session is evaluated for the three values: it must separate -1 from 0.  `<= 0` treats the
    'handshake still running' answer that follows every timer-driven retransmission as a failure: one lost datagram aborts a handshake with
    matching credentials."""
    run.rule('R-ROUTE')
    tri = set()
    for f in P.lib_funcs():
        if f['unit'] not in units:
            continue
        vals = set()
        okf = True
        for b, ev in P.events(f):
            t = ev['e']
            if t.get('k') == 'ret' and 'e' in t:
                c = const_int(t['e'])
                if c is None:
                    a = ap(t['e'])
                    if a is None:
                        okf = False
                    else:
                        # a returned local: collect the constants assigned to it
                        for b2, ev2 in P.events(f):
                            t2 = ev2['e']
                            if t2.get('k') == 'asg' and t2.get('op') == '=' and ap(t2['l']) == a:
                                c2 = const_int(t2['r'])
                                if c2 is None:
                                    # the raw library result the function then maps (`ret = gnutls_handshake(..); switch (ret) ..`)
                                    r2 = strip(t2['r'])
                                    if not (isinstance(r2, dict) and r2.get('k') == 'call' and r2.get('fn') and not P.has(r2['fn'])):
                                        okf = False
                                else:
                                    vals.add(c2)
                            if t2.get('k') == 'decl':
                                for d in t2['d']:
                                    if 'v%d' % d['id'] == a and 'init' in d:
                                        c2 = const_int(d['init'])
                                        if c2 is None:
                                            okf = False
                                        else:
                                            vals.add(c2)
                else:
                    vals.add(c)
        if okf and vals == {-1, 0, 1}:
            tri.add(f['name'])
    n = 0
    for f in sorted(P.lib_funcs(), key=lambda f: f['name']):
        if f['unit'] not in units:
            continue
        B = f['B']
        for b in f['blocks']:
            c = strip((b.get('term') or {}).get('cond'))
            if not (isinstance(c, dict) and c.get('k') == 'bin' and c.get('op') in ('<', '<=', '>', '>=', '==', '!=') and len(b['succ']) == 2):
                continue
            call, K, swap = None, None, False
            for x, y, sw in ((c['l'], c['r'], False), (c['r'], c['l'], True)):
                sx = strip(x)
                if isinstance(sx, dict) and sx.get('k') == 'call' and sx.get('fn') in tri and const_int(y) is not None:
                    call, K, swap = sx, const_int(y), sw
            if call is None:
                continue
            n += 1

            def ev_(v):
                a, b_ = (K, v) if swap else (v, K)
                return {'<': a < b_, '<=': a <= b_, '>': a > b_, '>=': a >= b_, '==': a == b_, '!=': a != b_}[c['op']]
            r = [ev_(-1), ev_(0), ev_(1)]
            run.instance('R-ROUTE', '%s: test of %s()' % (f['name'], call['fn']))
            merged = r[0] == r[1] and r[1] != r[2]
            bad = False
            if merged:
                arm = 0 if r[0] else 1
                for bb in f['blocks']:
                    deps = transitive_control_deps(f, bb['id'])
                    if (b['id'], arm) in deps and any(isinstance(t, dict) and t.get('k') == 'call' and t.get('fn') == closer for ev in bb['elems'] for t in walk(ev['e'])):
                        bad = True
            run.oblige('R-ROUTE', not bad, '%s:in-progress-not-failure' % f['name'])
            if bad:
                run.violation('R-ROUTE', f['name'], (b.get('term') or {}).get('loc') or f['loc'], 'in-progress-treated-as-failure:%s' % call['fn'],
                              '`%s` is true for -1 (failed) AND for 0 (not completed yet) and leads to %s(): a handshake that is merely still running - the normal answer after a '
                              'retransmission timer - is torn down' % (short(c)[:60], closer))
    run.require_count(n >= 1 or run.cfg != 'base' or run.fixture_mode, 'R-ROUTE (in progress is not failure): no direct test of a tri-state handshake function found')


def run_one_nack_per_disconnect(run, P, nack='coap_handle_nack', delete='coap_delete_node_lkd'):
    """R-RETRANS (reported in place, then reported again): draining reporters are computed - functions with a loop that both reports
    (coap_handle_nack) and deletes (coap_delete_node_lkd) queue nodes (coap_cancel_session_messages: every Confirmable of the session).  A
    function that reports a node of the send queue IN PLACE (`coap_handle_nack(S, q->pdu, ..)` with q taken from a walk of `->sendqueue` and left
    there) does not go on, on the same path, to call a draining reporter - unless the path knows the reported message not Confirmable: the
    oldest in-flight request would be NACKed twice for one disconnect."""
    from rules.r_sizefill import natural_loops
    run.rule('R-RETRANS')
    drainers = set()
    for f in P.lib_funcs():
        try:
            loops = natural_loops(f)
        except KeyError:
            continue
        for h, body in loops.items():
            calls = set(t.get('fn') for bid in body for ev in f['B'][bid]['elems'] for t in walk(ev['e']) if isinstance(t, dict) and t.get('k') == 'call')
            # ... of the SEND queue: the loop (its conditions or statements) works on `->sendqueue`
            on_sendq = any(isinstance(y, dict) and y.get('k') == 'mem' and y.get('f') == 'sendqueue'
                           for bid in body for it in ([ev['e'] for ev in f['B'][bid]['elems']] + [((f['B'][bid].get('term') or {}).get('cond') or {})]) for y in walk(it))
            if nack in calls and delete in calls and on_sendq:
                drainers.add(f['name'])
    if not drainers:
        raise AnalysisBroken('R-RETRANS (one NACK per disconnect): no draining reporter found')
    CON = P.const_named('COAP_MESSAGE_CON')
    n = 0
    for f in sorted(P.lib_funcs(), key=lambda f: f['name']):
        if f['name'] in drainers:
            continue
        # queue cursors: locals assigned from `X->sendqueue` or from `q->next`
        cursors = set()
        for b, ev in P.events(f):
            t = ev['e']
            if t.get('k') == 'asg' and t.get('op') == '=' and ap(t['l']):
                r = strip(t['r'])
                if isinstance(r, dict) and r.get('k') == 'mem' and r.get('f') == 'sendqueue':
                    cursors.add(ap(t['l']))
        sites = []
        for b, ev in P.events(f):
            t = ev['e']
            if t.get('k') == 'call' and t.get('fn') == nack and len(t.get('a') or ()) >= 2:
                a1 = strip(t['a'][1])
                if isinstance(a1, dict) and a1.get('k') == 'mem' and a1.get('f') == 'pdu' and ap(a1.get('b')) in cursors:
                    sites.append((ev, ap(a1['b'])))
        drains = [ev for b, ev in P.events(f) if ev['e'].get('k') == 'call' and ev['e'].get('fn') in drainers]
        if not sites or not drains:
            continue
        name = f['name']
        n += len(sites)
        run.instance('R-RETRANS', '%s: reports a queued node in place and later calls %s()' % (name, '/'.join(sorted(set(d['e']['fn'] for d in drains)))))
        rep = set()

        def on_event(ev, env, ctx):
            t0 = ev['e']
            if t0.get('k') == 'asg' and t0.get('op') == '=' and ap(t0.get('l')) in cursors and ev.get('top'):
                # the cursor walks the send queue only while its last assignment came from `->sendqueue` / its own `->next`
                q0 = ap(t0['l'])
                r0 = strip(t0['r'])
                from_sq = isinstance(r0, dict) and r0.get('k') == 'mem' and (r0.get('f') == 'sendqueue' or (r0.get('f') == 'next' and ap(r0.get('b')) == q0 and env.ts.get('sq:' + q0)))
                e = apply_generic(ev, env, None).copy()
                if from_sq:
                    e.ts['sq:' + q0] = 1
                else:
                    e.ts.pop('sq:' + q0, None)
                return [e]
            for sev, q in sites:
                if ev is sev:
                    if not env.ts.get('sq:' + q):
                        return None
                    lo, hi, ex = env.intf(q + '->pdu->type')
                    notcon = (CON < lo or CON > hi or CON in ex)
                    if notcon:
                        return None
                    e = apply_generic(ev, env, None).copy()
                    e.ts['inplace'] = ev['loc']
                    return [e]
            if any(ev is d for d in drains) and env.ts.get('inplace'):
                run.oblige('R-RETRANS', False, '%s:one-nack-per-disconnect' % name)
                if ev['loc'] not in rep:
                    rep.add(ev['loc'])
                    run.violation('R-RETRANS', name, ev['loc'], 'reported-in-place-then-drained:%s' % ev['e']['fn'],
                                  'a queued Confirmable was reported to the NACK handler in place (%s) and stays in the send queue; %s() reports every Confirmable of the session '
                                  'again when it removes it: two NACKs for one request' % (env.ts['inplace'].rsplit('/', 1)[-1], ev['e']['fn']), ctx.path())
            return None
        solve(f, Env(), on_event, None, None, None, key_fn=lambda e: (e.ts.get('inplace'),) + tuple(sorted(k for k in e.ts if k.startswith('sq:'))) + tuple(sorted((k, v[0], v[1], tuple(sorted(v[2]))) for k, v in e.ints.items() if k.startswith('v') and '->' not in k)), max_envs=512)
    run.require_count(n >= 1 or run.cfg != 'base' or run.fixture_mode, 'R-RETRANS (one NACK per disconnect): no in-place report followed by a draining reporter found')


def run_delta_inherited(run, P, node_rec='coap_queue_t'):
    """R-TIMER-REC (the successor inherits the delta): the send queue keeps relative times - `node->t` is the distance to the node in front.  Every
    explicit unlink of a queue node through the head or a predecessor (`H = q->next` with H `X->sendqueue`, `p->next` or `*p`, q a coap_queue_t)
    is accompanied on every path to the end of its block... in the same function, after the unlink, by `q->next->t += q->t` (what is behind q keeps
    its deadline), as coap_remove_from_queue() does.  Unlinks of the DELAY queue (absolute order, no times) and expansions of the generic
    LL_DELETE macro are not judged."""
    run.rule('R-TIMER-REC')
    n = 0
    for f in sorted(P.lib_funcs(), key=lambda f: f['name']):
        B = f['B']
        for b, ev in P.events(f):
            t = ev['e']
            if not (t.get('k') == 'asg' and t.get('op') == '=' and ev.get('top')):
                continue
            if any(m.startswith('LL_') for m in (ev.get('mac') or ())):
                continue
            l, r = strip(t['l']), strip(t['r'])
            if not (isinstance(r, dict) and r.get('k') == 'mem' and r.get('f') == 'next' and r.get('rec') == node_rec and ap(r.get('b'))):
                continue
            q = ap(r['b'])
            head = None
            if isinstance(l, dict) and l.get('k') == 'mem' and l.get('f') == 'sendqueue':
                head = 'head'
            elif isinstance(l, dict) and l.get('k') == 'mem' and l.get('f') == 'next' and l.get('rec') == node_rec and ap(l.get('b')) != q:
                head = 'pred'
            elif isinstance(l, dict) and l.get('k') == 'un' and l.get('op') == '*' and isinstance(strip(l.get('e')), dict) and strip(l['e']).get('k') == 'var' and '**' in (strip(l['e']).get('t') or '').replace(' ', ''):
                head = 'indirect'
            if not head:
                continue
            if head != 'head':
                # only in functions that work on the send queue
                if not any(isinstance(y, dict) and y.get('k') == 'mem' and y.get('f') == 'sendqueue' for b2, e2 in P.events(f) for y in walk(e2['e'])) and \
                   not any(isinstance(y, dict) and y.get('k') == 'mem' and y.get('f') == 'sendqueue' for b2 in f['blocks'] for y in walk((b2.get('term') or {}).get('cond') or {})):
                    continue
            # cursor advance `q = q->next` / iteration is not an unlink: the left side must not be the cursor itself
            n += 1
            run.instance('R-TIMER-REC', '%s: unlink (%s) at %s' % (f['name'], head, ev['loc'].rsplit(':', 1)[-1]))
            ok = False
            # the removed node may be named through a local that was assigned from the same expression before (`next = context->sendqueue;`)
            names = {q}
            for b3, e3 in P.events(f):
                t3 = e3['e']
                if t3.get('k') == 'asg' and t3.get('op') == '=' and ap(t3['r']) == q and ap(t3['l']):
                    names.add(ap(t3['l']))
            for bid, evs in _reach_blocks(f, b['id'], ev):
                for e2 in evs:
                    t2 = e2['e']
                    if t2.get('k') == 'asg' and t2.get('op') == '+=':
                        l2 = strip(t2['l'])
                        if isinstance(l2, dict) and l2.get('k') == 'mem' and l2.get('f') == 't' and any(isinstance(y, dict) and y.get('k') == 'mem' and y.get('f') == 't' and ap(y.get('b')) in names for y in walk(t2['r'])):
                            ok = True
            run.oblige('R-TIMER-REC', ok, '%s:delta-inherited' % f['name'])
            if not ok:
                run.violation('R-TIMER-REC', f['name'], ev['loc'], 'unlink-drops-delta:%s' % head,
                              'the node is unlinked from the send queue (%s) and its relative time is not added to its successor anywhere behind the unlink: every node behind it '
                              'fires early by that amount (a retransmission long before T has elapsed)' % short(t)[:50])
    run.require_count(n >= (3 if run.cfg == 'base' else 1) or run.fixture_mode, 'R-TIMER-REC (delta inherited): fewer than 3 explicit unlinks from the send queue found')


# ================================================================================================================ batch 15
RAW_ALLOC = ('coap_malloc_type', 'malloc')


def run_destroy_uninitialised(run, P):
    """R-HOLDER-LEAK (a destructor meets an uninitialised record): a record obtained from a raw allocator (not zeroed) is handed to a function
    that frees one of its fields (summary of R-SHALLOW-ALIAS: paths below the parameter that the callee frees) only after that field was
    assigned, or the record was zeroed, on the path.  `coap_pdu_init()` frees the half-built PDU raw when the buffer allocation fails;
    calling coap_delete_pdu() there frees `pdu->token - max_hdr_size` with `token` never set - an invalid free of whatever the heap held."""
    from rules.r_shallow import frees_summary
    run.rule('R-HOLDER-LEAK')
    FR = frees_summary(P)
    n = 0
    for f in sorted(P.lib_funcs(), key=lambda f: f['name']):
        raws = []
        for b, ev in P.events(f):
            t = ev['e']
            pairs = []
            if t.get('k') == 'asg' and t.get('op') == '=':
                pairs.append((ap(t['l']), strip(t['r'])))
            elif t.get('k') == 'decl':
                for d in t['d']:
                    if 'init' in d:
                        pairs.append(('v%d' % d['id'], strip(d['init'])))
            for a, r in pairs:
                if a and a.startswith('v') and '->' not in a and isinstance(r, dict) and r.get('k') == 'call' and r.get('fn') in RAW_ALLOC:
                    raws.append((ev, a))
        if not raws:
            continue
        rv = set(a for _e, a in raws)
        dcalls = []
        for b, ev in P.events(f):
            t = ev['e']
            if t.get('k') == 'call' and t.get('fn'):
                for i, a in enumerate(t.get('a') or ()):
                    if ap(a) in rv and any(p_ for p_ in FR.get((t['fn'], i), ()) if p_):
                        dcalls.append((ev, ap(a), sorted(p_ for p_ in FR[(t['fn'], i)] if p_)))
        if not dcalls:
            continue
        name = f['name']
        n += len(dcalls)
        run.instance('R-HOLDER-LEAK', '%s: raw record handed to a field-freeing destructor' % name)
        rep = set()

        def is_rule_event(ev):
            return any(ev is r_[0] for r_ in raws) or any(ev is d[0] for d in dcalls)
        keys, R = relevance(f, is_rule_event, rv)

        def on_event(ev, env, ctx):
            t = ev['e']
            for rev, a in raws:
                if ev is rev:
                    e = apply_generic(ev, env, R).copy()
                    e.ts['raw:' + a] = frozenset()
                    return [e]
            if t.get('k') == 'call' and t.get('fn') == 'memset' and t.get('a') and ('raw:' + (ap(t['a'][0]) or '')) in env.ts:
                e = apply_generic(ev, env, R).copy()
                del e.ts['raw:' + ap(t['a'][0])]
                return [e]
            if t.get('k') == 'asg' and t.get('op') == '=' and ap(t.get('l')):
                l = ap(t['l'])
                for a in rv:
                    if ('raw:' + a) in env.ts and (l.startswith(a + '->')):
                        e = apply_generic(ev, env, R).copy()
                        e.ts['raw:' + a] = frozenset(env.ts['raw:' + a] | {l[len(a):]})
                        return [e]
            for dev, a, paths in dcalls:
                if ev is dev and ('raw:' + a) in env.ts and env.nullf(a) != 'Z':
                    missing = [p_ for p_ in paths if not any(p_ == q or p_.startswith(q + '->') or p_.startswith(q + '.') for q in env.ts['raw:' + a])]
                    run.oblige('R-HOLDER-LEAK', not missing, '%s:destructor-on-initialised-record' % name)
                    if missing and ev['loc'] not in rep:
                        rep.add(ev['loc'])
                        run.violation('R-HOLDER-LEAK', name, ev['loc'], 'destructor-frees-unset-field:%s:%s' % (t['fn'], missing[0]),
                                      '%s() frees %s of its argument, but the record comes from a raw allocation and that field was never assigned on this path: an invalid free of '
                                      'whatever the heap block contained' % (t['fn'], ', '.join(missing)[:80]), ctx.path())
            return None
        solve(f, Env(), on_event, None, keys, R, key_fn=lambda e: tuple(sorted((k, tuple(sorted(v))) for k, v in e.ts.items() if k.startswith('raw:'))), max_envs=256)
    run.require_count(n >= (3 if run.cfg == 'base' else 1) or run.fixture_mode, 'R-HOLDER-LEAK (uninitialised record): fewer than 3 raw records handed to field-freeing destructors found')


def run_sockets_nonblocking(run, P, request=0x5421):
    """R-LOCK-WAIT (sockets are non-blocking): every `ioctl(fd, FIONBIO, &V)` that sets up a library socket passes a variable whose only
    definition is a non-zero constant.  The I/O loop collects readiness with the global lock released and reads after taking it again: on a
    socket left in blocking mode a read for a datagram another thread already consumed sleeps for ever while holding the lock."""
    run.rule('R-LOCK-WAIT')
    n = 0
    for f in sorted(P.lib_funcs(), key=lambda f: f['name']):
        for b, ev in P.events(f):
            t = ev['e']
            if not (t.get('k') == 'call' and t.get('fn') == 'ioctl' and len(t.get('a') or ()) >= 3 and const_int(t['a'][1]) == request):
                continue
            a = strip(t['a'][2])
            v = ap(a.get('e')) if isinstance(a, dict) and a.get('k') == 'un' and a.get('op') == '&' else None
            vals = []
            if v:
                for b2, e2 in P.events(f):
                    t2 = e2['e']
                    if t2.get('k') == 'decl':
                        for d in t2['d']:
                            if 'v%d' % d['id'] == v and 'init' in d:
                                vals.append(const_int(d['init']))
                    if t2.get('k') == 'asg' and ap(t2.get('l')) == v:
                        vals.append(const_int(t2['r']) if t2.get('op') == '=' else None)
            n += 1
            run.instance('R-LOCK-WAIT', '%s: ioctl(FIONBIO) at %s' % (f['name'], ev['loc'].rsplit(':', 1)[-1]))
            ok = bool(vals) and all(x is not None and x != 0 for x in vals)
            run.oblige('R-LOCK-WAIT', ok, '%s:socket-nonblocking' % f['name'])
            if not ok:
                run.violation('R-LOCK-WAIT', f['name'], ev['loc'], 'socket-left-blocking',
                              'ioctl(FIONBIO) is handed a value that is not a non-zero constant (%s): the socket stays in blocking mode, and a read made with the global lock held '
                              'can sleep for ever' % vals)
    run.require_count(n >= (3 if run.cfg == 'base' else 1) or run.fixture_mode, 'R-LOCK-WAIT (non-blocking sockets): fewer than 3 ioctl(FIONBIO) calls found')


def run_inserted_detached(run, P, node_rec='coap_queue_t', insert='coap_insert_node'):
    """R-TIMER-REC (an inserted node is detached): coap_insert_node() leaves `node->next` alone when the queue is empty, so a node that comes off
    another queue (`q = X->delayqueue | X->sendqueue | p->next`) is handed to a function through which it reaches coap_insert_node()'s node
    parameter only after `q->next = NULL` on the path.  A stale link makes the tail of the queue it left part of the send queue as well:
    the same nodes are then sent and freed from both."""
    run.rule('R-TIMER-REC')
    # functions whose i-th parameter reaches the node parameter of the inserter
    ins = {(insert, 1)}
    changed = True
    while changed:
        changed = False
        for f in P.lib_funcs():
            ps = ['v%d' % p.get('id') for p in f.get('params', [])]
            for b, ev in P.events(f):
                t = ev['e']
                if t.get('k') != 'call':
                    continue
                for i, a in enumerate(t.get('a') or ()):
                    if (t.get('fn'), i) in ins and ap(a) in ps and (f['name'], ps.index(ap(a))) not in ins:
                        ins.add((f['name'], ps.index(ap(a)))); changed = True
    n = 0
    for f in sorted(P.lib_funcs(), key=lambda f: f['name']):
        B = f['B']
        for b, ev in P.events(f):
            t = ev['e']
            if t.get('k') == 'asg' and ev.get('top') and t.get('op') == '=' and isinstance(strip(t['l']), dict) and strip(t['l']).get('k') == 'var':
                lhs, r = ap(t['l']), strip(t['r'])
            elif t.get('k') == 'decl' and len(t.get('d') or ()) == 1 and t['d'][0].get('init'):
                lhs, r = 'v%d' % t['d'][0].get('id'), strip(t['d'][0]['init'])
            else:
                continue
            if not (lhs and isinstance(r, dict) and r.get('k') == 'mem' and r.get('f') in ('delayqueue', 'sendqueue', 'next')):
                continue
            if r.get('f') == 'next' and r.get('rec') != node_rec:
                continue
            # does the local reach an inserter at all?
            work, seen, bad, used = [(b['id'], ev)], set(), None, False
            while work and not bad:
                bid, after = work.pop()
                evs = B[bid]['elems']
                if after is not None:
                    idx = [i for i, e in enumerate(evs) if e is after]
                    evs = evs[idx[0] + 1:] if idx else evs
                stop = False
                for e2 in evs:
                    t2 = e2['e']
                    if t2.get('k') == 'asg' and t2.get('op') == '=':
                        l2 = strip(t2['l'])
                        if ap(l2) == lhs:
                            stop = True; break          # the local names another node now
                        if isinstance(l2, dict) and l2.get('k') == 'mem' and l2.get('f') == 'next' and ap(l2.get('b')) == lhs and (is_null_const(t2['r']) or const_int(t2['r']) == 0):
                            stop = True; break          # detached
                    if t2.get('k') == 'call':
                        for i, a in enumerate(t2.get('a') or ()):
                            if (t2.get('fn'), i) in ins and ap(a) == lhs:
                                used = True; bad = e2; break
                        if bad:
                            break
                if stop or bad or B[bid].get('noret'):
                    continue
                for s_ in succs(B[bid]):
                    if s_ not in seen:
                        seen.add(s_); work.append((s_, None))
            # an instance only where the local is handed to an inserter somewhere in the function
            handed = any(e2['e'].get('k') == 'call' and any((e2['e'].get('fn'), i) in ins and ap(a) == lhs for i, a in enumerate(e2['e'].get('a') or ()))
                         for b2, e2 in P.events(f))
            if not handed:
                continue
            n += 1
            run.instance('R-TIMER-REC', '%s: node taken from ->%s (%s) and handed to an inserter' % (f['name'], r.get('f'), ev['loc'].rsplit(':', 1)[-1]))
            run.oblige('R-TIMER-REC', not bad, '%s:inserted-detached' % f['name'])
            if bad:
                run.violation('R-TIMER-REC', f['name'], bad['loc'], 'inserted-with-stale-link',
                              'the node comes off a queue (%s) and reaches %s without its `->next = NULL` on the path: %s() keeps node->next when the queue is empty, so the rest of the '
                              'queue the node left is linked into the send queue as well (sent twice, freed twice)' % (short(t)[:50], short(bad['e'])[:50], insert))
    run.require_count(n >= 1 or run.fixture_mode, 'R-TIMER-REC (inserted node detached): no node taken off a queue and handed to coap_insert_node() found')
    return n


def run_error_class_agrees(run, P, deleter='coap_delete_observer', remover='coap_remove_option', obs_opt=6):
    """R-OBS-REPLACE (an error reply ends the registration): where a response is prepared for an observer, the Observe option is taken out of it when its
    class says it is no notification, and the observer is deleted when the class says error.  Over the classes a response can have that are not
    success (4 and 5) the two tests - both comparisons of `code >> 5` with a constant, found as the class tests that control the two calls - agree:
    a client that is told "not registered" (no Observe option in a 5.xx) is not kept on the observer list, and sibling sites agree with one another."""
    import operator
    OPS = {'==': operator.eq, '!=': operator.ne, '>': operator.gt, '>=': operator.ge, '<': operator.lt, '<=': operator.le}
    run.rule('R-OBS-REPLACE')

    def class_test(c):
        c = strip(c)
        if not (isinstance(c, dict) and c.get('k') == 'bin' and c.get('op') in OPS):
            return None
        for x, y, flip in ((c['l'], c['r'], False), (c['r'], c['l'], True)):
            k = const_int(y)
            if k is None:
                continue
            if any(isinstance(z, dict) and z.get('k') == 'bin' and z.get('op') == '>>' and const_int(z['r']) == 5 and
                   any(isinstance(w, dict) and w.get('k') == 'mem' and w.get('f') == 'code' for w in walk(z['l'])) for z in walk(x)):
                op = c['op']
                if flip:
                    op = {'>': '<', '<': '>', '>=': '<=', '<=': '>='}.get(op, op)
                return frozenset(cl for cl in (4, 5) if OPS[op](cl, k))
        return None
    n = 0
    sites = []
    for f in sorted(P.lib_funcs(), key=lambda f: f['name']):
        B = f['B']
        got = {'del': [], 'rem': []}
        for b, ev in P.events(f):
            t = ev['e']
            if t.get('k') != 'call':
                continue
            kind = None
            if t.get('fn') == deleter:
                kind = 'del'
            elif t.get('fn') == remover and len(t.get('a') or ()) == 2 and const_int(t['a'][1]) == obs_opt:
                kind = 'rem'
            if not kind:
                continue
            for (cb, idx) in transitive_control_deps(f, b['id']):
                cs = class_test((B[cb].get('term') or {}).get('cond'))
                if cs is not None:
                    if idx == 1:
                        cs = frozenset((4, 5)) - cs
                    got[kind].append((cs, ev['loc']))
        if got['del'] and got['rem']:
            for cs, loc in got['del']:
                n += 1
                run.instance('R-OBS-REPLACE', '%s: observer deleted for error classes %s' % (f['name'], sorted(cs)))
                want = got['rem'][0][0]
                ok = cs == want
                run.oblige('R-OBS-REPLACE', ok, '%s:error-class-agrees' % f['name'])
                sites.append((f['name'], cs))
                if not ok:
                    run.violation('R-OBS-REPLACE', f['name'], loc, 'error-class-disagrees',
                                  'the Observe option is taken out of a reply of class %s (the client is told it is not registered) but the observer is deleted only for class %s: after a reply of '
                                  'class %s the client stays on the observer list and keeps receiving notifications for a registration it was refused'
                                  % (sorted(want), sorted(cs), sorted(want - cs) or sorted(cs - want)))
    run.require_count(n >= (2 if run.cfg == 'base' else 1) or run.fixture_mode, 'R-OBS-REPLACE (error class): fewer than 2 sites that delete an observer under a response-class test found')
    return n


def run_null_not_wildcard(run, P, units=('coap_block.c',)):
    """R-CMP-BOUND (an absent key component is a value, not a wildcard): in the transfer look-ups a key component that may be absent (a NULL query, an
    absent Request-Tag) is compared with memcmp only when present.  Where a memcmp between two strings is controlled by the non-NULL arms of tests of
    BOTH strings' owners, the NULL arms of those tests do not lead where the EQUAL arm of the memcmp leads: "one side absent" is then a mismatch (or is
    decided by an explicit test), never a match.  Otherwise a transfer without a query answers requests that carry one, and the reverse."""
    run.rule('R-CMP-BOUND')
    n = 0
    for f in sorted(P.lib_funcs(), key=lambda f: f['name']):
        if units and not f['loc'].split(':')[0].endswith(tuple(units)):
            continue
        B = f['B']
        for b in f['blocks']:
            c = strip((b.get('term') or {}).get('cond'))
            if not (isinstance(c, dict) and len(b.get('succ') or ()) == 2):
                continue
            call = None
            eq_arm = None
            if c.get('k') == 'bin' and c.get('op') in ('==', '!=') and const_int(c['r']) == 0 and isinstance(strip(c['l']), dict) and strip(c['l']).get('k') == 'call' and strip(c['l']).get('fn') in ('memcmp', 'strncmp'):
                call = strip(c['l']); eq_arm = b['succ'][0] if c['op'] == '==' else b['succ'][1]
            elif c.get('k') == 'call' and c.get('fn') in ('memcmp', 'strncmp'):
                call = c; eq_arm = b['succ'][1]
            else:
                # a compound condition (the expansion of coap_string_equal / coap_binary_equal): `memcmp(..) == 0` inside, possibly under one `!`
                neg = False
                cc = c
                while isinstance(cc, dict) and cc.get('k') == 'un' and cc.get('op') == '!':
                    cc = strip(cc['e']); neg = not neg
                inner = [y for y in walk(cc) if isinstance(y, dict) and y.get('k') == 'bin' and y.get('op') == '==' and const_int(y['r']) == 0 and
                         isinstance(strip(y['l']), dict) and strip(y['l']).get('k') == 'call' and strip(y['l']).get('fn') in ('memcmp', 'strncmp')]
                nots = [y for y in walk(cc) if isinstance(y, dict) and y.get('k') == 'un' and y.get('op') == '!']
                if len(inner) == 1 and not nots:
                    call = strip(inner[0]['l']); eq_arm = b['succ'][1] if neg else b['succ'][0]
            if not call or len(call.get('a') or ()) != 3:
                continue
            ops = [ap(call['a'][0]), ap(call['a'][1])]
            if not all(ops):
                continue
            deps = transitive_control_deps(f, b['id'])
            tested = {0: [], 1: []}
            for (cb, idx) in deps:
                cc = strip((B[cb].get('term') or {}).get('cond'))
                neg = False
                while isinstance(cc, dict) and cc.get('k') == 'un' and cc.get('op') == '!':
                    cc = strip(cc['e']); neg = not neg
                p = ap(cc) if isinstance(cc, dict) and cc.get('k') in ('var', 'mem') and cc.get('p') else None
                if not p:
                    continue
                nonnull_idx = 1 if neg else 0
                if idx != nonnull_idx:
                    continue
                null_target = B[cb]['succ'][1 - nonnull_idx]
                for i in (0, 1):
                    # the OWNER of the string (`query` for `query->s`), not the byte pointer itself
                    if ops[i].startswith(p + '->') and not ops[1 - i].startswith(p + '->'):
                        tested[i].append((cb, null_target, short(cc)))
            if not (tested[0] and tested[1]):
                continue
            n += 1
            run.instance('R-CMP-BOUND', '%s: memcmp of two optional strings (%s)' % (f['name'], b.get('loc') or short(call)[:40]))
            # follow empty forwarding blocks
            def fwd(i):
                seen = set()
                while i is not None and i not in seen and not B[i]['elems'] and len(B[i].get('succ') or ()) == 1:
                    seen.add(i); i = B[i]['succ'][0]
                return i
            bad = [x for i in (0, 1) for x in tested[i] if fwd(x[1]) == fwd(eq_arm)]
            run.oblige('R-CMP-BOUND', not bad, '%s:absent-is-not-wildcard' % f['name'])
            if bad:
                loc = (B[bad[0][0]].get('term') or {}).get('loc') or f['loc']
                run.violation('R-CMP-BOUND', f['name'], loc, 'absent-component-matches-anything',
                              'the strings compared by %s are compared only when both `%s` are present, and the arm on which one of them is absent continues where the EQUAL arm of the comparison '
                              'continues: an absent component matches any value, so two transfers that differ only in it are taken for the same transfer'
                              % (short(call)[:60], '` and `'.join(sorted(set(x[2] for x in bad)))))
    return n
