"""Clauses added for the twelfth batch of seeded changes (each is wired under its property in props.py; see DESIGN.md section 4)."""
import collections
from core.prog import strip, walk, ap, short, const_int, callee_field, succs, control_deps, transitive_control_deps, is_null_const
from core.psts import Env, solve, relevance, apply_generic, INF
from core.facts import AnalysisBroken


def _reach_blocks(f, frm_block, after_ev=None):
    """(block, events) pairs reachable from an event: the rest of its block, then all successors"""
    B = f['B']
    out = []
    evs = B[frm_block]['elems']
    if after_ev is not None:
        idx = [i for i, e in enumerate(evs) if e is after_ev]
        evs = evs[idx[0] + 1:] if idx else evs
    out.append((frm_block, evs))
    seen, work = set(), list(succs(B[frm_block])) if not B[frm_block].get('noret') else []
    while work:
        i = work.pop()
        if i in seen:
            continue
        seen.add(i)
        out.append((i, B[i]['elems']))
        if not B[i].get('noret'):
            work.extend(succs(B[i]))
    return out


# ---------------------------------------------------------------------------------------------------------------- C06
def run_timeout_drawn(run, P, draw='coap_calc_timeout'):
    """R-RETRANS (T is drawn for datagram Confirmables): the initial retransmission time-out of a queue node is drawn (coap_calc_timeout)
    at more than one place - when a Confirmable is sent at once and when it is parked first.  Every such site lies on a path that knows the
    session's protocol is NOT one of the reliable ones (TCP, TLS, WS, WSS): the sites agree, and a Confirmable parked on a datagram session
    does not come out of the delay queue with time-out 0 (all retransmissions at once, give-up after 0 ms)."""
    run.rule('R-RETRANS')
    rel = [P.const_named(n) for n in ('COAP_PROTO_TCP', 'COAP_PROTO_TLS', 'COAP_PROTO_WS', 'COAP_PROTO_WSS')]
    n = 0
    for f in sorted(P.lib_funcs(), key=lambda f: f['name']):
        # the call event itself (sub-expression events come before the statement that contains them, and before the call's own kill)
        sites = [ev for b, ev in P.events(f) if ev['e'].get('k') == 'call' and ev['e'].get('fn') == draw]
        locs = set()
        sites = [ev for ev in sites if not (ev['loc'] in locs or locs.add(ev['loc']))]
        if not sites or f['name'] == draw:
            continue
        name = f['name']
        seen = set()

        def on_event(ev, env, ctx):
            if not any(ev is s for s in sites) or ev['loc'] in seen:
                return None
            call = ev['e']
            s_ap = ap(call['a'][0]) if call.get('a') else None
            lo, hi, ex = env.intf(s_ap + '->proto') if s_ap else (-INF, INF, frozenset())
            ok = all((v < lo or v > hi or v in ex) for v in rel)
            run.oblige('R-RETRANS', ok, '%s:timeout-drawn-for-datagram' % name)
            if not ok:
                seen.add(ev['loc'])
                run.violation('R-RETRANS', name, ev['loc'], 'timeout-drawn-on-reliable-path',
                              'the retransmission time-out T is drawn here on a path that does not exclude the reliable protocols: the sibling site draws it for datagram '
                              'sessions only, so on one of the two routes a Confirmable over UDP/DTLS is queued with time-out 0 (retransmitted MAX_RETRANSMIT times at once)', ctx.path())
            return None
        for ev in sites:
            n += 1
            run.instance('R-RETRANS', '%s: T drawn at %s' % (name, ev['loc'].rsplit(':', 1)[-1]))
        solve(f, Env(), on_event, None, None, None, key_fn=lambda e: tuple(sorted((k, v[0], v[1], tuple(sorted(v[2]))) for k, v in e.ints.items() if k.endswith('->proto'))), max_envs=512)
    run.require_count(n >= (2 if run.cfg == 'base' else 1) or run.fixture_mode, 'R-RETRANS (T drawn): fewer than 2 sites that draw the retransmission time-out')


# ---------------------------------------------------------------------------------------------------------------- C08
def may_call_out(P, fields):
    """functions whose call closure contains an indirect call through one of the application-callback fields"""
    direct = set()
    for f in P.funcs.values():
        for b, ev in P.events(f):
            for t in walk(ev['e']):
                if isinstance(t, dict) and t.get('k') == 'call' and t.get('fn') is None and callee_field(t) in fields:
                    direct.add(f['name'])
    cg = P.callgraph()
    out = set(direct)
    changed = True
    while changed:
        changed = False
        for n, cs in cg.items():
            if n not in out and cs & out:
                out.add(n)
                changed = True
    return out


def run_no_callout_in_window(run, P, counter='con_active', recount='coap_send_pdu'):
    """R-CNT-CON (k): a function that lowers con_active only to have coap_send_pdu() count the same message again (the retransmission path)
    opens a window in which the session looks one slot freer than it is.  Between that decrement and the call of coap_send_pdu() no
    function is called that can reach an application callback: a Confirmable submitted from the callback would go out as number NSTART+1."""
    from rules.r_lock import APPCB
    run.rule('R-CNT-CON')
    co = may_call_out(P, APPCB)
    n = 0
    for f in sorted(P.lib_funcs(), key=lambda f: f['name']):
        decs = [(b, ev) for b, ev in P.events(f) if ev['e'].get('k') == 'un' and ev['e'].get('op') == '--' and (ap(ev['e'].get('e')) or '').endswith('->' + counter)]
        if not decs:
            continue
        name = f['name']
        for b, dev in decs:
            # the re-counting call is reachable from the decrement
            region = _reach_blocks(f, b['id'], dev)
            calls = []
            hit_recount = False
            for bid, evs in region:
                for ev in evs:
                    for t in walk(ev['e']):
                        if isinstance(t, dict) and t.get('k') == 'call':
                            if t.get('fn') == recount:
                                hit_recount = True
                            calls.append((bid, ev, t))
            if not hit_recount:
                continue
            n += 1
            run.instance('R-CNT-CON', '%s: decrement at %s is compensated by %s()' % (name, dev['loc'].rsplit(':', 1)[-1], recount))
            # blocks from which the re-count is still reachable
            B = f['B']
            can_reach = set()
            for bb in f['blocks']:
                if any(isinstance(t, dict) and t.get('k') == 'call' and t.get('fn') == recount for bid2, evs2 in _reach_blocks(f, bb['id']) for e2 in evs2 for t in walk(e2['e'])):
                    can_reach.add(bb['id'])
            bad = None
            for bid, ev, t in calls:
                if t.get('fn') == recount or bid not in can_reach:
                    continue
                elems = B[bid]['elems']
                me = [i for i, e in enumerate(elems) if e is ev][0]
                rc = [i for i, e in enumerate(elems) if any(isinstance(y, dict) and y.get('k') == 'call' and y.get('fn') == recount for y in walk(e['e']))]
                if rc and me > rc[0]:
                    continue          # behind the re-count in its own block: the window is closed
                fn = t.get('fn')
                if (fn in co) or (fn is None and callee_field(t) in APPCB):
                    bad = (ev, fn or callee_field(t))
                    break
            run.oblige('R-CNT-CON', bad is None, '%s:no-call-out-in-window' % name)
            if bad:
                run.violation('R-CNT-CON', name, bad[0]['loc'], 'callout-between-decrement-and-recount:%s' % bad[1],
                              '%s() can reach an application callback and is called after con_active was lowered (%s) and before %s() counts the message again: inside the '
                              'callback the session looks one slot freer than it is, a Confirmable submitted there goes out as number NSTART+1 and overtakes the held ones'
                              % (bad[1], dev['loc'].rsplit('/', 1)[-1], recount))
    run.require_count(n >= 1 or run.cfg != 'base' or run.fixture_mode, 'R-CNT-CON (k): no compensating decrement in front of coap_send_pdu() found (expected coap_retransmit)')


# ---------------------------------------------------------------------------------------------------------------- C20
def run_literal_length(run, P):
    """R-LIT-LEN: a string literal and the constant that says how many of its bytes are used agree.  (a) a loop `for (i = 0; i < K; i++)`
    whose body reads `"literal"[i]` (the COPY_COND_WITH_OFFSET idiom of the link-format writer): K == strlen(literal) - one more copies the
    terminating NUL into the output (and counts it in the reported length), one less drops a character; (b) memcpy / memcmp / strncmp /
    strncasecmp with a literal and a constant count: count <= strlen(literal) + 1."""
    run.rule('R-LIT-LEN')
    n = 0
    for f in sorted(P.lib_funcs(), key=lambda f: f['name']):
        name = f['name']
        idx = collections.defaultdict(set)      # index variable -> literal lengths it indexes
        where = {}
        for b, ev in P.events(f):
            for t in walk(ev['e']):
                if isinstance(t, dict) and t.get('k') == 'sub':
                    base = strip(t['b'])
                    if isinstance(base, dict) and base.get('k') == 'str' and ap(t['i']) and 'v' in base:
                        idx[ap(t['i'])].add(len(base['v'].encode('utf-8', 'surrogateescape')) if isinstance(base['v'], str) else len(base['v']))
                        where[ap(t['i'])] = (ev['loc'], base['v'])
                if isinstance(t, dict) and t.get('k') == 'call' and t.get('fn') in ('memcpy', 'memcmp', 'strncmp', 'strncasecmp', 'memmove') and len(t.get('a') or ()) == 3:
                    K = const_int(t['a'][2])
                    for a in t['a'][:2]:
                        sa = strip(a)
                        if isinstance(sa, dict) and sa.get('k') == 'str' and 'v' in sa and K is not None and ev.get('top', True):
                            L = len(sa['v'])
                            n += 1
                            run.instance('R-LIT-LEN', '%s: %s("%s", %d)' % (name, t['fn'], sa['v'][:20], K))
                            ok = K <= L + 1
                            run.oblige('R-LIT-LEN', ok, '%s:literal-count' % name)
                            if not ok:
                                run.violation('R-LIT-LEN', name, ev['loc'], 'count-exceeds-literal:%s' % sa['v'][:20],
                                              '%s() is told to use %d bytes of the literal "%s", which has %d (+ the terminator): bytes behind the literal are read' % (t['fn'], K, sa['v'][:30], L))
        if not idx:
            continue
        for b in f['blocks']:
            c = strip((b.get('term') or {}).get('cond'))
            if not (isinstance(c, dict) and c.get('k') == 'bin' and c.get('op') in ('<', '<=', '!=')):
                continue
            i, K = ap(c['l']), const_int(c['r'])
            if i in idx and K is not None and len(idx[i]) == 1:
                L = list(idx[i])[0]
                used = K + (1 if c['op'] == '<=' else 0)
                n += 1
                run.instance('R-LIT-LEN', '%s: %d bytes of "%s"' % (name, used, where[i][1][:20]))
                ok = used == L
                run.oblige('R-LIT-LEN', ok, '%s:loop-over-literal' % name)
                if not ok:
                    run.violation('R-LIT-LEN', name, where[i][0], 'loop-bound-vs-literal:%s' % where[i][1][:20],
                                  'the loop copies %d bytes of the literal "%s", which has %d characters: %s' % (
                                      used, where[i][1][:30], L, 'the terminating NUL (and whatever follows) ends up in the output and in the reported length' if used > L else 'the text is cut short'))
    run.require_count(n >= (3 if run.cfg == 'base' else 1) or run.fixture_mode, 'R-LIT-LEN: fewer than 3 literal / count pairs found')


# ---------------------------------------------------------------------------------------------------------------- C17
def run_observe_codes_agree(run, P, add='coap_add_observer', pdu_arg=3):
    """R-PERSIST (observable methods agree): a subscription is created at two places - when a request arrives (handle_request) and when a
    saved one is restored after a restart (coap_persist_observe_add_lkd).  For each call of coap_add_observer() the request methods that can
    reach it are collected from the equality tests on `->code` of the PDU it is handed (kept in the typestate, so that calls in between do
    not lose them).  All sites admit the same set: a method that can be observed live (FETCH, RFC 8132) but is refused at restore time is an
    observation that does not survive a restart."""
    run.rule('R-PERSIST')
    per_site = {}
    for f in sorted(P.lib_funcs(), key=lambda f: f['name']):
        sites = [ev for b, ev in P.events(f) if ev['e'].get('k') == 'call' and ev['e'].get('fn') == add and len(ev['e'].get('a') or ()) > pdu_arg]
        if not sites or f['name'] == add:
            continue
        name = f['name']
        pdus = set(ap(ev['e']['a'][pdu_arg]) for ev in sites if ap(ev['e']['a'][pdu_arg]))
        if not pdus:
            continue

        def code_test(c):
            c = strip(c)
            if isinstance(c, dict) and c.get('k') == 'bin' and c.get('op') in ('==', '!='):
                for x, y in ((c['l'], c['r']), (c['r'], c['l'])):
                    sx = strip(x)
                    K = const_int(y)
                    if isinstance(sx, dict) and sx.get('k') == 'mem' and sx.get('f') == 'code' and ap(sx.get('b')) in pdus and K is not None and 1 <= K <= 31:
                        return ap(sx['b']), c['op'], K
            return None

        def is_rule_event(ev):
            return any(ev is s for s in sites)
        keys, R = relevance(f, is_rule_event)
        keys = set(keys)
        for b in f['blocks']:
            c = (b.get('term') or {}).get('cond')
            if c is not None and code_test(c):
                keys.add(b['id'])
        got = collections.defaultdict(set)

        def on_branch(b, s, env, ctx):
            ct = code_test((b.get('term') or {}).get('cond'))
            if not ct or len(b['succ']) != 2:
                return env
            p, op, K = ct
            truth = (s == b['succ'][0])
            eq = (op == '==') == truth
            e = env.copy()
            if eq:
                if e.ts.get('is:' + p) not in (None, K) or K in e.ts.get('not:' + p, frozenset()):
                    return None            # contradicts what the path already knows
                e.ts['is:' + p] = K
            else:
                if e.ts.get('is:' + p) == K:
                    return None
                e.ts['not:' + p] = frozenset(e.ts.get('not:' + p, frozenset()) | {K})
            return e

        def on_event(ev, env, ctx):
            for s_ in sites:
                if ev is s_:
                    p = ap(ev['e']['a'][pdu_arg])
                    if env.ts.get('is:' + p) is not None:
                        got[ev['loc']].add(env.ts['is:' + p])
                    else:
                        got[ev['loc']].add(('any-but',) + tuple(sorted(env.ts.get('not:' + p, ()))))
            return None
        solve(f, Env(), on_event, None, keys, R, key_fn=lambda e: tuple(sorted((k, v if not isinstance(v, frozenset) else tuple(sorted(v))) for k, v in e.ts.items())), on_branch=on_branch, max_envs=512)
        for loc, vals in got.items():
            per_site[(name, loc)] = vals
    judged = dict((k, v) for k, v in per_site.items() if v and all(isinstance(x, int) for x in v))
    for (name, loc), v in sorted(per_site.items()):
        run.instance('R-PERSIST', '%s: coap_add_observer() reached with request code in %s' % (name, sorted(v, key=str)))
    if len(judged) >= 2:
        union = set().union(*judged.values())
        for (name, loc), v in sorted(judged.items()):
            ok = v == union
            run.oblige('R-PERSIST', ok, '%s:observable-methods' % name)
            if not ok:
                run.violation('R-PERSIST', name, loc, 'observable-methods-differ:%s' % ','.join(str(x) for x in sorted(union - v)),
                              'this site creates subscriptions for request codes %s only, another site of the library also for %s: an observation registered with that method '
                              'is %s' % (sorted(v), sorted(union - v), 'not re-established after a restart' if 'persist' in name else 'treated differently depending on how it is created'))
    run.require_count(len(judged) >= (2 if run.cfg == 'base' else 0) or run.fixture_mode, 'R-PERSIST (observable methods agree): fewer than 2 sites of coap_add_observer() with a known set of request codes')
