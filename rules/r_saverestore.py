"""R-SAVE-RESTORE (C14): a function that parks a field of a shared object -- saves it in a local (`L = X->f`), overwrites it (`X->f = 0`) for
the duration of some calls and puts it back (`X->f = L`) -- puts it back on EVERY path that overwrote it.  Pairs are computed
library-wide (a local that is assigned from a field and later assigned back to the same field, with another assignment to the field
in between).  build_and_send_error_pdu() switches session->oscore_encryption off while it sends an error reply; a path that leaves
without the restore leaves OSCORE switched off for the session: the next notification goes out in clear."""
from core.prog import strip, walk, ap, short
from core.psts import Env, solve, relevance, apply_generic


def run(run, P):
    run.rule('R-SAVE-RESTORE')
    n = 0
    for f in sorted(P.lib_funcs(), key=lambda f: f['name']):
        saves = {}        # local -> field path
        for b, ev in P.events(f):
            t = ev['e']
            pairs = []
            if t.get('k') == 'decl':
                pairs = [('v%s' % d['id'], d['init']) for d in t['d'] if d.get('init')]
            elif t.get('k') == 'asg' and t.get('op') == '=' and ev.get('top', True) and isinstance(strip(t['l']), dict) and strip(t['l']).get('k') == 'var':
                pairs = [(ap(t['l']), t['r'])]
            for v, r in pairs:
                r0 = strip(r)
                if isinstance(r0, dict) and r0.get('k') == 'mem' and r0.get('arrow') and ap(r0) and not r0.get('p'):
                    saves.setdefault(v, ap(r0))
        if not saves:
            continue
        restores = []
        others = []
        for b, ev in P.events(f):
            t = ev['e']
            if t.get('k') == 'asg' and t.get('op') == '=' and ev.get('top', True):
                l = ap(t['l'])
                r0 = strip(t['r'])
                for v, fp in saves.items():
                    if l == fp:
                        if isinstance(r0, dict) and r0.get('k') == 'var' and ap(r0) == v:
                            restores.append((ev, fp))
                        else:
                            others.append((ev, fp))
        pairs = set(fp for _e, fp in restores) & set(fp for _e, fp in others)
        name = f['name']
        # saved, overwritten, and the saved copy never looked at again: the restore is missing altogether
        for v, fp in sorted(saves.items()):
            if fp in set(x[1] for x in others) and fp not in set(x[1] for x in restores):
                reads = 0
                for b, ev in P.events(f):
                    t = ev['e']
                    part = t['r'] if t.get('k') == 'asg' else t
                    if t.get('k') == 'decl':
                        continue
                    reads += sum(1 for x in walk(part) if isinstance(x, dict) and x.get('k') == 'var' and ap(x) == v)
                for b in f['blocks']:
                    c = (b.get('term') or {}).get('cond')
                    if c is not None:
                        reads += sum(1 for x in walk(c) if isinstance(x, dict) and x.get('k') == 'var' and ap(x) == v)
                if reads == 0:
                    oev = [x[0] for x in others if x[1] == fp][0]
                    n += 1
                    run.oblige('R-SAVE-RESTORE', False, '%s:saved-copy-used' % name)
                    run.violation('R-SAVE-RESTORE', name, oev['loc'], 'parked-field-never-restored',
                                  '%s() saves a field in a local, overwrites the field here and never reads the saved copy again: the restore is missing -- the shared object '
                                  'keeps the temporary value' % name, [])
        if not pairs:
            continue
        restores = [x for x in restores if x[1] in pairs]
        others = [x for x in others if x[1] in pairs]

        def is_rule_event(ev):
            return any(ev is x[0] for x in restores) or any(ev is x[0] for x in others)
        keys, R = relevance(f, is_rule_event)
        rep = set()

        def on_event(ev, env, ctx):
            for oev, fp in others:
                if ev is oev:
                    e = apply_generic(ev, env, R).copy()
                    e.ts['out'] = frozenset(env.ts.get('out', frozenset()) | {(fp, ev['loc'])})
                    return [e]
            for rev, fp in restores:
                if ev is rev and env.ts.get('out'):
                    e = apply_generic(ev, env, R).copy()
                    e.ts['out'] = frozenset(x for x in env.ts['out'] if x[0] != fp)
                    return [e]
            return None

        def on_exit(env, ctx):
            for fp, loc in env.ts.get('out', ()):
                run.oblige('R-SAVE-RESTORE', False, '%s:restored-on-every-path' % name)
                if loc not in rep:
                    rep.add(loc)
                    run.violation('R-SAVE-RESTORE', name, loc, 'parked-field-not-restored',
                                  'the field saved at the start of %s() is overwritten here and the function returns on a path that does not put the saved value back: the '
                                  'shared object keeps the temporary value (OSCORE stays switched off for the session)' % name, ctx.path())
            run.oblige('R-SAVE-RESTORE', not env.ts.get('out'), '%s:exit' % name)
        for fp in sorted(pairs):
            n += 1
            run.instance('R-SAVE-RESTORE', '%s: a parked field is restored on every path that overwrote it' % name)
        solve(f, Env(), on_event, on_exit, keys, R, key_fn=lambda e: e.ts.get('out'))
    run.require_count(n >= 1 or run.fixture_mode or run.cfg != 'base', 'R-SAVE-RESTORE: no save / overwrite / restore of a field found (expected build_and_send_error_pdu)')
    return n
