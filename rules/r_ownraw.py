"""R-OWN-RAW (C12, C18): scratch memory.  A local pointer that receives the result of a raw allocator call (coap_malloc_type / malloc / calloc)
in a function that also frees that local itself (coap_free_type / free applied to the same variable somewhere: the function has taken on
the job of releasing it) is, on EVERY path from the allocation to a return, freed, stored into something that outlives the call (a field, an
out-parameter, a global), returned, or handed to a function that destroys its argument (computed: the must-free destructors of
R-USE-AFTER-DESTROY) or to code outside the library.  Paths on which the local is known NULL carry nothing.  What R-OWN-LOCAL does for the
typed string/binary/optlist objects, this does for untyped work buffers, whose leaks are just as unbounded when the leaking path is one a
peer can choose (an ETag that does not match, ...)."""
from core.prog import strip, walk, ap, short, const_int
from core.psts import Env, solve, relevance, apply_generic

ALLOC = ('coap_malloc_type', 'malloc', 'calloc')
FREE = {'coap_free_type': 1, 'free': 0}
LIBC_BORROW = ('memset', 'memcpy', 'memmove', 'strcpy', 'strcat', 'strncpy', 'snprintf', 'sprintf', 'strlen', 'memcmp', 'strcmp', 'strncmp', 'fread', 'fwrite', 'fgets')


def run(run, P):
    run.rule('R-OWN-RAW')
    from rules.r_uaf import destructors
    D = destructors(P)
    n = 0
    for f in sorted(P.lib_funcs(), key=lambda f: f['name']):
        locs = {}
        for b, ev in P.events(f):
            t = ev['e']
            srcs = []
            if t.get('k') == 'asg' and t.get('op') == '=':
                srcs.append((strip(t['l']), t['r']))
            for d in t.get('d') or ():
                if d.get('init') is not None:
                    srcs.append(({'k': 'var', 'id': d['id'], 'n': d['n']}, d['init']))
            for l, r in srcs:
                r0 = strip(r)
                if isinstance(l, dict) and l.get('k') == 'var' and not l.get('g') and 'pi' not in l and isinstance(r0, dict) and r0.get('k') == 'call' and r0.get('fn') in ALLOC:
                    locs['v%d' % l['id']] = l.get('n')
        if not locs:
            continue

        def freed_var(t):
            if t.get('k') == 'call' and t.get('fn') in FREE and len(t.get('a') or []) > FREE[t['fn']]:
                return ap(t['a'][FREE[t['fn']]])
            return None
        own = set(freed_var(ev['e']) for b, ev in P.events(f)) & set(locs)
        if not own:
            continue
        name = f['name']
        for v in sorted(own):
            n += 1
            run.instance('R-OWN-RAW', '%s: scratch buffer `%s`' % (name, locs[v]))

        def gone(t, v):
            if t.get('k') == 'asg' and t.get('op') == '=' and ap(strip(t['r'])) == v:
                l = strip(t['l'])
                return not (isinstance(l, dict) and l.get('k') == 'var' and not l.get('g'))
            if t.get('k') == 'ret' and t.get('e') is not None and ap(strip(t['e'])) == v:
                return True
            if t.get('k') == 'call' and t.get('fn') not in FREE:
                for i, a in enumerate(t.get('a') or []):
                    if ap(strip(a)) == v:
                        if (t.get('fn'), i) in D:
                            return True
                        if not (t.get('fn') and P.has(t['fn'])) and t.get('fn') not in LIBC_BORROW:
                            return True
            return False

        def allocs(ev):
            t = ev['e']
            out = []
            pairs = [(strip(t['l']), t['r'])] if t.get('k') == 'asg' and t.get('op') == '=' else []
            pairs += [({'k': 'var', 'id': d['id']}, d['init']) for d in (t.get('d') or ()) if d.get('init') is not None]
            for l, r in pairs:
                r0 = strip(r)
                if isinstance(l, dict) and l.get('k') == 'var' and ('v%d' % l['id']) in own and isinstance(r0, dict) and r0.get('k') == 'call' and r0.get('fn') in ALLOC:
                    out.append('v%d' % l['id'])
            return out

        def is_rule_event(ev):
            t = ev['e']
            return bool(allocs(ev)) or freed_var(t) in own or t.get('k') == 'ret' or any(gone(t, v) for v in own)
        keys, R = relevance(f, is_rule_event, own)
        R = set(R) | own

        def on_event(ev, env, ctx):
            t = ev['e']
            st = dict(env.ts.get('o', ()))
            ch = False
            for v in allocs(ev):
                st[v] = ev['loc']
                ch = True
            fv = freed_var(t)
            if fv in st:
                del st[fv]
                ch = True
            for v in list(st):
                if gone(t, v):
                    del st[v]
                    ch = True
            if t.get('k') == 'ret':
                for v, loc in sorted(st.items()):
                    if env.nullf(v) == 'Z':
                        continue
                    run.oblige('R-OWN-RAW', False, '%s:released-on-every-path:%s' % (name, locs[v]))
                    run.violation('R-OWN-RAW', name, ev['loc'], 'scratch-buffer-leaked:%s' % locs[v],
                                  'the function returns here with `%s` (allocated at %s) neither freed nor stored nor handed on -- the other paths of the function free it: '
                                  'every time this path is taken the buffer is lost' % (locs[v], loc.rsplit('/', 1)[-1]), ctx.path())
                if not [v for v in st if env.nullf(v) != 'Z']:
                    run.oblige('R-OWN-RAW', True, '%s:released-on-every-path' % name)
                return None
            if ch:
                e = apply_generic(ev, env, R).copy()
                e.ts['o'] = tuple(sorted(st.items()))
                return [e]
            return None
        solve(f, Env(), on_event, None, keys, R, key_fn=lambda e: (tuple(k for k, v in e.ts.get('o', ())), tuple(e.nullf(v) for v in sorted(own))), max_envs=256)
    run.require_count(n >= (10 if run.cfg == 'base' else 4) or run.fixture_mode, 'R-OWN-RAW: fewer than 10 scratch buffers (raw allocation freed by the allocating function) found')
