"""Linear-ownership engine (shared by R-OWN-PDU, R-OWN-LOCAL, R-OWN-NODE).

Abstract objects are identified by their creation site (or 'param:<i>').  Variables are bound to
objects (ts 'v:<ap>' -> id), objects carry a typestate (ts 'o:<id>'):
   O owned here, must be disposed of before exit        B borrowed (not ours)
   C consumed (freed or handed to a consumer)           E escaped (stored into a structure / out-parameter)
   R returned                                           M maybe consumed (callee with unknown contract)
plus rule-specific states (see spec.extra_states).
Obligations: no exit with a non-NULL object in O (leak), no consume of C (double release), no use of C
(use after release), no overwrite of the last name of a non-NULL O object.
"""
import collections
from core.prog import strip, walk, ap, key, short, const_int, is_null_const, callee_field
from core.psts import Env, solve, relevance, apply_generic, Budget, INF


class Spec:
    rule = 'R-OWN'
    ptypes = ()                 # pointee type names tracked
    creators = {}               # fn -> True
    report_leaks = True

    def is_tracked_type(self, node):
        return isinstance(node, dict) and node.get('p') and (node.get('pt') or '').replace('struct ', '').replace('const ', '') in self.ptypes

    def call_effect(self, fn, idx, call, A):
        """effect of passing a tracked object as argument idx of fn:
        'borrow' | 'consume' | ('consume_if_ret', op, K) | ('consume_if_arg', j, V) | 'maybe' | 'escape'"""
        return 'borrow'

    def param_contract(self, fname, idx):
        """how function fname itself treats its tracked parameter idx (None = plain borrow)"""
        return None


def _retclass_ok(env, call_key, op, K):
    """None unknown / True / False: does the recorded constraint on the call's result satisfy (result op K)?"""
    rc = env.ret.get(call_key)
    if not rc:
        return None
    from core.psts import _ret_consistent
    return _ret_consistent(rc, op, K)


class Own:
    def __init__(self, run, P, spec):
        self.run = run
        self.P = P
        self.F = P.funcs
        self.spec = spec
        self.summ = {}       # (fn, idx) -> 'never' | 'always' | ('ret', op, K) | 'maybe'
        self.steps = 0

    # ------------------------------------------------------------------ static pre-scan
    def tracked_vars(self, f):
        tv = {}
        for p in f['params']:
            if self.spec.is_tracked_type(p):
                tv['v%d' % p['id']] = p['n']
        for b, ev in self.P.events(f):
            t = ev['e']
            if t.get('k') == 'decl':
                for d in t['d']:
                    if self.spec.is_tracked_type(d):
                        tv['v%d' % d['id']] = d['n']
            for y in walk(t):
                if isinstance(y, dict) and y.get('k') == 'var' and not y.get('g') and self.spec.is_tracked_type(y):
                    tv['v%d' % y['id']] = y['n']
        return tv

    def effect(self, fn, idx, call):
        e = self.spec.call_effect(fn, idx, call, self)
        if e is not None:
            return e
        s = self.summ.get((fn, idx))
        if s is None or s == 'never':
            return 'borrow'
        if s == 'always':
            return 'consume'
        if s == 'maybe':
            return 'maybe'
        if s[0] == 'ret':
            return ('consume_if_ret', s[1], s[2])
        return 'maybe'

    # ------------------------------------------------------------------ one function
    def analyze(self, f, report, probe_param=None):
        """probe_param: index of a tracked parameter whose fate is summarised (state B at entry).
        returns list of (state of probed object, return-value class) per exit when probing"""
        spec = self.spec
        run = self.run
        name = f['name']
        tv = self.tracked_vars(f)
        if not tv:
            return []
        rule = spec.rule
        A = self
        exits = []

        def is_rule_event(ev):
            t = ev['e']
            if t.get('k') == 'ret':
                return True
            for y in walk(t):
                if isinstance(y, dict) and y.get('k') == 'var' and ap(y) in tv:
                    return True
                if isinstance(y, dict) and y.get('k') == 'call' and (y.get('fn') in spec.creators or y.get('fn') in getattr(spec, 'event_calls', ())):
                    return True
            return False
        keys, R = relevance(f, is_rule_event, set(tv))
        R = R | set(tv)

        # ---- helpers over env.ts
        def obj_of(env, a):
            return env.ts.get('v:' + a) if a else None

        def st(env, oid):
            return env.ts.get('o:' + oid)

        def names_of(env, oid):
            return [k[2:] for k, v in env.ts.items() if k.startswith('v:') and v == oid]

        def is_null_obj(env, oid):
            return any(env.nullf(a) == 'Z' for a in names_of(env, oid))

        def bind(e, a, oid):
            if oid is None:
                e.ts.pop('v:' + a, None)
            else:
                e.ts['v:' + a] = oid

        def setst(e, oid, s):
            e.ts['o:' + oid] = s

        def label(env, oid):
            ns = names_of(env, oid)
            return '%s (%s)' % (tv.get(ns[0], ns[0]) if ns else '?', oid)

        def rep(kind, ev, env, oid, msg, ctx):
            if not report:
                return
            org = oid.split('@')[0]
            run.violation(rule, name, ev['loc'] if ev else f['loc'], '%s:%s' % (kind, org), msg, ctx.path() if ctx else None)

        def unbind_overwrite(e, env, a, ev, ctx):
            """variable a is about to get a new value"""
            oid = obj_of(env, a)
            if oid is None:
                return
            if len(names_of(env, oid)) == 1 and is_null_obj(env, oid):
                # the variable held NULL: there never was an object
                e.ts.pop('o:' + oid, None)
                bind(e, a, None)
                return
            if st(env, oid) == 'O' and len(names_of(env, oid)) == 1 and not is_null_obj(env, oid) and spec.report_leaks:
                run.oblige(rule, False, '%s:overwrite:%s' % (name, oid.split('@')[0])) if report else None
                rep('overwrite', ev, env, oid, 'the only name of owned object %s is overwritten (leak)' % label(env, oid), ctx)
                setst(e, oid, 'E')
            bind(e, a, None)

        def consume(e, env, a, ev, ctx, how, newstate='C'):
            oid = obj_of(env, a)
            if oid is None:
                return
            if env.nullf(a) == 'Z':
                return
            s = st(env, oid)
            if s == 'T':
                if report:
                    run.oblige(rule, False, '%s:double:%s' % (name, oid.split('@')[0]))
                rep('double-release', ev, env, oid, '%s is released by %s although it was handed to a holder that keeps it (freed while linked)' % (label(env, oid), how), ctx)
                return
            if s == 'C':
                if report:
                    run.oblige(rule, False, '%s:double:%s' % (name, oid.split('@')[0]))
                rep('double-release', ev, env, oid, '%s is released again by %s (already consumed on this path)' % (label(env, oid), how), ctx)
                return
            if s == 'K':
                if report:
                    run.oblige(rule, False, '%s:keep:%s' % (name, oid))
                rep('contract', ev, env, oid, '%s is released by %s although on this path the caller keeps ownership (it will release it again)' % (label(env, oid), how), ctx)
            bad = spec.check_consume(s, how) if hasattr(spec, 'check_consume') else None
            if bad:
                rep('bad-release', ev, env, oid, '%s: %s' % (label(env, oid), bad), ctx)
            setst(e, oid, newstate)

        def use(env, a, ev, ctx, how):
            oid = obj_of(env, a)
            if oid is None or env.nullf(a) == 'Z':
                return
            if st(env, oid) == 'C':
                if report:
                    run.oblige(rule, False, '%s:uaf:%s' % (name, oid.split('@')[0]))
                rep('use-after-release', ev, env, oid, '%s is used (%s) after it was consumed' % (label(env, oid), how), ctx)

        def creator_call(x):
            x = strip(x)
            if isinstance(x, dict) and x.get('k') == 'call' and x.get('fn') in spec.creators:
                return x
            return None

        def assign(ev, env, ctx, tgt_ap, tgt_node, rhs):
            e = apply_generic(ev, env, R)
            if e is env:
                e = env.copy()
            r = strip(rhs)
            if tgt_ap in tv:
                unbind_overwrite(e, env, tgt_ap, ev, ctx)
                c = creator_call(r)
                if c is not None:
                    oid = '%s@%s' % (c['fn'], ev['loc'].rsplit('/', 1)[-1])
                    # the same creation site in a loop: a still-owned earlier instance leaks
                    if st(env, oid) == 'O' and not is_null_obj(env, oid) and names_of(env, oid) in ([], [tgt_ap]) and spec.report_leaks:
                        rep('overwrite', ev, env, oid, 'owned object %s is re-created while the previous instance is still owned (leak)' % oid, ctx)
                    for a in names_of(e, oid):
                        bind(e, a, None)
                    bind(e, tgt_ap, oid)
                    setst(e, oid, 'O')
                    if report:
                        run.instance(rule, '%s: %s = %s()' % (name, tv[tgt_ap], c['fn']))
                    return e
                ra = ap(r) if isinstance(r, dict) else None
                if ra in tv and obj_of(env, ra):
                    bind(e, tgt_ap, obj_of(env, ra))
                    return e
                if isinstance(r, dict) and r.get('k') == 'call' and hasattr(spec, 'call_result'):
                    cr = spec.call_result(r, env, A)
                    if cr:
                        oid = '%s@%s' % (r.get('fn'), ev['loc'].rsplit('/', 1)[-1])
                        bind(e, tgt_ap, oid)
                        setst(e, oid, cr)
                        return e
                return e
            # store of a tracked object somewhere else: escape
            ra = ap(r) if isinstance(r, dict) else None
            if ra in tv and obj_of(env, ra) and tgt_ap is not None and (tgt_ap.startswith(ra + '->') or tgt_ap.startswith(ra + '.')):
                pass        # stored into itself
            elif ra in tv and obj_of(env, ra):
                oid = obj_of(env, ra)
                s = st(env, oid)
                ns = spec.store_effect(tgt_node, s, env, A) if hasattr(spec, 'store_effect') else None
                if ns is None and s in ('O', 'B'):
                    ns = 'E' if s == 'O' else s
                if ns:
                    setst(e, oid, ns)
            elif isinstance(r, dict) and r.get('k') == 'bin' and r.get('op') in ('+', '-'):
                ra = ap(r['l'])
                self_store = ra is not None and tgt_ap is not None and (tgt_ap.startswith(ra + '->') or tgt_ap.startswith(ra + '.'))
                if ra in tv and obj_of(env, ra) and st(env, obj_of(env, ra)) == 'O' and not self_store:
                    setst(e, obj_of(env, ra), 'E')
            return e

        def on_event(ev, env, ctx):
            t = ev['e']
            k = t.get('k')
            if hasattr(spec, 'pre_event'):
                r = spec.pre_event(ev, env, ctx, A, locals_)
                if r is not None:
                    return r
            if k == 'decl':
                e = env
                for d in t['d']:
                    a = 'v%d' % d['id']
                    if a in tv and 'init' not in d:
                        if obj_of(e, a):
                            e0 = e
                            e = e.copy() if e is env else e
                            unbind_overwrite(e, e0, a, ev, ctx)
                        continue
                    if a in tv and 'init' in d:
                        e = assign({'e': {'k': 'asg', 'op': '=', 'l': {'k': 'var', 'id': d['id'], 'n': d['n'], 'p': 1, 'pt': d.get('pt')}, 'r': d['init']}, 'loc': ev['loc']},
                                   e, ctx, a, d, d['init'])
                if e is not env:
                    return [e]
                return None
            if k == 'asg' and t.get('op') == '=':
                tgt = ap(t['l'])
                if tgt is None:
                    return None
                if tgt in tv or (ap(t['r']) in tv) or creator_call(t['r']) or (isinstance(strip(t['r']), dict) and strip(t['r']).get('k') == 'bin'):
                    # result of a conditional consumer assigned to a variable: x = f(..., pdu)
                    return [assign(ev, env, ctx, tgt, strip(t['l']), t['r'])]
                return None
            if k == 'call':
                fn = t.get('fn')
                args = t.get('a', [])
                fnames = [fn] if fn else [c for c in A.P.resolve_call(t) if c in A.F]
                outs = [env]
                changed = False
                for i, arg in enumerate(args):
                    sa = strip(arg)
                    if not isinstance(sa, dict):
                        continue
                    # &var passed: the callee may replace / release it
                    if sa.get('k') == 'un' and sa.get('op') == '&':
                        a = ap(sa['e'])
                        if a in tv:
                            new = []
                            for e0 in outs:
                                oid = obj_of(e0, a)
                                e1 = e0.copy()
                                if oid and st(e0, oid) == 'O':
                                    setst(e1, oid, 'M')
                                bind(e1, a, None)
                                new.append(e1)
                            outs = new
                            changed = True
                        continue
                    a = ap(sa)
                    if a not in tv:
                        continue
                    effs = set()
                    for fnm in (fnames or [None]):
                        effs.add(A.effect(fnm, i, t) if fnm else ('borrow' if not fn and t.get('fpar') and i < len(t['fpar']) and t['fpar'][i].get('pc') else spec.indirect_effect(t, i) if hasattr(spec, 'indirect_effect') else 'borrow'))
                    eff = effs.pop() if len(effs) == 1 else 'maybe'
                    new = []
                    for e0 in outs:
                        oid = obj_of(e0, a)
                        if oid is None:
                            new.append(e0)
                            continue
                        if eff == 'borrow':
                            use(e0, a, ev, ctx, 'argument %d of %s()' % (i + 1, fn or '(indirect)'))
                            new.append(e0)
                        elif eff == 'consume':
                            e1 = e0.copy()
                            consume(e1, e0, a, ev, ctx, '%s()' % fn)
                            new.append(e1)
                            changed = True
                        elif eff in ('maybe', 'escape'):
                            use(e0, a, ev, ctx, 'argument %d of %s()' % (i + 1, fn or '(indirect)'))
                            e1 = e0.copy()
                            if st(e0, oid) == 'O':
                                setst(e1, oid, 'M' if eff == 'maybe' else 'E')
                            new.append(e1)
                            changed = True
                        elif eff[0] == 'consume_if_arg':
                            j, V = eff[1], eff[2]
                            v = const_int(args[j]) if j < len(args) else None
                            if v is None and j < len(args):
                                aj = ap(args[j])
                                if aj:
                                    iv = e0.intf(aj)
                                    if iv[0] == iv[1]:
                                        v = iv[0]
                            if v == V:
                                e1 = e0.copy()
                                consume(e1, e0, a, ev, ctx, '%s()' % fn)
                                new.append(e1)
                            elif v is None:
                                e1 = e0.copy()
                                if st(e0, oid) == 'O':
                                    setst(e1, oid, 'M')
                                new.append(e1)
                            else:
                                use(e0, a, ev, ctx, 'argument %d of %s()' % (i + 1, fn))
                                new.append(e0)
                            changed = True
                        elif eff[0] == 'consume_if_ret':
                            op, K = eff[1], eff[2]
                            ck = key(t)
                            use(e0, a, ev, ctx, 'argument %d of %s()' % (i + 1, fn))
                            if e0.nullf(a) == 'Z' or st(e0, oid) not in ('O', 'B', 'M'):
                                new.append(e0)
                                continue
                            x = e0.copy()
                            consume(x, e0, a, ev, ctx, '%s()' % fn, eff[3] if len(eff) > 3 else 'C')
                            from core.psts import NEG
                            x.ret[ck] = ('eq', K) if op == '==' else ('ne', K)
                            y = e0.copy()
                            y.ret[ck] = ('ne', K) if op == '==' else ('eq', K)
                            new.extend([x, y])
                            changed = True
                    outs = new
                if changed:
                    return [apply_generic(ev, e, R) for e in outs]
                return None
            if k == 'mem' and t.get('arrow'):
                a = ap(t['b'])
                if a in tv:
                    use(env, a, ev, ctx, '->%s' % t['f'])
                return None
            if k == 'ret':
                e = env
                if 'e' in t:
                    r = strip(t['e'])
                    a = ap(r) if isinstance(r, dict) else None
                    if a in tv and obj_of(env, a):
                        oid = obj_of(env, a)
                        if st(env, oid) in ('O', 'M'):
                            e = env.copy()
                            setst(e, oid, 'R')
                        elif st(env, oid) == 'C' and env.nullf(a) != 'Z':
                            rep('use-after-release', ev, env, oid, '%s is returned after it was consumed' % label(env, oid), ctx)
                    # return value class for summaries / contracts
                    rv = None
                    if isinstance(r, dict):
                        K = const_int(r)
                        if K is not None:
                            rv = ('eq', K)
                        elif r.get('k') == 'nullptr':
                            rv = ('eq', 0)
                        elif r.get('k') == 'call':
                            rv = env.ret.get(key(r))
                        elif a:
                            iv = env.intf(a)
                            if iv[0] == iv[1]:
                                rv = ('eq', iv[0])
                            elif iv[2]:
                                rv = ('ne', sorted(iv[2])[0]) if len(iv[2]) == 1 else None
                            n = env.nullf(a)
                            if n == 'Z':
                                rv = ('eq', 0)
                            elif n == 'N':
                                rv = ('ne', 0)
                    if e is env:
                        e = env.copy()
                    e.ts['ret'] = rv if rv else ('?', 0)
                    return [e]
                return None
            return None

        locals_ = {'tv': tv, 'obj_of': obj_of, 'st': st, 'setst': setst, 'bind': bind, 'names_of': names_of,
                   'consume': consume, 'use': use, 'rep': rep, 'label': label, 'is_null_obj': is_null_obj, 'name': name, 'R': R,
                   'report': report}

        def on_exit(env, ctx):
            for k2, s in list(env.ts.items()):
                if not k2.startswith('o:'):
                    continue
                oid = k2[2:]
                if probe_param is not None and oid == 'param:%d' % probe_param:
                    exits.append((s, env.ts.get('ret'), is_null_obj(env, oid)))
                    continue
                if oid.startswith('param:'):
                    # contract of a consuming parameter
                    contract = spec.param_contract(name, int(oid.split(':')[1]))
                    if contract and report:
                        A._check_contract(contract, s, env, oid, f, ctx, is_null_obj(env, oid), rep)
                    continue
                leaked = s == 'O' or (hasattr(spec, 'exit_bad') and spec.exit_bad(s))
                if leaked and not is_null_obj(env, oid) and spec.report_leaks:
                    if report:
                        run.oblige(rule, False, '%s:leak:%s' % (name, oid.split('@')[0]))
                    rep('leak', None, env, oid, '%s created at %s is still owned when the function returns (neither released, stored, handed on nor returned)' % (
                        label(env, oid), oid.split('@')[-1]), ctx)
                elif report:
                    run.oblige(rule, True, '%s:disposed:%s' % (name, oid))

        init = Env()
        inits = [init]
        for i, p in enumerate(f['params']):
            a = 'v%d' % p['id']
            if a not in tv:
                continue
            contract = spec.param_contract(name, i)
            if probe_param == i or contract:
                for e0 in inits:
                    e0.ts['v:' + a] = 'param:%d' % i
                    e0.ts['o:param:%d' % i] = 'O'
                if contract and contract[0] == 'arg' and probe_param != i:
                    # consuming iff another argument has a given value: analyse both cases
                    j, V = contract[1], contract[2]
                    pa = 'v%d' % f['params'][j]['id']
                    R.add(pa)
                    new = []
                    for e0 in inits:
                        x = e0.copy()
                        x.ints[pa] = (V, V, frozenset())
                        y = e0.copy()
                        y.ints[pa] = (-INF, INF, frozenset({V}))
                        y.ts['o:param:%d' % i] = 'K'
                        new += [x, y]
                    inits = new
            elif hasattr(spec, 'param_state'):
                ps = spec.param_state(name, i, p)
                if ps:
                    for e0 in inits:
                        e0.ts['v:' + a] = 'param:%d' % i
                        e0.ts['o:param:%d' % i] = ps

        if hasattr(spec, 'entry_nonnull'):
            for i in spec.entry_nonnull(name):
                if i < len(f['params']):
                    for e0 in inits:
                        e0.null['v%d' % f['params'][i]['id']] = 'N'
                    R.add('v%d' % f['params'][i]['id'])

        def on_branch(b, succ_id, e, ctx):
            """pointer comparison between tracked variables: a fresh object differs from every other pointer"""
            term = b.get('term') or {}
            c = strip(term.get('cond'))
            if not isinstance(c, dict) or c.get('k') != 'bin' or c.get('op') not in ('==', '!='):
                return e
            la, ra = ap(c['l']), ap(c['r'])
            if la not in tv or ra not in tv:
                return e
            ol, orr = obj_of(e, la), obj_of(e, ra)
            same = None
            if ol and orr:
                same = ol == orr
            elif (ol and '@' in ol and st(e, ol) in ('O', 'M')) or (orr and '@' in orr and st(e, orr) in ('O', 'M')):
                same = False
            if same is None:
                return e
            truth = succ_id == b['succ'][0]
            holds = same if c['op'] == '==' else not same
            return e if holds == truth else None

        def key_fn(e):
            items = tuple(sorted((k, v) for k, v in e.ts.items() if k != 'ret'))
            nul = tuple(sorted((k[2:], e.nullf(k[2:])) for k in e.ts if k.startswith('v:')))
            return (items, nul)
        ctx = solve(f, inits, on_event, on_exit, keys, R, key_fn=key_fn, max_envs=768, on_branch=on_branch)
        self.steps += ctx.steps
        return exits

    def _check_contract(self, contract, s, env, oid, f, ctx, isnull, rep):
        run = self.run
        name = f['name']
        rule = self.spec.rule
        rv = env.ts.get('ret')
        consumed = s in ('C', 'E', 'R', 'M', 'T') or (hasattr(self.spec, 'counts_as_consumed') and self.spec.counts_as_consumed(s))
        if isnull:
            return
        if contract[0] == 'arg':
            if s == 'K' or s == 'C' and False:
                return
            contract = 'always' if s != 'K' else None
            if contract is None:
                return
        if contract == 'always':
            ok = consumed
            run.oblige(rule, ok, '%s:contract-always' % name)
            if not ok:
                rep('contract', None, env, oid, 'consuming parameter %s is still owned at a return: %s() promises to consume it on every path, '
                    'its callers will not release it (leak)' % (oid, name), ctx)
        elif contract[0] == 'ret':
            op, K = contract[1], contract[2]
            if rv is None or rv[0] == '?':
                return
            from core.psts import _ret_consistent
            holds = _ret_consistent(rv, op, K)
            if holds is None:
                return
            if holds and not consumed:
                run.oblige(rule, False, '%s:contract-ret' % name)
                rep('contract', None, env, oid, '%s() returns a value meaning "consumed" (%s %s) while parameter %s is still owned: callers will not release it (leak)' % (name, op, K, oid), ctx)
            elif not holds and s in ('C', 'T'):
                run.oblige(rule, False, '%s:contract-ret' % name)
                rep('contract', None, env, oid, '%s() released parameter %s but returns a value meaning "not consumed": callers release it again' % (name, oid), ctx)
            else:
                run.oblige(rule, True, '%s:contract-ret' % name)

    # ------------------------------------------------------------------ summaries
    def summarize(self, candidates):
        """candidates: list of (function name, param idx) with tracked non-const parameters"""
        F = self.F
        for rnd in range(4):
            changed = False
            for (n, i) in candidates:
                if self.spec.call_effect(n, i, None, self) is not None:
                    continue
                try:
                    ex = self.analyze(F[n], report=False, probe_param=i)
                except Budget:
                    s = 'maybe'
                    ex = None
                if ex is not None:
                    ex = [e for e in ex if not e[2]]
                    cons = [e for e in ex if e[0] in ('C', 'E', 'M', 'R', 'T')]
                    keep = [e for e in ex if e[0] in ('B', 'O')]
                    if not cons:
                        s = 'never'
                    elif not keep and all(e[0] in ('C', 'E', 'T') for e in cons):
                        s = 'always'
                    else:
                        s = 'maybe'
                        # correlated with a constant return class?
                        cvals = set(e[1] for e in cons)
                        kvals = set(e[1] for e in keep)
                        if all(e[0] in ('C', 'E', 'T') for e in cons) and len(cvals) == 1 and None not in cvals and list(cvals)[0][0] == 'eq':
                            K = list(cvals)[0][1]
                            if all(v is not None and ((v[0] == 'eq' and v[1] != K) or (v[0] == 'ne' and v[1] == K)) for v in kvals):
                                s = ('ret', '==', K)
                if self.summ.get((n, i)) != s:
                    self.summ[(n, i)] = s
                    changed = True
            if not changed:
                break
