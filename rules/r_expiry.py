"""R-SESS-EVT (expiry orientation) (C19, C12): idle / half-open sessions are removed when they are OLD.

Every branch condition that relates one session's `last_rx_tx` to a tick variable and a time-out (`(S->last_rx_tx + T) < now`,
`now - S->last_rx_tx > T`, ...) is evaluated at two points - an expired session (now = last + 100 T) and a fresh one (now = last + T/10) -
whatever way it is spelled.  The arm that removes the session - it calls coap_session_free(S) or makes S the value of a local that the
function later hands to coap_session_free() - must be the arm the EXPIRED point takes.  An inverted test clears down exactly the
handshakes that are in progress (and keeps the stale ones): a second peer's ClientHello then kills the first peer's handshake.
Conditions where neither arm or both arms remove, or that compare two sessions with each other, are counted and not judged."""
from core.prog import strip, walk, ap, short, const_int, transitive_control_deps, control_deps
from core.facts import AnalysisBroken

RULE = 'R-SESS-EVT'
FREE = 'coap_session_free'
FIELD = 'last_rx_tx'


class Decline(Exception):
    pass


def _ev(t, val):
    t = strip(t)
    if not isinstance(t, dict):
        raise Decline()
    c = const_int(t)
    if c is not None:
        return c
    k = t.get('k')
    if k in ('var', 'mem'):
        return val(t)
    if k == 'cast':
        return _ev(t['e'], val)
    if k == 'bin':
        op = t['op']
        a, b = _ev(t['l'], val), _ev(t['r'], val)
        if op == '+':
            return a + b
        if op == '-':
            return a - b
        if op == '*':
            return a * b
        if op in ('<', '>', '<=', '>=', '==', '!='):
            return int({'<': a < b, '>': a > b, '<=': a <= b, '>=': a >= b, '==': a == b, '!=': a != b}[op])
    if k == 'un' and t.get('op') == '!':
        return int(not _ev(t['e'], val))
    raise Decline()


def run(run, P):
    run.rule(RULE)
    n = judged = 0
    for f in sorted(P.lib_funcs(), key=lambda f: f['name']):
        name = f['name']
        conds = []
        for b in f['blocks']:
            c = (b.get('term') or {}).get('cond')
            if c is None or len([s for s in b['succ'] if s is not None]) < 2:
                continue
            ls = [y for y in walk(c) if isinstance(y, dict) and y.get('k') == 'mem' and y.get('f') == FIELD]
            if not ls or not any(isinstance(y, dict) and y.get('k') == 'bin' and y.get('op') in ('<', '>', '<=', '>=') for y in walk(c)):
                continue
            conds.append((b, c, ls))
        if not conds:
            continue
        dvars = set()
        for b, ev in P.events(f):
            for t in walk(ev['e']):
                if isinstance(t, dict) and t.get('k') == 'call' and t.get('fn') == FREE and t.get('a') and ap(t['a'][0]):
                    dvars.add(ap(t['a'][0]))
        cd = control_deps(f)
        for b, c, ls in conds:
            n += 1
            sess = set(ap(y['b']) for y in ls)
            if len(sess) != 1 or None in sess:
                run.stats['expiry_conditions_not_judged'] += 1
                continue
            S = list(sess)[0]
            nows = [y for y in walk(c) if isinstance(y, dict) and y.get('k') == 'var' and (y.get('n') == 'now' or 'tick' in (y.get('t') or ''))]
            if not nows:
                run.stats['expiry_conditions_not_judged'] += 1
                continue
            now_ap = ap(nows[0])

            def mk(now_off):
                def val(t):
                    if t.get('k') == 'mem' and t.get('f') == FIELD:
                        return 100000
                    if ap(t) == now_ap:
                        return 100000 + now_off
                    return 1000          # every other term is (part of) the time-out
                return val
            try:
                v_exp, v_fresh = _ev(c, mk(100 * 1000 * 1000)), _ev(c, mk(100))
            except Decline:
                run.stats['expiry_conditions_not_judged'] += 1
                continue
            if bool(v_exp) == bool(v_fresh):
                run.stats['expiry_conditions_not_judged'] += 1
                continue
            # which arm removes S ?
            removes = [False, False]
            for bb in f['blocks']:
                deps = transitive_control_deps(f, bb['id'])
                arms = [i for i in (0, 1) if (b['id'], i) in deps and (b['id'], 1 - i) not in deps]
                if not arms:
                    continue
                for ev in bb['elems']:
                    t = ev['e']
                    hit = False
                    if t.get('k') == 'call' and t.get('fn') == FREE and t.get('a') and ap(t['a'][0]) == S:
                        hit = True
                    if t.get('k') == 'asg' and t.get('op') == '=' and ap(t['l']) in dvars and ap(t['r']) == S:
                        hit = True
                    if hit:
                        removes[arms[0]] = True
            if removes[0] == removes[1]:
                run.stats['expiry_conditions_not_judged'] += 1
                continue
            judged += 1
            rem_arm_true = removes[0]                 # successor 0 is the true arm
            ok = bool(v_exp) == rem_arm_true
            loc = (b.get('term') or {}).get('loc') or f['loc']
            run.instance(RULE, '%s: `%s` removes the session on its %s arm' % (name, short(c)[:60], 'true' if rem_arm_true else 'false'))
            run.oblige(RULE, ok, '%s:expiry-orientation' % name)
            if not ok:
                run.violation(RULE, name, loc, 'expiry-test-inverted',
                              '`%s` sends a session whose last traffic is FRESH down the arm that removes it (and keeps one whose last traffic is long ago): half-open '
                              'sessions are cleared down while their handshake is in progress' % short(c)[:90])
    run.stats['expiry_conditions'] = n
    run.require_count(judged >= (2 if run.cfg == 'base' else 0) or run.fixture_mode, 'R-SESS-EVT (expiry orientation): fewer than 2 expiry tests with a removing arm found')


def run_free_candidates(run, P):
    """R-SESS-EVT (only unreferenced sessions are candidates for removal): a local that a function later hands to coap_session_free() (the
    "oldest idle" candidates of the scan in coap_endpoint_get_session()) is assigned from a session S only on paths that know `S->ref == 0`.
    A weaker idle test (`ref == 0 || delayqueue == NULL`) makes a session that an observation or a queued message still refers to the
    candidate: SERVER_SESSION_DEL is raised for a live session, and the limit on idle sessions is applied to busy ones."""
    from core.psts import Env, solve
    run.rule(RULE)
    n = 0
    for f in sorted(P.lib_funcs(), key=lambda f: f['name']):
        dvars = set()
        for b, ev in P.events(f):
            for t in walk(ev['e']):
                if isinstance(t, dict) and t.get('k') == 'call' and t.get('fn') == FREE and t.get('a') and ap(t['a'][0]):
                    dvars.add(ap(t['a'][0]))
        sites = []
        for b, ev in P.events(f):
            t = ev['e']
            if t.get('k') == 'asg' and t.get('op') == '=' and ev.get('top') and ap(t['l']) in dvars:
                r = strip(t['r'])
                # the advance of an iteration macro (`s = rtmp` out of SESSIONS_ITER_SAFE) selects nothing
                if isinstance(r, dict) and r.get('k') == 'var' and ap(r) not in dvars and r.get('prec') == 'coap_session_t' and 'pi' not in r \
                        and not any('ITER' in m for m in (ev.get('mac') or ())):
                    sites.append(ev)
        if not sites:
            continue
        name = f['name']
        rep = set()

        def on_event(ev, env, ctx):
            for s_ in sites:
                if ev is s_:
                    src = ap(ev['e']['r'])
                    lo, hi, ex = env.intf(src + '->ref')
                    ok = lo == 0 and hi == 0
                    run.oblige(RULE, ok, '%s:candidate-unreferenced' % name)
                    if not ok and ev['loc'] not in rep:
                        rep.add(ev['loc'])
                        run.violation(RULE, name, ev['loc'], 'removal-candidate-may-be-referenced',
                                      '%s becomes a candidate for coap_session_free() on a path that does not know its reference count 0: a session an observation, an async '
                                      'entry or a queued message still refers to is reported deleted (and the idle limit is applied to busy sessions)' % short(ev['e']['r']), ctx.path())
            return None
        for ev in sites:
            n += 1
            run.instance(RULE, '%s: %s' % (name, short(ev['e'])))
        srcs = set(ap(ev['e']['r']) + '->ref' for ev in sites)
        from core.psts import relevance
        keys, R = relevance(f, lambda ev: any(ev is s_ for s_ in sites), srcs)
        solve(f, Env(), on_event, None, keys, set(R) | srcs, key_fn=lambda e: tuple(sorted((k, e.intf(k)[:2]) for k in srcs)), max_envs=512)
    run.require_count(n >= (2 if run.cfg == 'base' else 0) or run.fixture_mode, 'R-SESS-EVT (free candidates): fewer than 2 removal candidates found')
