"""R-ALLOC-NULL (C18, also C16 optlist helpers): a value returned by a may-fail constructor is tested
against NULL on every path before it is dereferenced (->, *, []), passed to a libc routine that
dereferences it, or passed to a parameter the callee dereferences before testing (summary).

Constructors are computed: seed = the allocator entry points; closed under "library function that
transitively allocates and returns, on some path, NULL / an unchecked constructor result".
Analysed in the shipped configuration (NDEBUG): an assert() protects nothing.
"""
import collections
from core.prog import strip, walk, ap, key, short, const_int, is_null_const, root_var
from core.psts import Env, solve, relevance, apply_generic, Budget

SEED = {'coap_malloc_type', 'coap_realloc_type', 'malloc', 'calloc', 'realloc', 'strdup', 'strndup',
        'gnutls_malloc', 'gnutls_realloc', 'gnutls_calloc', 'gnutls_strdup'}
# GnuTLS exports its allocators as function-pointer variables: `gnutls_malloc(n)` is an indirect call through the global of that name
INDIRECT_ALLOC = {'var:gnutls_malloc': 'gnutls_malloc', 'var:gnutls_realloc': 'gnutls_realloc', 'var:gnutls_calloc': 'gnutls_calloc',
                  'var:gnutls_strdup': 'gnutls_strdup'}
# libc routines that dereference the listed arguments
MEMFN = {'memcpy': (0, 1), 'memset': (0,), 'memmove': (0, 1), 'strcpy': (0, 1), 'strcat': (0, 1), 'strlen': (0,),
         'memcmp': (0, 1), 'strncpy': (0, 1), 'strcmp': (0, 1), 'strncmp': (0, 1), 'snprintf': (0,), 'sprintf': (0,),
         'strchr': (0,), 'strrchr': (0,), 'memchr': (0,), 'strncasecmp': (0, 1), 'strcasecmp': (0, 1),
         'atoi': (0,), 'atol': (0,), 'atoll': (0,), 'strtol': (0,), 'strtoul': (0,), 'strtoll': (0,), 'strtoull': (0,), 'strdup': (0,), 'strstr': (0, 1)}


def _call_of(x):
    x = strip(x)
    if isinstance(x, dict) and x.get('k') == 'call':
        if x.get('fn') is None:
            from core.prog import callee_field
            cf = callee_field(x)
            if cf in INDIRECT_ALLOC:
                y = dict(x)
                y['fn'] = INDIRECT_ALLOC[cf]
                return y
        return x
    return None


class AllocNull:
    def __init__(self, run, P, rule='R-ALLOC-NULL'):
        self.rule = rule
        self.run = run
        self.P = P
        self.F = P.funcs
        self.maynull = set(SEED)
        self.derefsum = collections.defaultdict(set)   # fn -> param indexes dereferenced before any test
        self.steps = 0

    # ------------------------------------------------------------------ static pre-scan
    def allocators(self):
        """library functions that transitively call a seed allocator"""
        cg = self.P.callgraph()
        al = set(n for n in self.F if cg.get(n, set()) & SEED)
        for n, f in self.F.items():
            if n not in al and any(_call_of(t) is not None and _call_of(t).get('fn') in SEED for b, ev in self.P.events(f) for t in walk(ev['e']) if isinstance(t, dict) and t.get('k') == 'call'):
                al.add(n)
        changed = True
        while changed:
            changed = False
            for n in self.F:
                if n not in al and (cg.get(n, set()) & al):
                    al.add(n)
                    changed = True
        return al

    def tracked_paths(self, f, param_idx=None):
        """access paths that may hold a constructor result in f (flow-insensitive), closed under copies"""
        tr = set()
        for b, ev in self.P.events(f):
            t = ev['e']
            if t.get('k') == 'asg' and t.get('op') == '=':
                c = _call_of(t['r'])
                if c and c.get('fn') in self.maynull:
                    a = ap(t['l'])
                    if a:
                        tr.add(a)
            elif t.get('k') == 'decl':
                for d in t['d']:
                    c = _call_of(d.get('init'))
                    if c and c.get('fn') in self.maynull:
                        tr.add('v%d' % d['id'])
        if param_idx is not None:
            for i in param_idx:
                tr.add('v%d' % f['params'][i]['id'])
        changed = True
        n = 0
        while changed and n < 5:
            changed = False
            n += 1
            for b, ev in self.P.events(f):
                t = ev['e']
                if t.get('k') == 'asg' and t.get('op') == '=':
                    l, r = ap(t['l']), ap(t['r'])
                    if r in tr and l and l not in tr:
                        tr.add(l)
                        changed = True
                elif t.get('k') == 'decl':
                    for d in t['d']:
                        if 'init' in d and ap(d['init']) in tr and ('v%d' % d['id']) not in tr:
                            tr.add('v%d' % d['id'])
                            changed = True
        return tr

    # ------------------------------------------------------------------ one function
    def analyze(self, f, report, params=None):
        """params: list of parameter indexes to treat as maybe-NULL at entry (summary mode).
        returns (returns_maynull: bool, set of param indexes dereferenced while unchecked)"""
        name = f['name']
        run = self.run
        tr = self.tracked_paths(f, params)
        if not tr:
            return False, set()
        pidx = {}
        if params:
            for i in params:
                pidx['v%d' % f['params'][i]['id']] = i
        res = {'retnull': False, 'pderef': set()}
        A = self
        # (object variable, field, value variable, record) for stores `o->F = v` with v a tracked constructor result: used at returns of o
        partial, partial_rep = [], set()
        for b_, ev_ in self.P.events(f):
            t_ = ev_['e']
            if t_.get('k') == 'asg' and t_.get('op') == '=':
                l_ = strip(t_['l'])
                if isinstance(l_, dict) and l_.get('k') == 'mem' and l_.get('arrow') and ap(l_.get('b')) and ap(t_['r']) in tr and l_.get('rec'):
                    partial.append((ap(l_['b']), l_['f'], ap(t_['r']), l_['rec']))

        def mentions(t):
            for y in walk(t):
                if isinstance(y, dict) and y.get('k') in ('var', 'mem', 'sub', 'un'):
                    a = ap(y)
                    if a in tr:
                        return True
            return False

        def is_rule_event(ev):
            return mentions(ev['e'])
        keys, R = relevance(f, is_rule_event, tr)
        R = R | tr

        def marks(env):
            return [k[2:] for k in env.ts if k.startswith('m:')]

        def normalize(env):
            e = None
            for a in marks(env):
                v = env.nullf(a)
                if v == 'N':
                    e = e or env.copy()
                    del e.ts['m:' + a]
            return e or env

        def use(env, node, ev, ctx, how):
            """node is dereferenced"""
            a = ap(node)
            if a is None:
                return env
            org = env.ts.get('m:' + a)
            if org is None:
                ca = env.canon(a)
                if ca != a:
                    org = env.ts.get('m:' + ca)
                    if org is not None:
                        a = ca
            if org is None:
                return env
            if org[0] == 'param':
                res['pderef'].add(org[1])
            elif report:
                run.oblige(A.rule, False, '%s:%s:%s' % (name, org[1], how))
                known_null = env.nullf(a) == 'Z'
                run.violation(A.rule, name, ev['loc'], 'unchecked:%s:%s' % (org[1], how.split(' ')[0]),
                              'result of %s() (%s) is %s by %s without a NULL test on this path' % (
                                  org[1], org[2].rsplit('/', 1)[-1], 'NULL and dereferenced' if known_null else 'dereferenced', how), ctx.path())
            e = env.copy()
            del e.ts['m:' + a]       # report once per path
            return e

        def set_mark(e, a, org):
            e.ts['m:' + a] = org

        def on_event(ev, env0, ctx):
            env = normalize(env0)
            t = ev['e']
            k = t.get('k')
            if k == 'mem' and t.get('arrow'):
                e = use(env, t['b'], ev, ctx, '->%s' % t['f'])
                return [e] if e is not env0 else None
            if k == 'un' and t.get('op') == '*':
                e = use(env, t['e'], ev, ctx, 'operator *')
                return [e] if e is not env0 else None
            if k == 'sub':
                e = use(env, t['b'], ev, ctx, 'operator []')
                return [e] if e is not env0 else None
            if k == 'call':
                fn = t.get('fn')
                e = env
                idxs = ()
                if fn in MEMFN:
                    idxs = MEMFN[fn]
                    how = lambda i: 'argument %d of %s()' % (i + 1, fn)
                elif fn in A.derefsum:
                    idxs = sorted(A.derefsum[fn])
                    how = lambda i: 'argument %d of %s() (which dereferences it before any test)' % (i + 1, fn)
                for i in idxs:
                    if i < len(t['a']):
                        e = use(e, t['a'][i], ev, ctx, how(i))
                if report and ev.get('top') and fn and any((fn, i) in getattr(A, 'tolerant', ()) for i in range(len(t['a']))):
                    for i, arg in enumerate(t['a']):
                        if (fn, i) not in A.tolerant:
                            continue
                        c = _call_of(arg)
                        org = None
                        if c and c.get('fn') in A.maynull:
                            org = ('ctor', c['fn'], ev['loc'])
                            run.instance(A.rule, '%s: %s(.., %s(), ..)' % (name, fn, c['fn']))
                        else:
                            a = ap(arg)
                            if a and env.nullf(a) is None:
                                org = env.ts.get('m:' + a) or env.ts.get('m:' + env.canon(a))
                        if org is not None and org[0] == 'ctor':
                            run.oblige(A.rule, False, '%s:%s:result-of-%s-ignored' % (name, org[1], fn))
                            run.violation(A.rule, name, ev['loc'], 'unchecked:%s:ignored-by-%s' % (org[1], fn),
                                          'the result of %s() is never tested here and goes to %s(), which reports a missing object through its return value - and that value '
                                          'is ignored: the allocation failure is dropped silently and the operation reports success without the object' % (org[1], fn), ctx.path())
                if e is not env0:
                    return [apply_generic(ev, e, R)]
                return None
            if k == 'asg' and t.get('op') == '=':
                a = ap(t['l'])
                e = apply_generic(ev, env, R)
                if a:
                    if e is env:
                        e = env.copy()
                    # overwritten: old mark gone
                    for m in [m for m in marks(e) if m == a or m.startswith(a + '->') or m.startswith(a + '.')]:
                        del e.ts['m:' + m]
                    c = _call_of(t['r'])
                    if c and c.get('fn') in A.maynull:
                        if report:
                            run.instance(A.rule, '%s: %s = %s()' % (name, short(t['l']), c['fn']))
                        set_mark(e, a, ('ctor', c['fn'], ev['loc']))
                    else:
                        ra = ap(t['r'])
                        if ra:
                            org = env.ts.get('m:' + ra) or env.ts.get('m:' + env.canon(ra))
                            if org is not None and env.nullf(ra) != 'N':
                                set_mark(e, a, org)
                                l0 = strip(t['l'])
                                if report and org[0] == 'ctor' and isinstance(l0, dict) and l0.get('k') == 'mem' and (l0.get('rec'), l0.get('f')) in getattr(A, 'mdfields', ()):
                                    run.oblige(A.rule, False, '%s:%s:stored-unchecked' % (name, org[1]))
                                    run.violation(A.rule, name, ev['loc'], 'unchecked:%s:stored-into-%s' % (org[1], l0['f']),
                                                  'the untested result of %s() is stored into ->%s of an object that outlives this function; %s dereferences that field on every '
                                                  'path without a test: the failed allocation crashes later, far from here' % (org[1], l0['f'], A.mdfields[(l0['rec'], l0['f'])]), ctx.path())
                return [e]
            if k == 'decl':
                e = apply_generic(ev, env, R)
                for d in t['d']:
                    a = 'v%d' % d['id']
                    if e is env:
                        e = env.copy()
                    e.ts.pop('m:' + a, None)
                    if 'init' not in d:
                        continue
                    c = _call_of(d['init'])
                    if c and c.get('fn') in A.maynull:
                        if report:
                            run.instance(A.rule, '%s: %s = %s()' % (name, d['n'], c['fn']))
                        set_mark(e, a, ('ctor', c['fn'], ev['loc']))
                    else:
                        ra = ap(d['init'])
                        if ra:
                            org = env.ts.get('m:' + ra) or env.ts.get('m:' + env.canon(ra))
                            if org is not None and env.nullf(ra) != 'N':
                                set_mark(e, a, org)
                return [e]
            if k == 'ret' and 'e' in t and report and getattr(A, 'mdfields', None):
                r0 = strip(t['e'])
                o = ap(r0) if isinstance(r0, dict) else None
                if o and env.nullf(o) != 'Z':
                    for (ov, fld, v, rec) in partial:
                        if ov == o and env.nullf(v) == 'Z' and (rec, fld) in A.mdfields and (ev['loc'], fld) not in partial_rep:
                            partial_rep.add((ev['loc'], fld))
                            run.oblige(A.rule, False, '%s:returned-without-%s' % (name, fld))
                            run.violation(A.rule, name, ev['loc'], 'object-returned-without:%s' % fld,
                                          'the new object is returned although the allocation meant for its ->%s failed on this path (the field stays NULL); %s dereferences '
                                          'that field on every path without a test: the caller gets an object that crashes the library later' % (fld, A.mdfields[(rec, fld)]), ctx.path())
            if k == 'ret' and 'e' in t:
                r = strip(t['e'])
                if isinstance(r, dict):
                    if is_null_const(r) and f['ret'].get('p'):
                        res['retnull'] = True
                    c = _call_of(r)
                    if c and c.get('fn') in A.maynull:
                        res['retnull'] = True
                    a = ap(r)
                    if a:
                        org = env.ts.get('m:' + a) or env.ts.get('m:' + env.canon(a))
                        if (org is not None and org[0] == 'ctor') or env.nullf(a) == 'Z':
                            res['retnull'] = True
                return [env] if env is not env0 else None
            if env is not env0:
                return [apply_generic(ev, env, R)]
            return None

        init = Env()
        if params:
            for i in params:
                init.ts['m:v%d' % f['params'][i]['id']] = ('param', i, f['loc'])

        def key_fn(e):
            return tuple(sorted((k, v[0], v[1]) for k, v in e.ts.items()))
        try:
            ctx = solve(f, init, on_event, None, keys, R, key_fn=key_fn, max_envs=512)
        except Budget:
            if report:
                raise
            return res['retnull'], res['pderef']
        self.steps += ctx.steps
        if report:
            # discharged obligations: constructor results that were tested on every path
            pass
        return res['retnull'], res['pderef']

    # ------------------------------------------------------------------ whole program
    def compute(self):
        F = self.F
        al = self.allocators()
        # may-fail constructors: closure
        for rnd in range(8):
            before = len(self.maynull)
            for n in sorted(al):
                f = F[n]
                if n in self.maynull or not f['ret'].get('p'):
                    continue
                rn, _ = self.analyze(f, report=False)
                if rn:
                    self.maynull.add(n)
            if len(self.maynull) == before:
                break
        # tolerant consumers: int functions that test a pointer parameter for NULL themselves, never dereference it untested, and so
        # REPORT a missing object through their result (coap_insert_optlist(): `return node != NULL`)
        self.tolerant = set()
        for n, f in F.items():
            if (f['ret'] or {}).get('p') or (f['ret'] or {}).get('t') in (None, 'void'):
                continue
            for i, p in enumerate(f['params']):
                if not p.get('p') or p.get('pf'):
                    continue
                pv = 'v%d' % p['id']
                tested = False
                for b in f['blocks']:
                    c = strip((b.get('term') or {}).get('cond'))
                    while isinstance(c, dict) and c.get('k') == 'un' and c.get('op') == '!':
                        c = strip(c['e'])
                    if isinstance(c, dict) and (ap(c) == pv or (c.get('k') == 'bin' and c.get('op') in ('==', '!=') and (ap(c['l']) == pv or ap(c['r']) == pv) and (is_null_const(c['l']) or is_null_const(c['r'])))):
                        tested = True
                rets_cmp = any(ev['e'].get('k') == 'ret' and 'e' in ev['e'] and any(isinstance(y, dict) and y.get('k') == 'var' and ap(y) == pv for y in walk(ev['e']['e'])) for b, ev in self.P.events(f))
                if tested or rets_cmp:
                    self.tolerant.add((n, i))
        # parameter summaries: which pointer parameters are dereferenced before any test
        for rnd in range(3):
            changed = False
            for n, f in F.items():
                ps = [i for i, p in enumerate(f['params']) if p.get('p') and not p.get('pf') and i not in self.derefsum[n]]
                if not ps:
                    continue
                _, pd = self.analyze(f, report=False, params=ps)
                if pd - self.derefsum[n]:
                    self.derefsum[n] |= pd
                    changed = True
            if not changed:
                break
        self.tolerant = set((n, i) for (n, i) in self.tolerant if i not in self.derefsum[n])


def run(run, P, only=None):
    run.rule('R-ALLOC-NULL')
    A = AllocNull(run, P)
    A.compute()
    # fields that some library function dereferences on every path without a test (must-dereference summaries of R-NULL-BELIEF)
    from rules import r_nullbelief
    A.mdfields = {}
    for g, ent in r_nullbelief.summaries(P).items():
        gf = P.funcs.get(g)
        if not gf:
            continue
        for (i, suf), (loc, how) in ent.items():
            if suf.startswith('->') and '->' not in suf[2:] and i < len(gf['params']) and gf['params'][i].get('prec'):
                A.mdfields.setdefault((gf['params'][i]['prec'], suf[2:]), '%s()' % g)
    ctors = sorted(A.maynull - SEED)
    run.stats['mayfail_constructors'] = len(A.maynull)
    run.stats['functions_deref_param_untested'] = sum(1 for n in A.derefsum if A.derefsum[n])
    run.notes.append('may-fail constructors: ' + ', '.join(ctors))
    for f in sorted(P.lib_funcs(), key=lambda f: f['name']):
        if only and f['name'] not in only:
            continue
        before = len(run.violations) + len(run.known_hits)
        A.analyze(f, report=True)
    # one discharged obligation per constructor call site that produced no report
    bad = set((v['function'], v['inst']) for v in run.violations + run.known_hits if v['rule'] == 'R-ALLOC-NULL')
    for (rule, desc) in list(run._inst_seen):
        if rule == 'R-ALLOC-NULL':
            run.oblige('R-ALLOC-NULL', True, desc)
    run.stats['allocnull_solver_steps'] = A.steps
    return A


def run_nullret(run, P, units=None):
    """R-NULL-RET (C02): the same typestate for unit-local helpers that are not allocators: a static function of the receive surface that
    returns the NULL constant on some path and something else on another (a tokenizer that finds no separator, a look-up that finds
    nothing) hands back a maybe-NULL pointer, and what the peer sent decides which.  Every call site tests the result before it is
    dereferenced or given to a C library routine that dereferences it (atoi, strcmp, memcpy ...).  The sibling call sites of such a helper
    usually do test it; the one that does not is a crash a peer can trigger (`atoi(value)` on a status line without a status)."""
    run.rule('R-NULL-RET')
    A = AllocNull(run, P, rule='R-NULL-RET')
    S = set()
    for f in P.lib_funcs():
        if not f['ret'].get('p') or not f.get('static'):
            continue
        if units and f['unit'] not in units:
            continue
        rn = rnn = False
        for b, ev in P.events(f):
            t = ev['e']
            if t.get('k') == 'ret' and t.get('e') is not None:
                if is_null_const(t['e']):
                    rn = True
                else:
                    rnn = True
        if rn and rnn:
            S.add(f['name'])
    A.compute()
    S -= A.maynull           # allocating helpers are judged by R-ALLOC-NULL already
    run.notes.append('maybe-NULL helpers (static, return NULL on some path): ' + ', '.join(sorted(S)))
    A.maynull = set(S)
    ncalls = 0
    for f in sorted(P.lib_funcs(), key=lambda f: f['name']):
        if not any(isinstance(t, dict) and t.get('k') == 'call' and t.get('fn') in S for b, ev in P.events(f) for t in walk(ev['e'])):
            continue
        ncalls += 1
        A.analyze(f, report=True)
    for (rule, desc) in list(run._inst_seen):
        if rule == 'R-NULL-RET':
            run.oblige('R-NULL-RET', True, desc)
    run.require(ncalls >= (3 if run.cfg == 'base' else 1) or run.fixture_mode, 'R-NULL-RET: fewer than 3 functions that call a maybe-NULL helper found')
