"""R-TIMER-REC (C06): with epoll the library wakes itself through a timerfd.  Whoever arms it (timerfd_settime on X->eptimerfd) also
records the deadline it armed it for (X->next_timeout): the next caller that wants an earlier wake-up decides by comparing with that
field whether the timer has to be re-armed.  On every path to every timerfd_settime() call on the context's timer the function assigned
next_timeout of the same context before.  An armed timer whose deadline is not recorded lets a later, longer delay re-arm the timer past
an earlier retransmission deadline.  Not decided: that the recorded value equals the armed one (arithmetic over ticks), timing itself."""
from core.prog import strip, walk, ap, short
from core.psts import Env, solve, relevance, apply_generic

ARM = 'timerfd_settime'
FD_FIELD = 'eptimerfd'
REC_FIELD = 'next_timeout'


def run(run, P):
    run.rule('R-TIMER-REC')
    n = 0
    for f in sorted(P.lib_funcs(), key=lambda f: f['name']):
        sites = []
        for b, ev in P.events(f):
            for t in walk(ev['e']):
                if isinstance(t, dict) and t.get('k') == 'call' and t.get('fn') == ARM and t.get('a'):
                    a0 = strip(t['a'][0])
                    if isinstance(a0, dict) and a0.get('k') == 'mem' and a0.get('f') == FD_FIELD and ap(a0.get('b')):
                        sites.append((ev, ap(a0['b'])))
        if not sites:
            continue
        name = f['name']

        def rec_of(t):
            if t.get('k') == 'asg':
                l = strip(t['l'])
                if isinstance(l, dict) and l.get('k') == 'mem' and l.get('f') == REC_FIELD and ap(l.get('b')):
                    return ap(l['b'])
            return None

        def is_rule_event(ev):
            return any(ev is s[0] for s in sites) or rec_of(ev['e']) is not None
        keys, R = relevance(f, is_rule_event)

        def on_event(ev, env, ctx):
            t = ev['e']
            r = rec_of(t)
            if r is not None:
                e = apply_generic(ev, env, R).copy()
                e.ts['rec'] = tuple(sorted(set(env.ts.get('rec', ())) | {r}))
                return [e]
            for sev, base in sites:
                if ev is sev:
                    ok = base in env.ts.get('rec', ())
                    run.oblige('R-TIMER-REC', ok, '%s:deadline-recorded' % name)
                    if not ok:
                        run.violation('R-TIMER-REC', name, ev['loc'], 'armed-without-recording-deadline',
                                      'the context\'s timerfd is armed on a path that never assigned %s: the next request for an earlier wake-up compares with a stale '
                                      'deadline and a later, longer delay re-arms the timer past a pending retransmission' % REC_FIELD, ctx.path())
            return None
        for s in sites:
            n += 1
            run.instance('R-TIMER-REC', '%s: arms the context timer' % name)
        solve(f, Env(), on_event, None, keys, R, key_fn=lambda e: e.ts.get('rec', ()))
    run.require_count(n >= (2 if run.cfg == 'base' else 0) or run.fixture_mode, 'R-TIMER-REC: fewer than 2 places that arm the context timerfd found')


BASE_FIELD = 'sendqueue_basetime'
QUEUE_FIELD = 'sendqueue'
ADJUSTERS = ('coap_adjust_basetime',)      # advances the base by a delta AND takes the same delta off the queued deadlines


def run_base(run, P):
    """R-TIMER-REC (queue base): the deadlines of queued nodes are stored relative to X->sendqueue_basetime.  Setting the base (`= now`)
    while nodes are queued moves every pending deadline by the time that has passed since the old base: retransmissions and the give-up
    come late, and the reported wait is too long.  So every plain assignment to the base field happens on a path that knows the queue
    of the same object empty (`X->sendqueue == NULL` taken); the only other writer is the adjuster, which adds a delta to the base and
    takes it off the queued nodes in the same function."""
    run.rule('R-TIMER-REC')
    n = 0
    for f in sorted(P.lib_funcs(), key=lambda f: f['name']):
        sites = []
        for b, ev in P.events(f):
            t = ev['e']
            if t.get('k') == 'asg' and ev.get('top', True):
                l = strip(t['l'])
                if isinstance(l, dict) and l.get('k') == 'mem' and l.get('f') == BASE_FIELD and ap(l.get('b')):
                    sites.append((ev, ap(l['b']) + '->' + QUEUE_FIELD, t.get('op')))
        if not sites:
            continue
        name = f['name']
        qpaths = set(s[1] for s in sites)

        def is_rule_event(ev):
            return any(ev is s[0] for s in sites)
        keys, R = relevance(f, is_rule_event, qpaths)
        R = set(R) | qpaths
        rep = set()

        def on_event(ev, env, ctx):
            for sev, q, op in sites:
                if ev is sev:
                    if op != '=':
                        ok = name in ADJUSTERS
                        why = 'compound update outside the adjuster'
                    else:
                        ok = env.nullf(q) == 'Z'
                        why = 'the queue is not known empty'
                    run.oblige('R-TIMER-REC', ok, '%s:base-set-only-for-empty-queue' % name)
                    if not ok and ev['loc'] not in rep:
                        rep.add(ev['loc'])
                        run.violation('R-TIMER-REC', name, ev['loc'], 'queue-rebased-while-non-empty',
                                      '%s is written (%s) on a path on which %s: the deadlines of the nodes already queued are relative to the old base, so all of them '
                                      '(and the one being added) move later by the time that passed since -- retransmissions and the final give-up come late'
                                      % (BASE_FIELD, short(ev['e'])[:50], why), ctx.path())
            return None
        for sev, q, op in sites:
            n += 1
            run.instance('R-TIMER-REC', '%s: %s only with the queue known empty (or inside the adjuster)' % (name, short(sev['e'])[:50]))
        solve(f, Env(), on_event, None, keys, R, key_fn=lambda e: tuple(e.nullf(q) for q in sorted(qpaths)))
    run.require_count(n >= 3 or run.fixture_mode or run.cfg != 'base', 'R-TIMER-REC(queue base): fewer than 3 writers of %s found' % BASE_FIELD)
