"""R-OWN-PDU (C10, C18): linear ownership of coap_pdu_t*.

A PDU obtained from a creator (computed: functions that return a PDU they created) or received through a
consuming parameter is consumed exactly once on every path: deleted, handed to a consumer, stored into a
structure / out-parameter, or returned.  No use after consumption, no overwrite of the last name.
Consumer contracts are a frozen table; every listed function is itself checked to honour its contract, and
the contracts of all other functions with a non-const PDU parameter are computed as summaries.
"""
from core.prog import strip, walk, ap, const_int, key
from core.psts import Budget
from rules.own import Spec, Own

SEED_CREATORS = {'coap_pdu_init'}
# frozen consumer table ------------------------------------------------------------------------------
ALWAYS = {'coap_delete_pdu': 0, 'coap_send_internal': 1, 'coap_send_lkd': 1, 'coap_send': 1}
IFRET = {'coap_send_pdu': (1, 'COAP_PDU_DELAYED'), 'coap_session_delay_pdu': (1, 'COAP_PDU_DELAYED')}
IFARG = {'coap_send_q_block1': (2, 3, 'COAP_SEND_INC_PDU'), 'coap_send_q_block2': (5, 6, 'COAP_SEND_INC_PDU'),
         'coap_send_q_blocks': (3, 4, 'COAP_SEND_INC_PDU')}
# fields in which a *borrowed* PDU pointer is parked for the duration of a call (not an ownership transfer)
BORROW_STORE_FIELDS = {'unknown_pdu': 'handle_request parks the request for coap_resource_unknown handlers and clears it afterwards'}


class PduSpec(Spec):
    rule = 'R-OWN-PDU'
    ptypes = ('coap_pdu_t',)
    event_calls = {'coap_lock_lock_func'}

    def __init__(self, P):
        self.creators = dict((c, True) for c in SEED_CREATORS)
        self.P = P
        self.delayed = P.const_named('COAP_PDU_DELAYED') if P.has('coap_session_delay_pdu') else -3
        self.inc = P.const_named('COAP_SEND_INC_PDU') if P.has('coap_send_q_blocks') else 1

    def call_effect(self, fn, idx, call, A):
        if fn in ALWAYS:
            return 'consume' if ALWAYS[fn] == idx else 'borrow'
        if fn in IFRET:
            return ('consume_if_ret', '==', self.delayed, 'T') if IFRET[fn][0] == idx else 'borrow'
        if fn in IFARG:
            return ('consume_if_arg', IFARG[fn][1], self.inc) if IFARG[fn][0] == idx else 'borrow'
        if fn is None:
            return 'borrow'
        f = A.F.get(fn)
        if f is None:
            return 'borrow'       # libc / GnuTLS: never takes a PDU
        if idx < len(f['params']) and f['params'][idx].get('pc'):
            return 'borrow'
        return None               # computed summary

    def param_contract(self, fname, idx):
        if fname in ALWAYS and ALWAYS[fname] == idx and fname != 'coap_delete_pdu':
            return 'always'
        if fname in IFRET and IFRET[fname][0] == idx:
            return ('ret', '==', self.delayed)
        if fname in IFARG and IFARG[fname][0] == idx:
            return ('arg', IFARG[fname][1], self.inc)
        return None

    def store_effect(self, tgt_node, s, env, A):
        t = strip(tgt_node)
        if isinstance(t, dict) and t.get('k') == 'mem' and t['f'] in BORROW_STORE_FIELDS:
            return s
        return None

    def pre_event(self, ev, env, ctx, A, L):
        t = ev['e']
        if t.get('k') == 'call' and t.get('fn') == 'coap_lock_lock_func':
            # stated assumption: paths on which taking the global lock fails (libcoap not started /
            # concurrent coap_cleanup()) carry no ownership obligations
            e = env.copy()
            e.ret[key(t)] = ('nz', 0)
            return [e]
        return None


def candidates(P, spec):
    out = []
    for n, f in sorted(P.funcs.items()):
        for i, p in enumerate(f['params']):
            if spec.is_tracked_type(p) and not p.get('pc'):
                out.append((n, i))
    return out


def _returns_created(A, f):
    spec = A.spec
    if not any(y.get('fn') in spec.creators for b, ev in A.P.events(f) for y in walk(ev['e']) if isinstance(y, dict) and y.get('k') == 'call'):
        return False
    for b, ev in A.P.events(f):
        t = ev['e']
        if t.get('k') == 'ret' and 'e' in t:
            r = strip(t['e'])
            if isinstance(r, dict) and r.get('k') == 'call' and r.get('fn') in spec.creators:
                return True
    hits = []

    def exit_bad(s):
        if s == 'R':
            hits.append(1)
        return False
    spec.exit_bad = exit_bad
    try:
        A.analyze(f, report=False)
    except Budget:
        pass
    finally:
        del spec.exit_bad
    return bool(hits)


def prepare(run, P):
    spec = PduSpec(P)
    A = Own(run, P, spec)
    cands = candidates(P, spec)
    for rnd in range(4):
        A.summarize(cands)
        n0 = len(spec.creators)
        for n, f in sorted(P.funcs.items()):
            if n not in spec.creators and spec.is_tracked_type(f['ret']) and _returns_created(A, f):
                spec.creators[n] = True
        if len(spec.creators) == n0:
            break
    return A, spec


def run(run, P, only=None):
    run.rule('R-OWN-PDU')
    A, spec = prepare(run, P)
    for fn in list(ALWAYS) + list(IFRET) + list(IFARG):
        if not run.fixture_mode and fn not in P.funcs and fn != 'coap_send_q_block1' and not fn.startswith('coap_send_q_block'):
            run.require(False, 'consumer %s() of the frozen R-OWN-PDU table does not exist' % fn)
    run.notes.append('PDU creators (computed): ' + ', '.join(sorted(spec.creators)))
    run.notes.append('PDU consumer summaries (computed): ' + ', '.join('%s#%d=%s' % (k[0], k[1], v) for k, v in sorted(A.summ.items()) if v != 'never'))
    run.stats['pdu_creators'] = len(spec.creators)
    for f in sorted(P.lib_funcs(), key=lambda f: f['name']):
        if only and f['name'] not in only:
            continue
        A.analyze(f, report=True)
    run.stats['ownpdu_solver_steps'] = A.steps
    return A
