"""Lock rules of C13: R-LOCK-BAL, R-LOCK-CALL, R-LOCK-CB, R-LOCK-WAIT (mode 'ts': thread safety
forced on, asserts visible so that the project's own marker coap_lock_check_locked is seen).

Typestate: lock in {U, L, F}, cb = net in_callback increments in this function, win = an unlock from L
happened in this function (a failed re-lock afterwards is the absorbing state F: only possible while
coap_cleanup() runs concurrently).

Phase A  bottom-up lock-effect summaries (entry state -> set of exit states) for the functions that
         transitively perform lock operations.
Phase B  top-down contexts (function, entry lock state, in-callback?, facts about parameters) from the
         roots: every public function is entered U, every address-taken library function L.
"""
import os, collections
from core.prog import strip, walk, ap, key, short, const_int, callee_field, calls_in
from core.psts import Env, solve, relevance, apply_generic, Budget
from core.facts import REPO

LOCK, UNLOCK = 'coap_lock_lock_func', 'coap_lock_unlock_func'
MARK = 'coap_lock_check_locked'
# application callback fields named by the property (request, response, NACK, event, ping/pong handlers)
APPCB = {'handler', 'response_handler', 'nack_handler', 'handle_event', 'ping_handler', 'pong_handler',
         # (D)TLS set-up callbacks of the application (coap_dtls_spsk_t / coap_dtls_cpsk_t / coap_dtls_pki_t)
         'validate_id_call_back', 'validate_ih_call_back', 'validate_sni_call_back', 'validate_cn_call_back', 'additional_tls_setup_call_back'}
WAITS = {'select', 'epoll_wait', 'poll', 'pthread_cond_wait', 'sleep', 'usleep', 'nanosleep'}
MUTEX_WAIT = {'pthread_mutex_lock'}
CBMAX = 3


def is_marker(ev):
    mac = ev.get('mac') or ()
    if MARK not in mac:
        return False
    t = ev['e']
    return not (t.get('k') == 'call' and t.get('fn') == '__assert_fail')


def is_assert_fail(ev):
    t = ev['e']
    return t.get('k') == 'call' and (t.get('fn') == '__assert_fail' or t.get('noret'))


def incb_op(t):
    if t.get('k') == 'un' and t.get('op') in ('++', '--'):
        e = strip(t['e'])
        if isinstance(e, dict) and e.get('k') == 'mem' and e['f'] == 'in_callback':
            return 1 if t['op'] == '++' else -1
    if t.get('k') == 'asg' and t.get('op') in ('+=', '-='):
        e = strip(t['l'])
        if isinstance(e, dict) and e.get('k') == 'mem' and e['f'] == 'in_callback':
            K = const_int(t['r'])
            if K is not None:
                return K if t['op'] == '+=' else -K
    return 0


class LockAnalysis:
    def __init__(self, run, P):
        self.run = run
        self.P = P
        F = P.funcs
        self.F = F
        self.public = set()
        sym = os.path.join(REPO, 'libcoap-3.sym')
        exported = set(l.strip() for l in open(sym) if l.strip()) if os.path.exists(sym) else set()
        for n, f in F.items():
            if run.fixture_mode:
                if f['main'] and not f['static'] and not n.endswith('_lkd') and n not in (LOCK, UNLOCK):
                    self.public.add(n)
                continue
            if not f['loc'].startswith(REPO + '/src') and not f['loc'].startswith(REPO + '/include'):
                continue
            decls = P.decls.get(n, ())
            pub_hdr = any(d.startswith(REPO + '/include/coap3/') and not d.endswith('_internal.h') for d in decls)
            if (n in exported or pub_hdr) and not f['static']:
                self.public.add(n)
        self.lockops = set()
        self.marked = set()
        for n, f in F.items():
            for b, ev in P.events(f):
                t = ev['e']
                if t.get('k') == 'call' and t.get('fn') in (LOCK, UNLOCK):
                    self.lockops.add(n)
                if is_marker(ev):
                    self.marked.add(n)
        self.lockops -= {LOCK, UNLOCK}
        self.wrappers = set(n for n in self.lockops if F[n]['api'])
        self.api = set(n for n, f in F.items() if f['api'])
        # address-taken library functions (layer tables, call-outs, TLS back-end callbacks)
        self.addr_taken = set()
        for names in P.fp_stores().values():
            self.addr_taken |= set(n for n in names if n in F)
        for n, f in F.items():
            for b, ev in P.events(f):
                t = ev['e']
                if t.get('k') == 'call':
                    for a in t.get('a', []):
                        a = strip(a)
                        if isinstance(a, dict) and a.get('k') == 'fn' and a['n'] in F:
                            self.addr_taken.add(a['n'])
        # transitive closure: functions that (may) perform lock operations
        cg = P.callgraph()
        self.lockclos = set(self.lockops)
        changed = True
        while changed:
            changed = False
            for n in F:
                if n not in self.lockclos and (cg.get(n, set()) & self.lockclos):
                    self.lockclos.add(n)
                    changed = True
        self.summ = {}       # (fn, entry) -> frozenset of exit lock states
        self.origin = {}
        self.rel_cache = {}
        self.ctx_done = {}
        self.hits = collections.defaultdict(list)
        self.maxsteps = 0
        self.steps = 0

    # ------------------------------------------------------------------ per function helpers
    def _relevance(self, f):
        n = f['name']
        if n in self.rel_cache:
            return self.rel_cache[n]
        lockclos = self.lockclos

        def is_rule_event(ev):
            if is_marker(ev):
                return True
            t = ev['e']
            if t.get('k') == 'call':
                fn = t.get('fn')
                if fn is None:
                    return True
                if fn in (LOCK, UNLOCK) or fn in WAITS or fn in MUTEX_WAIT or fn in lockclos or fn in self.marked or fn in self.api:
                    return True
                if fn in self.F and self._param_paths(fn):
                    return True
            if incb_op(t):
                return True
            return False
        extra = set()
        for b, ev in self.P.events(f):
            t = ev['e']
            if t.get('k') == 'call' and t.get('fn') == 'select' and len(t['a']) == 5:
                tv = strip(t['a'][4])
                if isinstance(tv, dict) and tv.get('k') == 'un' and tv.get('op') == '&':
                    base = ap(tv['e'])
                    if base:
                        extra |= {base + '.tv_sec', base + '.tv_usec'}
            if t.get('k') == 'call' and t.get('fn') == 'epoll_wait' and len(t['a']) == 4:
                a = ap(t['a'][3])
                if a:
                    extra.add(a)
        keys, R = relevance(f, is_rule_event, extra)
        # bases of '->' dereferences rooted at parameters: a caller that knows them NULL cannot get past them
        pbase = set('v%d' % p['id'] for p in f['params'])
        self.deref_bases = getattr(self, 'deref_bases', {})
        db = set()
        for b, ev in self.P.events(f):
            t = ev['e']
            if t.get('k') == 'mem' and t.get('arrow'):
                a = ap(t['b'])
                if a and '->' in a and a.split('->')[0] in pbase:
                    db.add(a)
        self.deref_bases[n] = db
        r = (keys, R | db)
        self.rel_cache[n] = r
        return r

    def _param_paths(self, fn):
        """access paths rooted at parameters of fn (as 'P<i>' + suffix) that fn's relevant conditions test,
        i.e. what a caller's facts are worth translating for"""
        c = getattr(self, '_pp', None)
        if c is None:
            c = self._pp = {}
        if fn in c:
            return c[fn]
        c[fn] = ()
        f = self.F.get(fn)
        if f is None or not (fn in self.marked or fn in self.lockclos or self._reaches_marked(fn)):
            return ()
        keys, R = self._relevance(f)
        out = set()
        for i, p in enumerate(f['params']):
            pre = 'v%d' % p['id']
            for a in R:
                if a == pre or a.startswith(pre + '->'):
                    out.add('P%d' % i + a[len(pre):])
        c[fn] = tuple(sorted(out))
        zonly = getattr(self, '_zonly', None)
        if zonly is None:
            zonly = self._zonly = {}
        zo = set()
        for i, p in enumerate(f['params']):
            pre = 'v%d' % p['id']
            for a in self.deref_bases.get(fn, ()):
                if a.startswith(pre + '->'):
                    zo.add('P%d' % i + a[len(pre):])
        zonly[fn] = zo
        return c[fn]

    def _reaches_marked(self, fn):
        c = getattr(self, '_rm', None)
        if c is None:
            cg = self.P.callgraph()
            rm = set(self.marked)
            changed = True
            while changed:
                changed = False
                for n in self.F:
                    if n not in rm and (cg.get(n, set()) & rm):
                        rm.add(n)
                        changed = True
            c = self._rm = rm
        return fn in c

    # ------------------------------------------------------------------ the transfer function
    def analyze(self, name, entry, incb=False, argfacts=(), report=True, collect=None):
        """returns set of exit (lock, cb) pairs"""
        f = self.F[name]
        run = self.run
        keys, R = self._relevance(f)
        exits = set()
        A = self

        def viol(rule, ev, inst, msg, ctx):
            if report:
                run.violation(rule, name, ev['loc'], inst, msg + ' [entered %s%s%s]' % (entry, ', in callback' if incb else '', A.chain((name, entry, incb, tuple(argfacts)))), ctx.path())

        def on_event(ev, env, ctx):
            t = ev['e']
            lk = env.ts['lock']
            cb = env.ts['cb']
            if lk == 'F':
                return None
            if is_marker(ev):
                if report:
                    run.oblige('R-LOCK-CALL', lk != 'U', '%s:marker' % name)
                if lk == 'U':
                    A.hits[name].append(ev['loc'])
                    viol('R-LOCK-CALL', ev, 'marker-unlocked', 'the precondition marker coap_lock_check_locked is reached with the global lock not held', ctx)
                    return []        # reported once; the rest of this path is not explored
                return None
            if t.get('k') == 'mem' and t.get('arrow'):
                a = ap(t['b'])
                if a and env.nullf(a) == 'Z':
                    return []    # the path dereferences NULL: not this rule's business, and nothing after it runs
                return None
            d = incb_op(t)
            if d:
                if report:
                    run.oblige('R-LOCK-CB', lk != 'U', '%s:in_callback-write' % name)
                if lk == 'U':
                    viol('R-LOCK-CB', ev, 'in_callback-unlocked', 'global_lock.in_callback is changed while the global lock is not held (races with the owner; its unlock then does not release the mutex or releases it early)', ctx)
                    return []
                e = env.copy()
                e.ts['cb'] = max(-CBMAX, min(CBMAX, cb + d))
                return [e]
            if t.get('k') != 'call':
                return None
            fn = t.get('fn')
            if fn == LOCK:
                if lk == 'L':
                    if cb == 0 and not incb:
                        if report:
                            run.oblige('R-LOCK-BAL', False, '%s:lock-while-locked' % name)
                        viol('R-LOCK-BAL', ev, 'lock-while-locked', 'coap_lock_lock() with the lock already held and in_callback == 0 (self-deadlock)', ctx)
                    e = env.copy()
                    e.ts['nest'] = min(CBMAX, env.ts.get('nest', 0) + 1)
                    e.ret[key(t)] = ('nz', 0)
                    return [e]
                a = env.copy()
                a.ts['lock'] = 'L'
                a.ret[key(t)] = ('nz', 0)
                z = env.copy()
                z.ts['lock'] = 'F' if env.ts.get('win') else 'U'
                z.ret[key(t)] = ('eq', 0)
                return [a, z]
            if fn == UNLOCK:
                if lk == 'U':
                    if report:
                        run.oblige('R-LOCK-BAL', False, '%s:unlock-while-unlocked' % name)
                    viol('R-LOCK-BAL', ev, 'unlock-while-unlocked', 'coap_lock_unlock() reached with the lock not held', ctx)
                    return []
                e = env.copy()
                if env.ts.get('nest', 0) > 0:
                    e.ts['nest'] = env.ts['nest'] - 1
                elif cb > 0 or incb:
                    pass   # nested unlock inside a callback: still locked
                else:
                    e.ts['lock'] = 'U'
                    e.ts['win'] = 1
                if report:
                    run.oblige('R-LOCK-BAL', True, '%s:unlock' % name)
                return [e]
            if fn in WAITS or fn in MUTEX_WAIT:
                bounded = False
                if fn == 'select' and len(t['a']) == 5:
                    tv = strip(t['a'][4])
                    if isinstance(tv, dict) and tv.get('k') == 'un' and tv.get('op') == '&':
                        base = ap(tv['e'])
                        if base:
                            s = env.intf(base + '.tv_sec')
                            u = env.intf(base + '.tv_usec')
                            bounded = s[0] == s[1] and s[0] <= 1 and u[0] == u[1]
                if fn == 'epoll_wait' and len(t['a']) == 4:
                    to = const_int(t['a'][3])
                    if to is None:
                        a = ap(t['a'][3])
                        if a:
                            iv = env.intf(env.canon(a))
                            to = iv[0] if iv[0] == iv[1] else None
                    bounded = to is not None and 0 <= to <= 1000
                if report:
                    run.instance('R-LOCK-WAIT', '%s: %s() in state %s%s' % (name, fn, lk, ' (constant-bounded poll)' if bounded else ''))
                    run.oblige('R-LOCK-WAIT', lk != 'L' or bounded, '%s:%s' % (name, fn))
                if lk == 'L' and not bounded:
                    viol('R-LOCK-WAIT', ev, 'wait-locked:%s' % fn, 'blocking %s() while the global lock is held' % fn, ctx)
                return None
            if fn is None:
                fld = callee_field(t)
                targets = [c for c in A.P.resolve_call(t) if c in A.F]
                isapp = fld in APPCB or (fld and fld.startswith('var:') and A._is_handler_copy(f, fld[4:]))
                if isapp:
                    ok = lk == 'U' or cb > 0 or incb
                    # the library's own .well-known/core handler is not an application callback
                    internal = A._only_internal_target(f, ev, env, t)
                    if not internal:
                        targets = []      # the callee is application code
                    elif fld.startswith('var:'):
                        targets = sorted(c for c in A.P.fp_stores().get('handler', ()) if c in A.F)
                    if not ok and internal:
                        ok = True
                    if report:
                        run.instance('R-LOCK-CB', '%s: call through %s in state %s cb=%d' % (name, fld, lk, cb))
                        run.oblige('R-LOCK-CB', ok, '%s:cb:%s' % (name, fld))
                    if not ok:
                        viol('R-LOCK-CB', ev, 'appcb-locked:%s' % fld,
                             'application callback %s invoked with the lock held and in_callback == 0 (re-entering the API deadlocks)' % fld, ctx)
                outs = None
                for c in targets:
                    r = A._call(name, ev, env, ctx, c, t, report, collect, incb)
                    if r is not None:
                        outs = (outs or []) + r
                return outs
            if fn in A.F:
                if fn in A.api and fn in A.lockops and name not in ('main',):
                    # library code calling a locking public wrapper
                    okw = lk == 'U'
                    if report:
                        run.oblige('R-LOCK-CALL', okw, '%s:calls-wrapper:%s' % (name, fn))
                    if not okw:
                        viol('R-LOCK-CALL', ev, 'wrapper-call:%s' % fn, 'COAP_API wrapper %s() called with the global lock held (it locks again)' % fn, ctx)
                return A._call(name, ev, env, ctx, fn, t, report, collect, incb)
            return None

        def on_exit(env, ctx):
            exits.add((env.ts['lock'], env.ts['cb']))
            if not report:
                return
            lk, cb = env.ts['lock'], env.ts['cb']
            if lk == 'F':
                return
            okb = lk == entry
            run.oblige('R-LOCK-BAL', okb, '%s:exit:%s->%s' % (name, entry, lk))
            if not okb:
                loc = ctx.block['elems'][-1]['loc'] if ctx.block['elems'] else f['loc']
                run.violation('R-LOCK-BAL', name, f['loc'], 'exit-%s-entered-%s' % (lk, entry),
                              'a path returns with the global lock %s although the function was entered %s%s' % (
                                  'held' if lk == 'L' else 'released', 'locked' if entry == 'L' else 'unlocked',
                                  A.chain((name, entry, incb, tuple(argfacts)))), ctx.path())
            okc = cb == 0
            run.oblige('R-LOCK-CB', okc, '%s:cb-balance' % name)
            if not okc:
                run.violation('R-LOCK-CB', name, f['loc'], 'in_callback-unbalanced',
                              'a path returns with global_lock.in_callback changed by %+d (a later unlock does not release the mutex)' % cb, ctx.path())
        init = Env(ts={'lock': entry, 'cb': 0})
        for path, v in argfacts:
            # path = 'P<i><suffix>'
            j = 1
            while j < len(path) and path[j].isdigit():
                j += 1
            i = int(path[1:j])
            if i < len(f['params']):
                init.null['v%d' % f['params'][i]['id'] + path[j:]] = v

        def key_fn(e):
            return (e.ts['lock'], e.ts['cb'], e.ts.get('win', 0), e.ts.get('nest', 0))
        ctx = solve(f, init, on_event, on_exit, keys, R, key_fn=key_fn)
        self.steps += ctx.steps
        self.maxsteps = max(self.maxsteps, ctx.steps)
        return exits

    def chain(self, c):
        out = []
        seen = set()
        while c in self.origin and c not in seen and len(out) < 6:
            seen.add(c)
            parent, loc = self.origin[c]
            out.append('%s@%s' % (parent[0], loc.rsplit('/', 1)[-1]))
            c = parent
        return (' via ' + ' <- '.join(out)) if out else ''

    def _is_handler_copy(self, f, varname):
        """local variable assigned from a ->handler[...] field (h = resource->handler[...])"""
        for b, ev in self.P.events(f):
            t = ev['e']
            r = None
            if t.get('k') == 'asg' and t.get('op') == '=' and strip(t['l']).get('k') == 'var' and strip(t['l'])['n'] == varname:
                r = t['r']
            elif t.get('k') == 'decl':
                for d in t['d']:
                    if d['n'] == varname and 'init' in d:
                        r = d['init']
            if r is not None:
                for y in walk(r):
                    if isinstance(y, dict) and y.get('k') == 'mem' and y['f'] in APPCB:
                        return True
        return False

    def _only_internal_target(self, f, ev, env, call):
        """call through a handler copy on a path where the resource is known to be the library's own
        (resource == &resource_uri_wellknown): the callee is hnd_get_wellknown_lkd, not the application"""
        for k, v in env.atoms.items():
            if 'resource_uri_wellknown' in k and '==' in k and v is True:
                return True
        return False

    def _call(self, caller, ev, env, ctx, fn, call, report, collect, incb=False):
        """effect of calling library function fn in the current state; records the callee context"""
        lk = env.ts['lock']
        cb = env.ts['cb']
        if lk == 'F':
            return None
        # translate facts about arguments
        af = []
        pp = self._param_paths(fn)
        if pp:
            args = call.get('a', [])
            for path in pp:
                j = 1
                while j < len(path) and path[j].isdigit():
                    j += 1
                i = int(path[1:j])
                if i >= len(args):
                    continue
                a = ap(args[i])
                if a is None:
                    if path[j:] == '' and strip(args[i]).get('k') == 'nullptr':
                        af.append((path, 'Z'))
                    elif path[j:] == '' and strip(args[i]).get('k') == 'un' and strip(args[i]).get('op') == '&':
                        af.append((path, 'N'))
                    continue
                v = env.nullf(a + path[j:])
                if v == 'N' and path in self._zonly.get(fn, ()):
                    continue     # deref bases: only 'known NULL' is worth a separate context
                if v:
                    af.append((path, v))
        cctx = (fn, lk, bool(cb > 0 or incb), tuple(af))
        if fn in self.api and fn in self.lockops and lk == 'L':
            return None       # already reported at the call site (wrapper-call)
        if collect is not None:
            collect.append((cctx, caller, ev['loc']))
        if (fn, lk) in self.summ:
            ex = self.summ.get((fn, lk))
            if ex:
                outs = []
                seen_states = set()
                for s in sorted(ex):
                    # an unbalanced exit of the callee is reported at the callee (R-LOCK-BAL, local before global); the caller goes on
                    # as if it were balanced, otherwise one root cause floods every function above it
                    s2 = s if s in (lk, 'F') else lk
                    if s2 in seen_states:
                        continue
                    seen_states.add(s2)
                    e = env.copy()
                    e.ts['lock'] = s2
                    outs.append(apply_generic(ev, e))
                return outs
        return None

    # ------------------------------------------------------------------ phases
    def relevant_functions(self):
        """functions with a rule event, closed under 'calls one'"""
        F = self.F
        rel = set()
        for n, f in F.items():
            for b, ev in self.P.events(f):
                t = ev['e']
                if is_marker(ev) or incb_op(t):
                    rel.add(n)
                    break
                if t.get('k') == 'call':
                    fn = t.get('fn')
                    if fn in (LOCK, UNLOCK) or fn in WAITS or fn in MUTEX_WAIT:
                        rel.add(n)
                        break
                    if fn is None:
                        fld = callee_field(t)
                        if fld in APPCB or (fld and fld.startswith('var:')):
                            rel.add(n)
                            break
                    if fn in self.api and fn in self.lockops:
                        rel.add(n)
                        break
        cg = self.P.callgraph()
        changed = True
        while changed:
            changed = False
            for n in F:
                if n not in rel and (cg.get(n, set()) & rel):
                    rel.add(n)
                    changed = True
        self.relfn = rel
        return rel

    def phase_a(self):
        """lock-effect summaries.  Only functions that perform lock operations themselves are analysed; a caller
        joins the analysis set when one of its callees turns out not to be the identity on the lock state
        (state F of a callee is not propagated: the caller is then checked under the stricter assumption)."""
        cg = self.P.callgraph()
        callers = collections.defaultdict(set)
        for n, cs in cg.items():
            for c in cs:
                callers[c].add(n)
        active = set(self.lockops)
        for n in active:
            for st in ('U', 'L'):
                self.summ[(n, st)] = frozenset([st])
        work = sorted(active)
        inwork = set(work)
        rounds = 0
        while work:
            n = work.pop(0)
            inwork.discard(n)
            rounds += 1
            if rounds > 3000:
                raise Budget('lock summaries do not converge')
            for st in ('U', 'L'):
                ex = self.analyze(n, st, report=False)
                new = frozenset(l for l, c in ex if l != 'F') or frozenset([st])
                new = new | self.summ.get((n, st), frozenset())
                if new != self.summ.get((n, st)):
                    self.summ[(n, st)] = new
                    if new != frozenset([st]):
                        for c in callers[n]:
                            if c in self.F and c not in (LOCK, UNLOCK):
                                if c not in active:
                                    active.add(c)
                                    for s2 in ('U', 'L'):
                                        self.summ.setdefault((c, s2), frozenset([s2]))
                                if c not in inwork:
                                    work.append(c)
                                    inwork.add(c)
        self.run.stats['lock_summary_analyses'] = rounds
        self.run.stats['lock_summary_functions'] = len(active)
        nonid = sorted('%s:%s->%s' % (n, st, ''.join(sorted(v))) for (n, st), v in self.summ.items() if v != frozenset([st]))
        self.run.notes.append('non-identity lock summaries: %s' % (', '.join(nonid[:40]) or 'none'))

    def phase_b(self):
        run = self.run
        rel = self.relevant_functions()
        roots = []
        for n in sorted(self.public):
            roots.append((n, 'U', False, ()))
        for n in sorted(self.addr_taken):
            if n not in self.public:
                roots.append((n, 'L', False, ()))
        work = list(reversed(roots))
        done = set()
        while work:
            c = work.pop()
            if c in done:
                continue
            done.add(c)
            fn, lk, incb, af = c
            if fn not in self.F or fn not in rel:
                continue
            coll = []
            self.analyze(fn, lk, incb, af, report=True, collect=coll)
            for cctx, caller, loc in coll:
                if cctx[0] not in rel:
                    continue
                if cctx not in done:
                    self.origin.setdefault(cctx, (c, loc))
                    work.append(cctx)
        self.contexts = done
        run.stats['lock_contexts'] = len(done)
        run.stats['lock_relevant_functions'] = len(rel)
        run.stats['lock_functions_reached'] = len(set(c[0] for c in done))


def run(run, P):
    for r in ('R-LOCK-BAL', 'R-LOCK-CALL', 'R-LOCK-CB', 'R-LOCK-WAIT'):
        run.rule(r)
    A = LockAnalysis(run, P)
    run.stats['public_functions'] = len(A.public)
    run.stats['coap_api_wrappers'] = len(A.wrappers)
    run.stats['functions_with_marker'] = len(A.marked)
    run.stats['functions_with_lock_ops'] = len(A.lockops)
    run.stats['lock_effect_closure'] = len(A.lockclos)
    run.stats['address_taken'] = len(A.addr_taken)
    for n in sorted(A.wrappers):
        run.instance('R-LOCK-BAL', 'wrapper %s' % n)
    for n in sorted(A.marked):
        run.instance('R-LOCK-CALL', 'marked %s' % n)
    A.phase_a()
    A.phase_b()
    run.stats['lock_solver_steps'] = A.steps
    run.stats['lock_max_steps_one_function'] = A.maxsteps
    return A
