"""R-WIDTH (C01, C03, C04).

(a) library-wide: a store into an integer object never passes through an EXPLICIT cast narrower than the
    object unless IVL (with the path facts the solver holds) proves the value fits the cast.
(b) decoder option-number arithmetic (frozen scope below): an assignment whose IVL range exceeds the target
    field (the value wraps) is followed, before any other use of the field and before any non-zero return,
    by a guard on the field that removes every wrapped value, or is preceded by a range guard on a
    structurally equal wider expression.
"""
from core.prog import strip, walk, ap, key, short, const_int, aps_of
from core.psts import Env, solve, relevance, apply_generic, INF
from core import ivl

# (b) frozen scope: function -> suffixes of the target access path
SCOPE_B = {
    'coap_opt_parse': ('result->delta',),
    'next_option_safe': ('*max_opt',),
}
SCOPE_B_EXCEPTIONS = {
    'coap_option_next': 'oi->number accumulates deltas of options that coap_pdu_parse_opt/next_option_safe already validated',
}


def _narrow_cast(rhs, width):
    """explicit cast at the top of rhs (below implicit casts) that is narrower than `width`"""
    x = rhs
    while isinstance(x, dict) and x.get('k') == 'cast' and not x.get('ex'):
        x = x.get('e')
    if isinstance(x, dict) and x.get('k') == 'cast' and x.get('ex') and x.get('w') and x['w'] < width:
        return x
    return None


def run_a(run, P, only=None):
    run.rule('R-WIDTH')
    for f in sorted(P.lib_funcs(), key=lambda f: f['name']):
        if only and f['name'] not in only:
            continue
        name = f['name']
        cands = []
        for b, ev in P.events(f):
            t = ev['e']
            if t.get('k') == 'asg' and t.get('op') == '=':
                l = strip(t['l'])
                w = (l.get('bf') or l.get('w')) if isinstance(l, dict) else None
                if w:
                    c = _narrow_cast(t['r'], w)
                    if c is not None and const_int(c['e']) is None:
                        cands.append((ev, c, w))
        if not cands:
            continue
        cand_ids = set(id(ev) for ev, c, w in cands)
        extra = set()
        for ev, c, w in cands:
            extra |= aps_of(c['e'])

        def is_rule_event(ev):
            return id(ev) in cand_ids
        keys, R = relevance(f, is_rule_event, extra)
        R = R | extra

        def on_event(ev, env, ctx):
            if id(ev) not in cand_ids:
                return None
            t = ev['e']
            l = strip(t['l'])
            w = l.get('bf') or l.get('w')
            c = _narrow_cast(t['r'], w)
            rng = ivl.eval_raw(c['e'], env)
            tr = ivl.type_range(c)
            ok = ivl.fits(rng, tr)
            run.instance('R-WIDTH', '%s: %s = (%s)(%s)' % (name, short(l), c.get('t'), short(c['e'])[:60]))
            run.oblige('R-WIDTH', ok, '%s:narrow-cast:%s' % (name, short(l)))
            if not ok:
                run.violation('R-WIDTH', name, ev['loc'], 'narrowing-cast:%s' % short(l),
                              '%s (%d bits) is assigned through an explicit (%s) cast although the value %s can be %s, outside %s: the stored value is truncated'
                              % (short(l), w, c.get('t'), short(c['e'])[:60], ivl.fmt(rng), ivl.fmt(tr)), ctx.path())
            return None
        ctx = solve(f, Env(), on_event, None, keys, R)
        run.stats['width_solver_steps'] += ctx.steps


def run_b(run, P):
    run.rule('R-WIDTH')
    for fname, suffixes in sorted(SCOPE_B.items()):
        if not P.has(fname):
            if run.fixture_mode:
                continue
            run.require(False, 'anchor function %s() of R-WIDTH(b) not found' % fname)
        f = P.func(fname)

        def in_scope(node):
            a = ap(node)
            if not a:
                return False
            n = strip(node)
            if not (isinstance(n, dict) and (n.get('w') or n.get('bf'))):
                return False
            return short(n) in suffixes
        targets = set()
        nsites = 0
        for b, ev in P.events(f):
            t = ev['e']
            if t.get('k') == 'asg' and in_scope(t['l']):
                targets.add(ap(t['l']))
                nsites += 1
        run.require(nsites > 0 or run.fixture_mode, 'R-WIDTH(b): no assignment to the option-number field found in %s()' % fname)

        def is_rule_event(ev):
            t = ev['e']
            if t.get('k') == 'asg' and in_scope(t['l']):
                return True
            if t.get('k') == 'ret':
                return True
            for y in walk(t):
                if isinstance(y, dict) and ap(y) in targets:
                    return True
            return False
        keys, R = relevance(f, is_rule_event, targets)
        R = R | targets

        def pending(env):
            return [(k[5:], v) for k, v in env.ts.items() if k.startswith('wrap:')]

        def normalize(env):
            """a guard on the field that excludes every wrapped value discharges the pending wrap"""
            e = None
            for a, (wlo, whi, loc, what) in pending(env):
                lo, hi, ex = env.intf(a)
                if lo > whi or hi < wlo:
                    e = e or env.copy()
                    del e.ts['wrap:' + a]
                    run.oblige('R-WIDTH', True, '%s:wrap-guard:%s' % (fname, what))
            return e or env

        def on_event(ev, env0, ctx):
            env = normalize(env0)
            t = ev['e']
            k = t.get('k')
            if k == 'asg' and in_scope(t['l']):
                l = strip(t['l'])
                a = ap(l)
                tr = ivl.type_range(l)
                if t.get('op') == '=':
                    comp_key = None
                    rng = ivl.eval_raw(t['r'], env)
                    # assignment truncates through the implicit conversion: look below implicit casts
                    r = t['r']
                    while isinstance(r, dict) and r.get('k') == 'cast' and not r.get('ex'):
                        r = r['e']
                    rng = ivl.eval_raw(r, env)
                    comp_key = key(r)
                elif t.get('op') in ('+=', '-=', '*=', '<<='):
                    op = t['op'][:-1]
                    lr = ivl.eval_raw(l, env)
                    rr = ivl.eval_raw(t['r'], env)
                    if op == '+':
                        rng = (lr[0] + rr[0], lr[1] + rr[1])
                    elif op == '-':
                        rng = (lr[0] - rr[1], lr[1] - rr[0])
                    else:
                        rng = (-INF, INF)
                    comp_key = '(' + key(l) + op + key(t['r']) + ')'
                else:
                    rng = (-INF, INF)
                    comp_key = None
                what = '%s %s %s' % (short(l), t.get('op'), short(t['r'])[:50])
                run.instance('R-WIDTH', '%s: %s  range %s into %s' % (fname, what, ivl.fmt(rng), ivl.fmt(tr)))
                if t.get('op') != '=' and env.ts.get('wrap:' + a):
                    wl, wh, wloc, wwhat = env.ts['wrap:' + a]
                    run.oblige('R-WIDTH', False, '%s:wrap:%s' % (fname, wwhat))
                    run.violation('R-WIDTH', fname, wloc, 'wrap:%s' % wwhat.split(' ')[0],
                                  '%s can exceed the %s field: values wrap to %s and no guard separates them before the field is updated again (%s) '
                                  '(an option number above the field range is reported as a small one)' % (wwhat, wwhat.split(' ')[0], ivl.fmt((wl, wh)), what), ctx.path())
                e = apply_generic(ev, env, R)
                if e is env:
                    e = env.copy()
                e.ts.pop('wrap:' + a, None)
                if ivl.fits(rng, tr):
                    run.oblige('R-WIDTH', True, '%s:fits:%s' % (fname, what))
                    e.ints[a] = (rng[0], rng[1], frozenset())
                    return [e]
                # (ii) preceded by a range guard on a structurally equal wider expression?
                guarded = False
                if comp_key:
                    for ak, av in env.atoms.items():
                        for op_, neg in (('>', False), ('>=', False), ('<=', True), ('<', True)):
                            pre = '(' + comp_key + op_
                            if ak.startswith(pre) and ak.endswith(')'):
                                try:
                                    K = int(ak[len(pre):-1])
                                except ValueError:
                                    continue
                                bound = K if op_ in ('>', '<=') else K - 1
                                if av == neg and bound <= tr[1]:
                                    guarded = True
                                    rng = (rng[0], min(rng[1], bound))
                if guarded and ivl.fits(rng, tr):
                    run.oblige('R-WIDTH', True, '%s:range-guard:%s' % (fname, what))
                    e.ints[a] = (rng[0], rng[1], frozenset())
                    return [e]
                # the value wraps: unwrapped part [rng.lo, tmax], wrapped part [0 .. rng.hi - 2^w]
                if rng[1] == INF or rng[0] < tr[0]:
                    wl, wh = tr
                else:
                    wl, wh = tr[0], rng[1] - (tr[1] + 1)
                e.ts['wrap:' + a] = (wl, wh, ev['loc'], what)
                e.ints.pop(a, None)
                return [e]
            # any other read of a field with a pending wrap is a use of a wrapped value
            pend = pending(env)
            if pend:
                bad = None
                if k == 'ret':
                    v = const_int(t.get('e')) if 'e' in t else None
                    if 'e' in t and v != 0:
                        bad = pend[0]
                    how = 'the function returns success'
                elif k in ('asg', 'call', 'decl') or (k == 'un' and t.get('op') in ('++', '--')):
                    for y in walk(t):
                        if isinstance(y, dict) and y.get('k') in ('mem', 'un', 'var'):
                            a = ap(y)
                            for pa, pv in pend:
                                if a == pa:
                                    bad = (pa, pv)
                    how = 'it is used (%s)' % short(t)[:50]
                else:
                    how = ''
                if bad:
                    pa, (wl, wh, loc, what) = bad
                    run.oblige('R-WIDTH', False, '%s:wrap:%s' % (fname, what))
                    run.violation('R-WIDTH', fname, loc, 'wrap:%s' % what.split(' ')[0],
                                  '%s can exceed the %s field: values wrap to %s and no guard separates them before %s '
                                  '(an option number above the field range is reported as a small one)' % (what, what.split(' ')[0], ivl.fmt((wl, wh)), how), ctx.path())
                    e = env.copy()
                    del e.ts['wrap:' + pa]
                    return [apply_generic(ev, e, R)]
            if env is not env0:
                return [apply_generic(ev, env, R)]
            return None

        def key_fn(e):
            return tuple(sorted((k, v[0], v[1]) for k, v in e.ts.items() if k.startswith('wrap:')))
        def on_branch(b, s, env, ctx):
            # `A op K - B` says the same as `(B + A) op K`: record the sum form, which is what the range guard (ii) looks for
            c = strip((b.get('term') or {}).get('cond'))
            if not (isinstance(c, dict) and c.get('k') == 'bin' and c.get('op') in ('>', '>=', '<', '<=') and len(b['succ']) == 2):
                return env
            r = strip(c['r'])
            if isinstance(r, dict) and r.get('k') == 'bin' and r.get('op') == '-' and const_int(r['l']) is not None and const_int(c['l']) is None:
                e = env.copy()
                truth = s == b['succ'][0]
                for x, y in ((r['r'], c['l']), (c['l'], r['r'])):
                    e.atoms['((%s+%s)%s%d)' % (key(x), key(y), c['op'], const_int(r['l']))] = truth
                return e
            return env
        ctx = solve(f, Env(), on_event, None, keys, R, key_fn=key_fn, on_branch=on_branch)
        run.stats['width_solver_steps'] += ctx.steps
    for n, why in SCOPE_B_EXCEPTIONS.items():
        run.notes.append('R-WIDTH(b) exception %s: %s' % (n, why))


# ---------------------------------------------------------------------------------------------------------------
def run_c(run, P):
    """R-WIDTH (c): a named constant (macro / enumerator) assigned to a record field survives the implicit conversion to the field's
    type.  libcoap marks "none yet" with sentinels outside the value space (COAP_INVALID_MID = -1 in an int-sized coap_mid_t, while
    real message ids are 0..65535); if the field is narrowed the sentinel wraps onto a legal value (0xFFFF) and the first message
    that carries it is taken for a duplicate.  Library-wide; constants without a name (plain -1 / ~0 idioms) are not judged."""
    from core.prog import strip, walk, ap, short, const_int
    run.rule('R-WIDTH')
    n = 0
    # the extractor folds `field = MACRO` to the converted value; the macro's own value is what it has where it appears in its
    # widest (then signed) type anywhere in the program
    canon = {}
    for f in P.funcs.values():
        for b, ev in P.events(f):
            for x in walk(ev['e']):
                if isinstance(x, dict) and x.get('k') == 'int' and (x.get('mn') or x.get('en')):
                    nm = x.get('mn') or x.get('en')
                    rank = (x.get('w', 0), 1 if x.get('s') else 0)
                    if nm not in canon or rank > canon[nm][0]:
                        canon[nm] = (rank, x['v'])
        for b in f['blocks']:
            c = (b.get('term') or {}).get('cond')
            if c is not None:
                for x in walk(c):
                    if isinstance(x, dict) and x.get('k') == 'int' and (x.get('mn') or x.get('en')):
                        nm = x.get('mn') or x.get('en')
                        rank = (x.get('w', 0), 1 if x.get('s') else 0)
                        if nm not in canon or rank > canon[nm][0]:
                            canon[nm] = (rank, x['v'])
    for f in sorted(P.lib_funcs(), key=lambda f: f['name']):
        for b, ev in P.events(f):
            t = ev['e']
            if t.get('k') != 'asg' or t.get('op') != '=':
                continue
            l = strip(t['l'])
            if not isinstance(l, dict) or l.get('k') != 'mem' or not l.get('w') or l.get('p'):
                continue
            inner = None
            for x in walk(t['r']):
                if isinstance(x, dict) and x.get('k') == 'int' and (x.get('mn') or x.get('en')):
                    inner = x
            r0 = strip(t['r'])
            if inner is None or const_int(t['r']) is None:
                continue
            # only `field = CONSTANT` (possibly under casts), not expressions that merely contain one
            y = t['r']
            while isinstance(y, dict) and y.get('k') == 'cast':
                y = y.get('e')
            if y is not inner:
                continue
            n += 1
            w = l['w']
            lo, hi = (-(1 << (w - 1)), (1 << (w - 1)) - 1) if l.get('s') else (0, (1 << w) - 1)
            v = canon.get(inner.get('mn') or inner.get('en'), (None, inner['v']))[1]
            ok = lo <= v <= hi
            run.oblige('R-WIDTH', ok, 'sentinel-fits')
            if not ok:
                run.instance('R-WIDTH', '%s: %s' % (f['name'], short(t)[:70]))
                run.violation('R-WIDTH', f['name'], ev['loc'], 'constant-wraps:%s.%s' % (l.get('rec'), l['f']),
                              '%s = %s (%d) does not fit the %d-bit %s field: the stored value is %d, a legal value of the quantity the field holds, so the "none yet" marker is '
                              'indistinguishable from real data' % (short(l), inner.get('mn') or inner.get('en'), v, w, 'signed' if l.get('s') else 'unsigned', v & ((1 << w) - 1)), [])
    run.instance('R-WIDTH', 'named-constant stores into record fields: %d' % n, n=1 if n else 0)
    run.require_count(n >= 50 or run.fixture_mode, 'R-WIDTH(c): only %d stores of named constants into record fields found' % n)


def run_d(run, P, units=('coap_pdu.c', 'coap_option.c'), widths=(8, 16), min_src=0):
    """R-WIDTH (d): implicit narrowing at a call.  In the decoding units, an argument that the compiler converts to a NARROWER integer type
    for the parameter (implicit integral cast to 8 or 16 bits from a wider variable or field; arithmetic is declined) is only handed over when the
    interval analysis proves, on that path, that the value fits the parameter.  The per-option length limits live in functions that take
    the length as uint16_t; an option length is up to 65535 + 269, so `coap_pdu_parse_opt_base(pdu, len)` with a uint32_t len judges an
    option of 65536 + x bytes as one of x bytes."""
    run.rule('R-WIDTH')
    n = 0
    for f in sorted(P.lib_funcs(), key=lambda f: f['name']):
        if units and f['unit'] not in units:
            continue
        name = f['name']
        cands = []
        for b, ev in P.events(f):
            for t in walk(ev['e']):
                if not (isinstance(t, dict) and t.get('k') == 'call' and t.get('fn') and P.has(t['fn'])):
                    continue
                for i, a in enumerate(t.get('a') or []):
                    if isinstance(a, dict) and a.get('k') == 'cast' and not a.get('ex') and a.get('ck') == 'IntegralCast' and a.get('w') in widths:
                        inner = a.get('e')
                        iw = strip(inner).get('w') if isinstance(strip(inner), dict) else None
                        # a plain variable / field only: differences (`number - max_opt`) are bounded by relations between their operands,
                        # which the interval domain does not carry -- they are declined here
                        if const_int(inner) is None and iw and iw > a['w'] and iw >= min_src and ap(strip(inner)):
                            cands.append((ev, t, i, a))
        if not cands:
            continue
        cand_evs = set(id(c[0]) for c in cands)
        extra = set()
        for ev, t, i, a in cands:
            extra |= aps_of(a['e'])

        def is_rule_event(ev):
            return id(ev) in cand_evs
        keys, R = relevance(f, is_rule_event, extra)
        R = R | extra
        done = set()

        def on_event(ev, env, ctx):
            if id(ev) not in cand_evs:
                return None
            for cev, t, i, a in cands:
                if cev is not ev:
                    continue
                rng = ivl.eval_raw(a['e'], env)
                tr = ivl.type_range(a)
                ok = ivl.fits(rng, tr)
                k2 = (ev['loc'], t['fn'], i)
                run.oblige('R-WIDTH', ok, '%s:implicit-narrowing-at-call:%s' % (name, t['fn']))
                if k2 not in done:
                    done.add(k2)
                    run.instance('R-WIDTH', '%s: %s(arg %d: %s -> %s)' % (name, t['fn'], i, short(a['e'])[:40], a.get('t')))
                if not ok:
                    run.violation('R-WIDTH', name, ev['loc'], 'implicit-narrowing-at-call:%s:arg%d' % (t['fn'], i),
                                  '%s is converted to %s (%d bits) for parameter %d of %s() although it can be %s on this path: the callee sees the value modulo 2^%d -- a '
                                  'limit it enforces is enforced on the wrong number' % (short(a['e'])[:50], a.get('t'), a['w'], i, t['fn'], ivl.fmt(rng), a['w']), ctx.path())
            return None
        n += len(cands)
        ctx = solve(f, Env(), on_event, None, keys, R)
        run.stats['width_solver_steps'] += ctx.steps
    # expected count on the repaired tree is zero: the positive example lives in fixtures/C03_width_call.c
    run.stats['width_implicit_call_narrowings'] = n


def run_e(run, P, units=None):
    """R-WIDTH (e): a DIFFERENCE of 64-bit quantities, one of them a record field (a persistent counter: sequence number, tick), is not
    silently converted to a narrower integer on its way into a variable that a relational comparison then judges.  `uint32_t shift =
    ctx->last_seq - incoming_seq - 1; if (shift > window)` decides on the distance modulo 2^32: a sequence number 2^32 + k behind the
    newest one looks k behind, lands inside the replay window and is accepted (or marks the wrong bit).  Explicit casts are the
    programmer's statement and are left to clauses (a)/(b); a narrowing that sits under a dominating comparison of the same difference
    is accepted."""
    from core.prog import dominators
    run.rule('R-WIDTH')
    n = nd = 0
    for f in sorted(P.lib_funcs(), key=lambda f: f['name']):
        if units and f['unit'] not in units:
            continue
        cands = []
        for b, ev in P.events(f):
            t = ev['e']
            pairs = []
            if t.get('k') == 'decl':
                pairs = [(d['n'], 'v%s' % d['id'], d['init']) for d in t['d'] if d.get('init')]
            elif t.get('k') == 'asg' and t.get('op') == '=' and ev.get('top', True) and ap(t['l']):
                pairs = [(short(t['l']), ap(t['l']), t['r'])]
            for nm, key_, init in pairs:
                if not (isinstance(init, dict) and init.get('k') == 'cast'):
                    continue
                inner = init.get('e')
                while isinstance(inner, dict) and inner.get('k') == 'cast' and inner.get('ck') in ('LValueToRValue', 'NoOp'):
                    inner = inner.get('e')
                if not (isinstance(inner, dict) and inner.get('k') == 'bin' and inner.get('op') == '-' and inner.get('w') == 64):
                    continue
                if not any(isinstance(x, dict) and x.get('k') == 'mem' and x.get('w') == 64 for x in walk(inner)):
                    continue
                nd += 1
                if init.get('ck') == 'IntegralCast' and not init.get('ex') and init.get('w', 64) < 64:
                    cands.append((b, ev, nm, key_, init, inner))
        if not cands:
            continue
        dom = dominators(f)
        for b, ev, nm, key_, init, inner in cands:
            judged = None
            for bb in f['blocks']:
                c = (bb.get('term') or {}).get('cond')
                if c is None:
                    continue
                for x in walk(c):
                    if isinstance(x, dict) and x.get('k') == 'bin' and x.get('op') in ('<', '>', '<=', '>=') and \
                       any(isinstance(y, dict) and ap(y) == key_ for y in walk(x)):
                        judged = judged or short(x)
            if not judged:
                continue
            guarded = False
            for bb in f['blocks']:
                c = (bb.get('term') or {}).get('cond')
                if c is not None and bb['id'] in dom.get(b['id'], ()) and bb['id'] != b['id'] and short(inner) in short(c):
                    guarded = True
            n += 1
            run.instance('R-WIDTH', '%s: %s = %s (64 -> %d bits, implicit), judged by %s' % (f['name'], nm, short(inner)[:50], init['w'], judged[:40]))
            run.oblige('R-WIDTH', guarded, '%s:%s:difference-keeps-its-width' % (f['name'], nm))
            if not guarded:
                run.violation('R-WIDTH', f['name'], ev['loc'], 'implicit-narrowing-of-64bit-difference:%s' % nm,
                              '%s receives %s, a 64-bit difference of a persistent counter, through an implicit conversion to %d bits and is then judged by `%s`: a distance of '
                              '2^%d + k passes for k' % (nm, short(inner)[:60], init['w'], judged[:50], init['w']), [])
    run.stats['width_64bit_differences_stored'] = nd
    run.stats['width_64bit_differences_narrowed'] = n
    run.require_count(nd >= 1 or run.fixture_mode or run.cfg != 'base', 'R-WIDTH(e): no stored difference of a 64-bit record field found any more (expected oscore_validate_sender_seq: shift)')


def run_f(run, P, units=None):
    """R-WIDTH (f): an explicit narrowing cast binds tighter than a shift.  `(uint8_t)(x - 269) >> 8` first cuts the value down to 8 bits
    and then shifts all of them out: the expression is 0 whatever x is, where `(uint8_t)((x - 269) >> 8)` -- the high byte -- was meant.
    Every right shift by a constant K whose left operand is (below the implicit promotions) an explicit cast to an unsigned type of at
    most K bits is reported: in an encoder it writes 0 for the high byte of a length or delta, so every value >= 256 above the bias is
    encoded as a smaller one."""
    run.rule('R-WIDTH')
    n = nbad = 0
    seen = set()
    for f in sorted(P.lib_funcs(), key=lambda f: f['name']):
        if units and f['unit'] not in units:
            continue
        for b, ev in P.events(f):
            for t in walk(ev['e']):
                if not (isinstance(t, dict) and t.get('k') == 'bin' and t.get('op') == '>>' and const_int(t['r']) is not None and const_int(t) is None):
                    continue
                K = const_int(t['r'])
                l = t['l']
                while isinstance(l, dict) and l.get('k') == 'cast' and not l.get('ex'):
                    l = l.get('e')
                if not (isinstance(l, dict) and l.get('k') == 'cast' and l.get('ex') and l.get('w') and not l.get('s')):
                    continue
                k2 = (ev['loc'], short(t))
                if k2 in seen:
                    continue
                seen.add(k2)
                n += 1
                ok = l['w'] > K
                run.oblige('R-WIDTH', ok, '%s:shift-keeps-bits' % f['name'])
                if not ok:
                    nbad += 1
                    run.violation('R-WIDTH', f['name'], ev['loc'], 'cast-before-shift:%s' % short(t)[:40].replace(' ', ''),
                                  '`%s` casts to %s (%d bits) BEFORE shifting right by %d: every bit is shifted out and the expression is always 0 -- the cast was meant '
                                  'to apply to the shifted value (the high byte of a length / delta is written as 0)' % (short(t)[:60], l.get('t'), l['w'], K), [])
    run.instance('R-WIDTH', 'right shifts of explicitly narrowed values keep at least one bit: %d site(s)' % n)
    run.stats['width_cast_then_shift_sites'] = n


def run_g(run, P, units=('coap_pdu.c', 'coap_option.c')):
    """R-WIDTH (g): implicit narrowing into a local.  In the codec units a value the compiler converts implicitly to a NARROWER integer type on
    its way into a variable (initialiser or plain assignment) fits that type whenever the interval analysis can bound it at all: an
    expression assembled from wire bytes and constants (`(token[0] << 8) + token[1] + 269`: [269, 65804]) that exceeds the target (uint16_t)
    is reported.  Values the analysis cannot bound (a wider variable with no facts) are declined -- they are what clauses (a), (d) and the
    parameter limits deal with.  A decoded length taken modulo 2^16 makes the parser disagree with the encoder for exactly the largest
    legal values."""
    run.rule('R-WIDTH')
    n = 0
    for f in sorted(P.lib_funcs(), key=lambda f: f['name']):
        if units and f['unit'] not in units:
            continue
        name = f['name']
        cands = []
        for b, ev in P.events(f):
            t = ev['e']
            pairs = []
            if t.get('k') == 'decl':
                pairs = [(d['n'], d['init']) for d in t['d'] if d.get('init')]
            elif t.get('k') == 'asg' and t.get('op') == '=' and ev.get('top', True):
                l0 = strip(t['l'])
                if isinstance(l0, dict) and l0.get('k') == 'var':
                    pairs = [(short(t['l']), t['r'])]
            for nm, init in pairs:
                if isinstance(init, dict) and init.get('k') == 'cast' and not init.get('ex') and init.get('ck') == 'IntegralCast' and init.get('w'):
                    inner = init.get('e')
                    i0 = strip(inner)
                    if isinstance(i0, dict) and i0.get('w') and i0['w'] > init['w'] and const_int(inner) is None:
                        cands.append((ev, nm, init, inner))
        if not cands:
            continue
        cand_evs = set(id(c[0]) for c in cands)
        extra = set()
        for ev, nm, init, inner in cands:
            extra |= aps_of(inner)

        def is_rule_event(ev):
            return id(ev) in cand_evs
        keys, R = relevance(f, is_rule_event, extra)
        R = R | extra
        done = set()

        def on_event(ev, env, ctx):
            if id(ev) not in cand_evs:
                return None
            for cev, nm, init, inner in cands:
                if cev is not ev:
                    continue
                rng = ivl.eval_raw(inner, env)
                tr = ivl.type_range(init)
                if rng[1] == INF or rng[0] == -INF:
                    continue                                   # unbounded: declined
                # a bound that is merely the range of the wider type says nothing
                if rng == ivl.type_range(strip(inner)):
                    continue
                ok = ivl.fits(rng, tr)
                k2 = (ev['loc'], nm)
                run.oblige('R-WIDTH', ok, '%s:%s:implicit-narrowing-into-local' % (name, nm))
                if k2 not in done:
                    done.add(k2)
                    run.instance('R-WIDTH', '%s: %s = %s  range %s into %s' % (name, nm, short(inner)[:40], ivl.fmt(rng), init.get('t')))
                if not ok:
                    run.violation('R-WIDTH', name, ev['loc'], 'implicit-narrowing-into-local:%s' % nm,
                                  '%s receives %s, which can be %s, through an implicit conversion to %s (%d bits): the largest legal values arrive modulo 2^%d'
                                  % (nm, short(inner)[:50], ivl.fmt(rng), init.get('t'), init['w'], init['w']), ctx.path())
            return None
        n += len(cands)
        ctx = solve(f, Env(), on_event, None, keys, R)
        run.stats['width_solver_steps'] += ctx.steps
    run.stats['width_implicit_local_narrowings'] = n


def run_h(run, P, units=('coap_pdu.c', 'coap_option.c')):
    """R-WIDTH (h): wrap before widening.  In the codec units, an addition / multiplication / left shift that is carried out in a 32-bit
    type and whose result is then converted to a 64-bit type (the implicit conversion of an initialiser, an assignment or a return to
    size_t) does not exceed 32 bits by the interval analysis: `uint32_t ext_len = ...; size = ext_len + 65805;` adds in 32 bits, wraps
    for the top 65805 lengths and hands a small size to the code that refuses over-long messages.  Where the operands are not bounded
    below 2^32 - K the operation has to be done in the wide type (one operand converted first)."""
    run.rule('R-WIDTH')
    n = 0
    for f in sorted(P.lib_funcs(), key=lambda f: f['name']):
        if units and f['unit'] not in units:
            continue
        name = f['name']
        cands = []
        for b, ev in P.events(f):
            t = ev['e']
            rhs = []
            if t.get('k') == 'decl':
                rhs = [(d['n'], d['init']) for d in t['d'] if d.get('init')]
            elif t.get('k') == 'asg' and t.get('op') == '=' and ev.get('top'):
                rhs = [(short(t['l']), t['r'])]
            elif t.get('k') == 'ret' and t.get('e') is not None:
                rhs = [('the return value', t['e'])]
            for nm, r in rhs:
                if isinstance(r, dict) and r.get('k') == 'cast' and not r.get('ex') and r.get('ck') == 'IntegralCast' and r.get('w') == 64:
                    inner = r.get('e')
                    while isinstance(inner, dict) and inner.get('k') == 'cast' and inner.get('ck') in ('LValueToRValue', 'NoOp'):
                        inner = inner.get('e')
                    if isinstance(inner, dict) and inner.get('k') == 'bin' and inner.get('op') in ('+', '*', '<<') and inner.get('w') == 32 and not inner.get('s'):
                        cands.append((ev, nm, inner))
        if not cands:
            continue
        cand_evs = set(id(c[0]) for c in cands)
        extra = set()
        for ev, nm, inner in cands:
            extra |= aps_of(inner)
        keys, R = relevance(f, lambda ev: id(ev) in cand_evs, extra)
        R = R | extra
        done = set()

        def on_event(ev, env, ctx):
            if id(ev) not in cand_evs:
                return None
            for cev, nm, inner in cands:
                if cev is not ev:
                    continue
                lr = ivl.eval_raw(inner['l'], env)
                rr = ivl.eval_raw(inner['r'], env)
                if inner['op'] == '+':
                    hi = lr[1] + rr[1]
                elif inner['op'] == '*':
                    hi = lr[1] * rr[1] if INF not in (lr[1], rr[1]) else INF
                else:
                    hi = lr[1] << rr[1] if INF not in (lr[1], rr[1]) and rr[1] < 64 else INF
                ok = hi <= 0xFFFFFFFF
                if (ev['loc'], nm) not in done:
                    done.add((ev['loc'], nm))
                    run.instance('R-WIDTH', '%s: %s = (64 bit) %s computed in 32 bits, at most %s' % (name, nm, short(inner)[:40], hi))
                run.oblige('R-WIDTH', ok, '%s:%s:no-wrap-before-widening' % (name, nm))
                if not ok:
                    run.violation('R-WIDTH', name, ev['loc'], 'wrap-before-widening:%s' % nm.replace(' ', '-'),
                                  '`%s` is computed in a 32-bit type and only then converted to 64 bits for %s; it can reach %s, so the largest inputs wrap to small values '
                                  '(an over-long length passes for a short one)' % (short(inner)[:60], nm, hi if hi != INF else 'any value'), ctx.path())
            return None
        n += len(cands)
        solve(f, Env(), on_event, None, keys, R)
    run.stats['width_32bit_ops_widened'] = n
