"""R-NO-EXIT (C18): a library does not end the process it lives in.  No library function calls exit(), _exit(), abort() or quick_exit() --
directly or through a macro (NDEBUG build: assert() is gone and is not counted).  The interesting instances come out of macros: the bundled
uthash is configured to call uthash_fatal() = exit(-1) when the allocation of a table or of its buckets fails inside HASH_ADD, so a single
failed allocation while a session / resource / cache entry / OSCORE association is added terminates the application instead of failing the
operation.  Instances are keyed by function and by the macro the call comes out of, so a new site is reported even while the known ones are
listed as findings."""
from core.prog import walk

FATAL = ('exit', '_exit', 'abort', 'quick_exit', '_Exit')


def run(run, P):
    run.rule('R-NO-EXIT')
    nfun = 0
    for f in sorted(P.lib_funcs(), key=lambda f: f['name']):
        nfun += 1
        seen = set()
        for b, ev in P.events(f):
            for t in walk(ev['e']):
                if isinstance(t, dict) and t.get('k') == 'call' and t.get('fn') in FATAL:
                    mac = list(ev.get('mac') or ())
                    via = mac[0] if mac else 'direct'
                    k = (t['fn'], via)
                    if k in seen:
                        continue
                    seen.add(k)
                    run.oblige('R-NO-EXIT', False, '%s:no-process-exit' % f['name'])
                    run.violation('R-NO-EXIT', f['name'], ev['loc'], 'process-exit:%s:%s' % (t['fn'], via),
                                  '%s() is called from library code (%s): the application\'s process is terminated instead of the operation failing%s' %
                                  (t['fn'], 'out of the macro ' + ' <- '.join(mac[:3]) if mac else 'directly',
                                   '; this is the out-of-memory arm of a uthash HASH_ADD' if 'uthash_fatal' in mac else ''), [])
        run.oblige('R-NO-EXIT', True, '%s:scanned' % f['name'])
    run.instance('R-NO-EXIT', 'library functions scanned for process-ending calls', n=nfun)
    run.require(nfun >= 100 or run.fixture_mode, 'R-NO-EXIT: fewer than 100 library functions scanned')
