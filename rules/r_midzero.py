"""R-MID-ZERO (C08, C06, C07): message ids are 16 bit values and 0 is one of them; functions that hand out or pass on a message id report
failure with COAP_INVALID_MID (-1).  A test of such a value (anything typed coap_mid_t: results of coap_send*, coap_wait_ack, coap_retransmit,
locals and fields of that type) that separates 0 from the positive values -- `> 0`, `>= 1`, `<= 0`, `< 1`, or plain truthiness -- treats the
message with id 0 as a failure (or the failure as a message): once per 65536 messages of a session the node is freed although it was queued,
never retransmitted, never un-counted.  Allowed: comparisons with COAP_INVALID_MID, `>= 0`, `< 0`, and equality with another id."""
from core.prog import strip, walk, ap, short, const_int

MID_T = 'coap_mid_t'


def _is_mid(x):
    x0 = x
    # look through casts but take the type of the innermost typed node
    while isinstance(x0, dict) and x0.get('k') == 'cast':
        if x0.get('t') == MID_T:
            return True
        x0 = x0.get('e')
    return isinstance(x0, dict) and x0.get('t') == MID_T


def run(run, P):
    run.rule('R-MID-ZERO')
    n = 0
    for f in sorted(P.lib_funcs(), key=lambda f: f['name']):
        seen = set()
        for b in f['blocks']:
            exprs = [(ev['e'], ev['loc']) for ev in b['elems']]
            c = (b.get('term') or {}).get('cond')
            if c is not None:
                exprs.append((c, b['term'].get('loc')))
                # truthiness of a mid as a whole condition
                c0 = strip(c)
                neg = False
                while isinstance(c0, dict) and c0.get('k') == 'un' and c0.get('op') == '!':
                    c0 = strip(c0['e'])
                if _is_mid(c) or (_is_mid(c0) and isinstance(c0, dict) and c0.get('k') in ('var', 'mem', 'call')):
                    k2 = (b['term'].get('loc'), 'truth')
                    if k2 not in seen:
                        seen.add(k2)
                        n += 1
                        run.instance('R-MID-ZERO', '%s: %s' % (f['name'], short(c)[:60]))
                        run.oblige('R-MID-ZERO', False, '%s:mid-zero' % f['name'])
                        run.violation('R-MID-ZERO', f['name'], b['term'].get('loc'), 'mid-tested-for-truth',
                                      'a message id (%s) is used as a truth value: the id 0 is a valid id and is taken for failure / absence' % short(c0)[:50], [])
            for e, loc in exprs:
                for x in walk(e):
                    if not (isinstance(x, dict) and x.get('k') == 'bin' and x.get('op') in ('<', '<=', '>', '>=', '==', '!=')):
                        continue
                    for a, o, left in ((x['l'], x['r'], True), (x['r'], x['l'], False)):
                        K = const_int(o)
                        if K is None or not _is_mid(a):
                            continue
                        k2 = (loc, short(x)[:70])
                        if k2 in seen:
                            continue
                        seen.add(k2)
                        n += 1
                        op = x['op'] if left else {'<': '>', '<=': '>=', '>': '<', '>=': '<=', '==': '==', '!=': '!='}[x['op']]
                        # does the comparison give different answers for 0 and for some positive id?
                        f0 = {'<': 0 < K, '<=': 0 <= K, '>': 0 > K, '>=': 0 >= K, '==': 0 == K, '!=': 0 != K}[op]
                        fp = set({'<': v < K, '<=': v <= K, '>': v > K, '>=': v >= K, '==': v == K, '!=': v != K}[op] for v in (1, 2, 65535))
                        bad = op in ('<', '<=', '>', '>=') and len(fp) == 1 and f0 not in fp
                        run.instance('R-MID-ZERO', '%s: %s' % (f['name'], short(x)[:60]))
                        run.oblige('R-MID-ZERO', not bad, '%s:mid-zero' % f['name'])
                        if bad:
                            run.violation('R-MID-ZERO', f['name'], loc, 'mid-zero-separated:%s%d' % (op, K),
                                          '%s treats the message id 0 differently from every other id: 0 is a valid id (failure is COAP_INVALID_MID, -1), so the message that '
                                          'happens to carry it is handled as a failure' % short(x)[:60], [])
    run.require_count(n >= (5 if run.cfg == 'base' else 2) or run.fixture_mode, 'R-MID-ZERO: fewer than 5 tests of message-id typed values found')
