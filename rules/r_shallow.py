"""R-SHALLOW-ALIAS (C18): shallow struct copy followed by a deep fix-up.

libcoap builds its large-transfer descriptors by  memcpy(&holder->pdu, pdu, sizeof(holder->pdu))  and then gives the copy
its own buffers.  Between the copy and the re-assignment of an *owned* pointer field the holder's field still points into
the object it was copied from; the holder's destructor frees that field.  So a destructor call in that window -- which
only happens on an allocation-failure path -- releases the caller's buffer, and the caller releases it again.

 owned fields : computed. For every function g and parameter i the access paths below the parameter that g hands to
                coap_free_type()/free() (pointer arithmetic on the path is ignored): "frees(g, i)".
 copy         : memcpy(&D, S, n) / D = *S where D is a record-typed lvalue below a local/parameter pointer variable.
 window       : per copy, the set of fields F of D with  D.F in frees(g, i)  for some g; F leaves the set at the first
                plain assignment to D.F.
 violation    : a call g(.., base, ..) with  <path of D>.F in frees(g, i)  while F is still in the set."""
import collections
from core.prog import strip, walk, ap, short, root_var
from core.psts import Env, solve, relevance, apply_generic

FREE_FNS = {'coap_free_type': 1, 'free': 0, 'coap_free': 0}


def _base_ap(e):
    e = strip(e)
    while isinstance(e, dict) and e.get('k') == 'bin' and e.get('op') in ('-', '+'):
        e = strip(e['l'])
    return ap(e)


def frees_summary(P):
    """(fn, param index) -> set of paths relative to the parameter ('' = the object itself, '->pdu.token', ...)"""
    out = collections.defaultdict(set)
    for f in P.lib_funcs():
        pidx = {'v%d' % p['id']: i for i, p in enumerate(f['params'])}
        for b, ev in P.events(f):
            t = ev['e']
            if t.get('k') == 'call' and t.get('fn') in FREE_FNS and len(t.get('a', [])) > FREE_FNS[t['fn']]:
                a = _base_ap(t['a'][FREE_FNS[t['fn']]])
                if not a:
                    continue
                for pv, i in pidx.items():
                    if a == pv or a.startswith(pv + '->') or a.startswith(pv + '.'):
                        out[(f['name'], i)].add(a[len(pv):])
    return out


def run(run, P):
    run.rule('R-SHALLOW-ALIAS')
    FS = frees_summary(P)
    ncopy = 0
    for f in P.lib_funcs():
        copies = []
        for b, ev in P.events(f):
            t = ev['e']
            D = None
            if t.get('k') == 'call' and t.get('fn') == 'memcpy' and len(t.get('a', [])) == 3:
                d0 = strip(t['a'][0])
                if isinstance(d0, dict) and d0.get('k') == 'un' and d0.get('op') == '&':
                    D = strip(d0['e'])
            elif t.get('k') == 'asg' and t.get('op') == '=':
                r = strip(t['r'])
                l = strip(t['l'])
                if isinstance(r, dict) and r.get('k') == 'un' and r.get('op') == '*' and isinstance(l, dict) and l.get('rrec'):
                    D = l
            if not (isinstance(D, dict) and D.get('k') == 'mem' and D.get('rrec')):
                continue
            dap = ap(D)
            rv = root_var(D)
            if not dap or not isinstance(rv, dict):
                continue
            base = 'v%d' % rv['id']
            rel = dap[len(base):]                      # e.g. '->pdu'
            # which fields of D does some destructor of the base object free?
            owned = {}
            for (g, i), paths in FS.items():
                for pth in paths:
                    if pth.startswith(rel + '.'):
                        owned.setdefault(pth[len(rel) + 1:], set()).add((g, i))
            if owned:
                copies.append((ev, base, rel, owned))
        if not copies:
            continue
        name = f['name']
        for (cev, base, rel, owned) in copies:
            ncopy += 1
            run.instance('R-SHALLOW-ALIAS', '%s: shallow copy into %s%s (owned: %s)' % (name, '<obj>', rel, ','.join(sorted(owned))))
            destructors = {g for s in owned.values() for (g, i) in s}

            def is_rule_event(ev):
                t = ev['e']
                if ev is cev:
                    return True
                if t.get('k') == 'call' and t.get('fn') in destructors:
                    return True
                if t.get('k') == 'asg' and (ap(t['l']) or '').startswith(base + rel + '.'):
                    return True
                return False
            keys, R = relevance(f, is_rule_event)

            def on_event(ev, env, ctx):
                t = ev['e']
                if ev is cev:
                    e = env.copy()
                    e.ts['al'] = frozenset(owned)
                    return [apply_generic(ev, e, R)]
                al = env.ts.get('al', frozenset())
                if not al:
                    return None
                if t.get('k') == 'asg' and t.get('op') == '=':
                    a = ap(t['l']) or ''
                    if a.startswith(base + rel + '.') and a[len(base + rel) + 1:] in al:
                        e = env.copy()
                        e.ts['al'] = al - {a[len(base + rel) + 1:]}
                        return [apply_generic(ev, e, R)]
                    return None
                if t.get('k') == 'call' and t.get('fn') in destructors:
                    for i, a in enumerate(t.get('a', [])):
                        if ap(a) == base:
                            hit = sorted(F for F in al if (t['fn'], i) in owned[F])
                            run.oblige('R-SHALLOW-ALIAS', not hit, '%s:%s' % (name, t['fn']))
                            if hit:
                                run.violation('R-SHALLOW-ALIAS', name, ev['loc'], 'destructor-in-alias-window:%s:%s' % (t['fn'], ','.join(hit)),
                                              '%s() frees %s%s.%s, which after the shallow copy at %s still points into the object it was copied from (not yet re-assigned on this '
                                              'path): the owner of that object frees the same buffer again' % (t['fn'], '<obj>', rel, ','.join(hit), cev['loc']), ctx.path())
                return None
            ctx = solve(f, Env({'al': frozenset()}), on_event, None, keys, R, key_fn=lambda e: e.ts.get('al'))
            run.stats['shallow_solver_steps'] += ctx.steps
    run.require(ncopy >= (2 if run.cfg == 'base' else 1) or run.fixture_mode, 'R-SHALLOW-ALIAS: fewer than 2 shallow copies with owned fields found (expected the lg_xmit and lg_crcv skeleton PDUs)')
