"""R-RESP (C07): the structural clauses of "each response is concluded once" that live in handle_response().

C07 as a whole quantifies over loss / duplication / delay patterns and is not decided.  Its statement names four things that
are visible in the shape of handle_response() on every path, and each is necessary (breaking it breaks the behaviour for some
history):
 (a) duplicate filter: the application's response handler is never reached on a path on which the duplicate test of a
     Confirmable response (rcvd->mid == session->last_con_mid) came out true, that arm answers with exactly one ACK or RST
     and returns, and on the other arm session->last_con_mid is updated before the handler ("a duplicate ... is not
     re-delivered", "acknowledged again when it is a duplicate");
 (b) verdict: after the handler returned, exactly one of coap_send_ack_lkd / coap_send_rst_lkd is called with the received
     PDU before the function returns; it is the Reset exactly on the arm `ret == COAP_RESPONSE_FAIL && type != ACK`, and
     session->last_con_handler_res records the same verdict (so a duplicate gets the same answer);
 (c) a non-ACK response cancels the retransmission of the request by token before anything else can return
     (coap_cancel_all_messages on the `type != ACK` arm);
 (d) when libcoap itself consumed the response by sending the next Block1 (coap_handle_response_send_block() != 0) the
     response is acknowledged before returning.
Returns that neither reach the handler nor are named above (token-size / Q-Block probing, the block-wise Block2 path that
acknowledges inside the callee, re-lock failure) carry no obligation here."""
from core.prog import strip, walk, ap, key, short, const_int, callee_field
from core.psts import Env, solve, relevance, apply_generic

FUNC = 'handle_response'
ACK, RST = 'coap_send_ack_lkd', 'coap_send_rst_lkd'


def run(run, P):
    run.rule('R-RESP')
    if not P.has(FUNC):
        if run.fixture_mode:
            return
        run.require(False, 'anchor %s() of R-RESP not found' % FUNC)
    f = P.func(FUNC)
    pv = {}
    for p in f['params']:
        pv[p.get('n')] = 'v%d' % p['id']
    rc = pv.get('rcvd')
    run.require(rc is not None, 'R-RESP: %s() has no parameter rcvd' % FUNC)
    FAIL = P.const_named('COAP_RESPONSE_FAIL')
    OK = P.const_named('COAP_RESPONSE_OK')
    TACK = P.const_named('COAP_MESSAGE_ACK')
    seen = {'dup': 0, 'handler': 0, 'cancel': 0, 'sendblock': 0}

    def is_dup_test(c):
        c = strip(c)
        if isinstance(c, dict) and c.get('k') == 'bin' and c.get('op') in ('==', '!='):
            for x, y in ((c['l'], c['r']), (c['r'], c['l'])):
                xs, ys = strip(x), strip(y)
                if isinstance(xs, dict) and xs.get('k') == 'mem' and xs.get('f') == 'mid' and ap(xs.get('b')) == rc and \
                        isinstance(ys, dict) and ys.get('k') == 'mem' and ys.get('f') == 'last_con_mid':
                    return c['op']
        return None

    def is_handler(t):
        if t.get('k') == 'call' and callee_field(t) == 'response_handler':
            return True
        return False

    def emission(t):
        if t.get('k') == 'call' and t.get('fn') in (ACK, RST) and len(t.get('a', [])) == 2 and ap(t['a'][1]) == rc:
            return 'ack' if t['fn'] == ACK else 'rst'
        return None

    def is_rule_event(ev):
        t = ev['e']
        if is_handler(t) or emission(t) or t.get('k') == 'ret':
            return True
        if t.get('k') == 'call' and t.get('fn') in ('coap_cancel_all_messages', 'coap_handle_response_send_block'):
            return True
        if t.get('k') == 'asg':
            l = strip(t['l'])
            return isinstance(l, dict) and l.get('k') == 'mem' and l.get('f') in ('last_con_mid', 'last_con_handler_res')
        return False
    keys, R = relevance(f, is_rule_event)
    for b in f['blocks']:
        c = (b.get('term') or {}).get('cond')
        if c is not None and (is_dup_test(c) or any(isinstance(x, dict) and x.get('k') == 'mem' and x.get('f') == 'type' and ap(x.get('b')) == rc for x in walk(c))):
            keys = set(keys) | {b['id']}
    retvars = set()
    for b, ev in P.events(f):
        t = ev['e']
        if t.get('k') == 'asg' and is_handler(strip(t['r'])) and ap(t['l']):
            retvars.add(ap(t['l']))
    R = set(R) | retvars | {rc + '->type'}

    def viol(ev, inst, msg, ctx):
        run.violation('R-RESP', FUNC, ev['loc'], inst, msg, ctx.path())

    def at_return(loc, env, ctx):
        ts = env.ts
        em2 = ts.get('em', ())
        evl = {'loc': loc}
        if ts.get('h') == 1:
            # (b)
            ok = len(em2) == 1
            run.oblige('R-RESP', ok, 'one-answer-after-handler')
            if not ok:
                viol(evl, 'answers-after-handler:%d' % len(em2), 'after the response handler returned, %d ACK/RST emissions for the received PDU lie on the path to this return (exactly one is '
                     'required: a Confirmable response is acknowledged, or reset when the handler failed)' % len(em2), ctx)
                return
            fails = ts.get('verdict') == 'fail'
            notfail = ts.get('verdict') == 'notfail'
            isack = ts.get('tack') == 'ack'
            notack = ts.get('tack') == 'notack'
            if fails and notack:
                ok = em2[0] == 'rst' and ts.get('res') == FAIL
                run.oblige('R-RESP', ok, 'fail-gives-reset')
                if not ok:
                    viol(evl, 'fail-verdict-not-reset', 'the handler verdict COAP_RESPONSE_FAIL on a non-ACK response leads to %s with last_con_handler_res = %s: the peer is not told to stop '
                         '(RST) / a duplicate will be answered differently' % (em2[0], ts.get('res')), ctx)
            elif notfail or isack or not retvars:
                ok = em2[0] == 'ack' and ts.get('res') == OK
                run.oblige('R-RESP', ok, 'ok-gives-ack')
                if not ok:
                    viol(evl, 'ok-verdict-not-ack', 'a response the handler accepted leads to %s with last_con_handler_res = %s instead of an acknowledgement' % (em2[0], ts.get('res')), ctx)
            return
        if ts.get('dup') == 'dup':
            ok = len(em2) == 1
            run.oblige('R-RESP', ok, 'duplicate-answered-once')
            if not ok:
                viol(evl, 'duplicate-answers:%d' % len(em2), 'the duplicate arm returns after %d ACK/RST emissions (a duplicate Confirmable response must be answered again, once)' % len(em2), ctx)
            return
        sb = ts.get('sb')
        if sb and env.ret.get(sb) and env.ret[sb][0] in ('nz',):
            ok = 'ack' in em2
            run.oblige('R-RESP', ok, 'sendblock-acked')
            if not ok:
                viol(evl, 'next-block-sent-response-not-acked', 'coap_handle_response_send_block() consumed the response (next Block1 sent) and the function returns without acknowledging it', ctx)

    def on_event(ev, env, ctx):
        t = ev['e']
        ts = env.ts
        em = emission(t)
        if em:
            e = apply_generic(ev, env, R).copy()
            e.ts['em'] = tuple(list(ts.get('em', ())) + [em])[:3]
            return [e]
        if t.get('k') == 'call' and t.get('fn') == 'coap_cancel_all_messages':
            seen['cancel'] += 1
            # an ACK retires the request whose message id it carries (RFC 7252 4.2), never "whatever has the same token"
            okc = ts.get('tack0') != 'ack'
            run.oblige('R-RESP', okc, 'ack-does-not-cancel-by-token')
            if not okc:
                viol(ev, 'ack-cancels-by-token', 'coap_cancel_all_messages() is reached on a path that knows the received message to be an ACK: a late or duplicated piggy-backed response '
                     'whose message id matches nothing stops the retransmission of a NEW request that re-uses the token - that request is lost without an outcome', ctx)
            e = apply_generic(ev, env, R).copy()
            e.ts['cancel'] = 1
            return [e]
        if t.get('k') == 'call' and t.get('fn') == 'coap_handle_response_send_block':
            seen['sendblock'] += 1
            e = apply_generic(ev, env, R).copy()
            e.ts['sb'] = key(t)
            return [e]
        if t.get('k') == 'asg':
            l = strip(t['l'])
            if isinstance(l, dict) and l.get('k') == 'mem' and l.get('f') == 'last_con_mid':
                e = apply_generic(ev, env, R).copy()
                e.ts['lcm'] = 1
                return [e]
            if isinstance(l, dict) and l.get('k') == 'mem' and l.get('f') == 'last_con_handler_res':
                e = apply_generic(ev, env, R).copy()
                e.ts['res'] = const_int(t['r'])
                return [e]
            return None
        if is_handler(t):
            seen['handler'] += 1
            ok = ts.get('dup') != 'dup'
            run.oblige('R-RESP', ok, 'handler-not-on-duplicate')
            if not ok:
                viol(ev, 'duplicate-delivered', 'the response handler is reached on the path on which rcvd->mid == session->last_con_mid (a duplicate of the last Confirmable response): '
                     'the application sees the same response twice', ctx)
            ok = ts.get('dup') != 'fresh' or ts.get('lcm') == 1
            run.oblige('R-RESP', ok, 'last-con-mid-recorded')
            if not ok:
                viol(ev, 'last-con-mid-not-recorded', 'a Confirmable response that passed the duplicate test reaches the handler without session->last_con_mid having been set to its '
                     'message id: its retransmission will be delivered again', ctx)
            if ts.get('tack0') == 'notack':
                run.oblige('R-RESP', ts.get('cancel') == 1, 'cancel-by-token')
                if ts.get('cancel') != 1:
                    viol(ev, 'request-not-cancelled', 'a response that is not an ACK reaches the handler without coap_cancel_all_messages() for its token: the request keeps being '
                         'retransmitted and is concluded a second time (NACK after the response)', ctx)
            e = apply_generic(ev, env, R).copy()
            e.ts['h'] = 1
            e.ts['em'] = ()
            e.ts.pop('tack', None)
            return [e]
        if t.get('k') == 'ret':
            e = env.copy()
            e.ts['done'] = 1
            if not any(str(m).startswith('coap_lock_callback') for m in (ev.get('mac') or ())):
                at_return(ev['loc'], env, ctx)
            # else: the failed re-lock exit of the callback macro (only while coap_cleanup() runs concurrently)
            return [e]
        return None

    def on_branch(b, s, env, ctx):
        term = b.get('term') or {}
        c = term.get('cond')
        if c is None or len(b['succ']) != 2:
            return env
        truth0 = s == b['succ'][0]
        cs = strip(c)
        if isinstance(cs, dict) and cs.get('k') == 'bin' and cs.get('op') in ('==', '!='):
            l, r2 = strip(cs['l']), strip(cs['r'])
            K = const_int(cs['r'])
            # rcvd->type ==/!= COAP_MESSAGE_ACK
            if isinstance(l, dict) and l.get('k') == 'mem' and l.get('f') == 'type' and ap(l.get('b')) == rc and K == TACK:
                isack = truth0 if cs['op'] == '==' else not truth0
                e = env.copy()
                e.ts['tack'] = 'ack' if isack else 'notack'
                if not env.ts.get('h'):
                    e.ts['tack0'] = e.ts['tack']
                return e
            # ret ==/!= COAP_RESPONSE_FAIL
            if ap(cs['l']) in retvars and K == FAIL:
                isfail = truth0 if cs['op'] == '==' else not truth0
                e = env.copy()
                e.ts['verdict'] = 'fail' if isfail else 'notfail'
                return e
        op = is_dup_test(c)
        if op:
            seen['dup'] += 1
            truth = s == b['succ'][0]
            isdup = truth if op == '==' else not truth
            e = env.copy()
            e.ts['dup'] = 'dup' if isdup else 'fresh'
            return e
        return env
    def on_exit(env, ctx):
        if not env.ts.get('done'):
            at_return(f['loc'], env, ctx)

    ctx = solve(f, Env({'em': (), 'h': 0}), on_event, on_exit, keys, R,
                key_fn=lambda e: (e.ts.get('done'), e.ts.get('verdict'), e.ts.get('tack'), e.ts.get('tack0'), e.ts.get('em'), e.ts.get('h'), e.ts.get('dup'), e.ts.get('lcm'), e.ts.get('cancel'), e.ts.get('res'), e.ts.get('sb'),
                                  tuple(e.intf(v)[:2] for v in sorted(retvars)), e.intf(rc + '->type')), on_branch=on_branch, max_envs=768)
    run.stats['resp_solver_steps'] += ctx.steps
    run.instance('R-RESP', '%s: duplicate test' % FUNC, n=1 if seen['dup'] else 0)
    run.instance('R-RESP', '%s: response handler call' % FUNC, n=1 if seen['handler'] else 0)
    run.instance('R-RESP', '%s: cancel by token' % FUNC, n=1 if seen['cancel'] else 0)
    run.instance('R-RESP', '%s: Block1 continuation' % FUNC, n=1 if seen['sendblock'] else 0)
    run.require(seen['dup'] > 0, 'R-RESP: the duplicate test rcvd->mid == session->last_con_mid was not found in %s()' % FUNC)
    run.require(seen['handler'] > 0, 'R-RESP: no call of context->response_handler found in %s()' % FUNC)


def run_async_pending(run, P):
    """R-RESP (pending async): an async entry's `delay` field is a point in time, with 0 meaning "until the application triggers it".  The entry
    is PENDING when delay == 0 or delay > now, DUE when delay != 0 and delay <= now.  Wherever the library branches on that field, the
    decision separates the two: executed abstractly for delay in {0, now - 1, now, now + 1}, the run of delay/now tests in a function sends
    the pending values and the due values to disjoint sets of successors.  handle_request() uses the decision to recognise a retransmitted
    request while its response is still outstanding (answered with a fresh Empty ACK, not handed to the handler again): with delay == 0 on
    the wrong side, a retransmission after a lost ACK reaches the application a second time and the request is answered twice."""
    from rules.r_uriclass import _eval, Unfold
    from core.prog import succs
    run.rule('R-RESP')
    NOW = 1000
    VALUES = {'pending': (0, NOW + 1), 'due': (NOW - 1, NOW)}
    n = 0
    for f in sorted(P.lib_funcs(), key=lambda f: f['name']):
        B = f['B']

        def subst(t, dval):
            if isinstance(t, dict):
                if t.get('k') == 'mem' and t.get('f') == 'delay' and t.get('rec') == 'coap_async_t':
                    return {'k': 'int', 'v': dval, 't': 'long'}
                if t.get('k') == 'var' and t.get('n') == 'now':
                    return {'k': 'int', 'v': NOW, 't': 'long'}
                return dict((k, subst(v, dval)) for k, v in t.items())
            if isinstance(t, list):
                return [subst(v, dval) for v in t]
            return t

        def testing(bid):
            c = (B[bid].get('term') or {}).get('cond')
            if c is None or len(B[bid]['succ']) != 2:
                return False
            if not any(isinstance(x, dict) and x.get('k') == 'mem' and x.get('f') == 'delay' and x.get('rec') == 'coap_async_t' for x in walk(c)):
                return False
            try:
                _eval(P, subst(c, 1), {})
                return True
            except Unfold:
                return False
        tests = [b['id'] for b in f['blocks'] if testing(b['id'])]
        if not tests:
            continue
        # entry of a run of tests: a testing block none of whose predecessors is a testing block
        preds = dict((t, [b['id'] for b in f['blocks'] if t in succs(b)]) for t in tests)
        for t0 in tests:
            if any(p in tests for p in preds[t0]):
                continue
            n += 1
            target = {}
            for cls, vals in VALUES.items():
                for dv in vals:
                    cur, steps = t0, 0
                    while cur in tests and steps < 20:
                        steps += 1
                        v = _eval(P, subst(B[cur]['term']['cond'], dv), {})
                        cur = B[cur]['succ'][0] if v else B[cur]['succ'][1]
                    target.setdefault(cls, set()).add(cur)
            ok = not (target['pending'] & target['due'])
            loc = B[t0]['term'].get('loc')
            run.instance('R-RESP', '%s: pending / due async entries are told apart (%s)' % (f['name'], (loc or '').rsplit('/', 1)[-1]))
            run.oblige('R-RESP', ok, '%s:async-pending-decision' % f['name'])
            if not ok:
                run.violation('R-RESP', f['name'], loc, 'async-pending-and-due-not-separated',
                              'the tests of async->delay starting here send a pending entry (delay 0 = until triggered, or delay in the future) and a due entry (delay in the '
                              'past) to the same successor: an entry that waits for coap_async_trigger() is treated like one whose time has come', [])
    run.require_count(n >= (2 if run.cfg == 'base' else 0) or run.fixture_mode, 'R-RESP(pending async): fewer than 2 decisions on async->delay found')
