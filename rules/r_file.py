"""R-FILE-MODE and R-PERSIST (C17).

R-FILE-MODE  FILE* typestate, library-wide: a stream obtained from fopen(path, mode) reaches a
             reader (fread/fgets/fscanf/getc/fgetc or a callee summarised as reader of that
             parameter) only if the mode permits reading, a writer only if it permits writing.
R-PERSIST    per updater (a function that calls rename(tmp, real)):
             (a) every writer call writes a stream opened from the tmp name;
             (b) the real name is never opened in a truncating mode ("w", "w+");
             (c) every path reaching rename(tmp, real) has passed fflush()/fclose() of the tmp
                 stream after its last write, with the result tested and the failure arm not
                 reaching the rename.
"""
from core.prog import strip, walk, ap, key, short, const_int
from core.psts import Env, solve, relevance, apply_generic

READERS = {'fread': 3, 'fgets': 2, 'fscanf': 0, 'getc': 0, 'fgetc': 0, 'getline': 2}
WRITERS = {'fwrite': 3, 'fprintf': 0, 'fputs': 1, 'fputc': 1, 'putc': 1, 'vfprintf': 0}


def can_read(m):
    return m.startswith('r') or '+' in m


def can_write(m):
    return m[0] in 'wa' or '+' in m


def truncates(m):
    return m[0] == 'w'


def summaries(P):
    """(function, param index) -> location, for FILE* parameters read / written inside"""
    rsum, wsum = {}, {}
    changed = True
    while changed:
        changed = False
        for f in P.funcs.values():
            for i, p in enumerate(f['params']):
                if 'FILE' not in p.get('t', ''):
                    continue
                pid = 'v%d' % p['id']
                for b, ev in P.events(f):
                    t = ev['e']
                    if t.get('k') != 'call':
                        continue
                    fn = t.get('fn')
                    for tab, summ in ((READERS, rsum), (WRITERS, wsum)):
                        idx = tab.get(fn)
                        if idx is not None and idx < len(t['a']) and ap(t['a'][idx]) == pid and (f['name'], i) not in summ:
                            summ[(f['name'], i)] = ev['loc']
                            changed = True
                    for summ in (rsum, wsum):
                        for (g, j) in list(summ):
                            if fn == g and j < len(t['a']) and ap(t['a'][j]) == pid and (f['name'], i) not in summ:
                                summ[(f['name'], i)] = ev['loc']
                                changed = True
    return rsum, wsum


def _fopen_of(t):
    """(target access path, fopen call) if the event assigns / initialises from fopen"""
    out = []
    if t.get('k') == 'asg' and t.get('op') == '=':
        r = strip(t['r'])
        if isinstance(r, dict) and r.get('k') == 'call' and r.get('fn') == 'fopen':
            out.append((ap(t['l']), r))
    elif t.get('k') == 'decl':
        for d in t['d']:
            r = strip(d.get('init'))
            if isinstance(r, dict) and r.get('k') == 'call' and r.get('fn') == 'fopen':
                out.append(('v%d' % d['id'], r))
    return out


def run(run, P, funcs=None):
    run.rule('R-FILE-MODE')
    run.rule('R-PERSIST')
    rsum, wsum = summaries(P)
    run.stats['reader_summaries'] = len(rsum)
    run.stats['writer_summaries'] = len(wsum)
    rfn = {}
    for (g, j) in rsum:
        rfn.setdefault(g, []).append(j)
    wfn = {}
    for (g, j) in wsum:
        wfn.setdefault(g, []).append(j)

    for f in sorted(P.lib_funcs(), key=lambda f: f['name']):
        if funcs and f['name'] not in funcs:
            continue
        has_open = any(isinstance(y, dict) and y.get('k') == 'call' and y.get('fn') == 'fopen' for b, ev in P.events(f) for y in walk(ev['e']))
        if not has_open:
            continue
        renames = [ev for b, ev in P.events(f) if ev['e'].get('k') == 'call' and ev['e'].get('fn') == 'rename']
        tmp_aps = set(ap(ev['e']['a'][0]) for ev in renames if ap(ev['e']['a'][0]))
        is_updater = bool(renames)
        if is_updater:
            run.instance('R-PERSIST', '%s: updater, rename(%s, %s)' % (f['name'], short(renames[0]['e']['a'][0]), short(renames[0]['e']['a'][1])[:50]))

        def is_rule_event(ev):
            for y in walk(ev['e']):
                if isinstance(y, dict) and y.get('k') == 'call':
                    fn = y.get('fn')
                    if fn in READERS or fn in WRITERS or fn in ('fopen', 'fflush', 'fclose', 'rename') or fn in rfn or fn in wfn:
                        return True
            return False
        keys, R = relevance(f, is_rule_event)
        fname = f['name']

        def stream_of(env, node):
            a = ap(node)
            if a is None:
                return None, None
            a = env.canon(a)
            return a, env.ts.get('st:' + a)

        def on_event(ev, env, ctx):
            t = ev['e']
            fo = _fopen_of(t)
            if fo:
                e = apply_generic(ev, env, R)
                e = e.copy()
                for tgt, call in fo:
                    if not tgt:
                        continue
                    m = strip(call['a'][1])
                    mode = m.get('v') if isinstance(m, dict) and m.get('k') == 'str' else None
                    pa = ap(call['a'][0])
                    origin = 'tmp' if (pa and pa in tmp_aps) else 'real'
                    e.ts['st:' + tgt] = (mode or '?', origin, 'clean', None)
                    run.instance('R-FILE-MODE', '%s: fopen(%s, "%s") -> %s [%s]' % (fname, short(call['a'][0])[:50], mode, tgt, origin))
                    if is_updater:
                        ok = not (origin == 'real' and mode and truncates(mode))
                        run.oblige('R-PERSIST', ok, '%s:open-real-nontruncating:%s' % (fname, mode))
                        if not ok:
                            run.violation('R-PERSIST', fname, ev['loc'], 'truncating-open:%s' % short(call['a'][0])[:40],
                                          'the persistence file itself is opened with truncating mode "%s" in an updater (a crash now leaves an empty/torn file)' % mode, ctx.path())
                        if origin == 'tmp' and mode:
                            ok2 = truncates(mode)
                            run.oblige('R-PERSIST', ok2, '%s:open-tmp-truncating:%s' % (fname, mode))
                            if not ok2:
                                run.violation('R-PERSIST', fname, ev['loc'], 'tmp-open-not-truncating',
                                              'the .tmp copy is opened with "%s", which keeps what an interrupted earlier update left in it: the complete new state is appended behind a '
                                              'possibly torn old one and renamed over the live file' % mode, ctx.path())
                return [e]
            if t.get('k') != 'call':
                return None
            fn = t.get('fn')

            def check(idx, kind):
                if idx >= len(t['a']):
                    return None
                a, st = stream_of(env, t['a'][idx])
                if not st:
                    return None
                mode, origin, state, fk = st
                if mode != '?':
                    ok = can_read(mode) if kind == 'r' else can_write(mode)
                    run.oblige('R-FILE-MODE', ok, '%s:%s:%s:%s' % (fname, fn, kind, mode))
                    if not ok:
                        run.violation('R-FILE-MODE', fname, ev['loc'], '%s-of-"%s"-stream:%s' % ('read' if kind == 'r' else 'write', mode, fn),
                                      'stream %s opened with mode "%s" is %s by %s()' % (short(t['a'][idx]), mode, 'read' if kind == 'r' else 'written', fn), ctx.path())
                if kind == 'w' and is_updater:
                    ok = origin == 'tmp'
                    run.oblige('R-PERSIST', ok, '%s:writer-on-tmp:%s' % (fname, fn))
                    if not ok:
                        run.violation('R-PERSIST', fname, ev['loc'], 'write-to-real:%s' % fn,
                                      '%s() writes the stream opened from the persistence file itself, not the .tmp copy' % fn, ctx.path())
                    e = env.copy()
                    e.ts['st:' + a] = (mode, origin, 'dirty', None)
                    return e
                return None
            e2 = None
            if fn in READERS:
                check(READERS[fn], 'r')
            if fn in WRITERS:
                e2 = check(WRITERS[fn], 'w') or e2
            for j in rfn.get(fn, ()):
                check(j, 'r')
            for j in wfn.get(fn, ()):
                e2 = check(j, 'w') or e2
            if fn in ('fflush', 'fclose') and t['a']:
                a, st = stream_of(env, t['a'][0])
                if st:
                    mode, origin, state, fk = st
                    e2 = (e2 or env).copy()
                    if fn == 'fflush':
                        e2.ts['st:' + a] = (mode, origin, 'flushed', key(t))
                    else:
                        # fclose of a stream already flushed keeps the flush verdict
                        e2.ts['st:' + a] = (mode, origin, 'closed' if state != 'flushed' else 'flushed', key(t) if state != 'flushed' else fk)
            if fn == 'rename' and is_updater:
                ta = ap(t['a'][0])
                found = False
                for k, st in list(env.ts.items()):
                    if not k.startswith('st:'):
                        continue
                    mode, origin, state, fk = st
                    if origin != 'tmp':
                        continue
                    found = True
                    rc = env.ret.get(fk) if fk else None
                    tested_ok = rc is not None and ((rc[0] == 'ne' and rc[1] == -1) or (rc[0] == 'eq' and rc[1] == 0) or (rc[0] == 'rng' and rc[1][0] >= 0))
                    ok = state in ('flushed', 'closed') and tested_ok
                    run.oblige('R-PERSIST', ok, '%s:rename-after-tested-flush' % fname)
                    if not ok:
                        why = ('the .tmp stream still has unflushed writes' if state == 'dirty' else
                               'the result of the flush/close of the .tmp stream is not known to be success on this path'
                               if state in ('flushed', 'closed') else 'the .tmp stream was never flushed')
                        run.violation('R-PERSIST', fname, ev['loc'], 'rename-before-durable-tmp',
                                      'rename() onto the persistence file is reached while %s' % why, ctx.path())
                if not found:
                    run.oblige('R-PERSIST', False, '%s:rename-source-stream' % fname)
                    run.violation('R-PERSIST', fname, ev['loc'], 'rename-without-tmp-stream',
                                  'rename() source %s was not written through a stream opened in this function' % short(t['a'][0]), ctx.path())
            if e2 is not None:
                return [apply_generic(ev, e2, R)]
            return None
        ctx = solve(f, Env(), on_event, None, keys, R)
        run.stats['solver_steps'] += ctx.steps
        run.stats['solver_states'] += ctx.nstates


# ---------------------------------------------------------------------------------------------------------------
RESTORE_ADD = 'coap_persist_observe_add_lkd'
REC_READ = 'coap_op_observe_read'
REC_WRITE = 'coap_op_observe_write'


def run_restore_key(run, P):
    """R-PERSIST (restored key): an observe record is identified on disk by the address of its live subscription.  After a
    restart those addresses are meaningless; the start-up loader re-creates each subscription (coap_persist_observe_add_lkd)
    and rewrites the record under the NEW address.  In every function that re-creates subscriptions from records it reads:
    the key handed to coap_op_observe_write() is, on every path, the value coap_persist_observe_add_lkd() returned since the
    record was read -- never the value coap_op_observe_read() filled in from the file.  A record rewritten under the old
    process's address is never found again by coap_op_observe_deleted(): a cancelled observation stays in the file and is
    re-established by the next restart (or, when the address is re-used, someone else's observation is dropped)."""
    from core.prog import strip, ap, short
    from core.psts import Env, solve, relevance, apply_generic
    run.rule('R-PERSIST')
    n = 0
    for f in sorted(P.lib_funcs(), key=lambda f: f['name']):
        evs = [ev for b, ev in P.events(f)]
        if not any(e['e'].get('k') == 'call' and e['e'].get('fn') == RESTORE_ADD for e in evs):
            continue
        if not any(e['e'].get('k') == 'call' and e['e'].get('fn') == REC_WRITE for e in evs):
            continue
        name = f['name']
        n += 1
        run.instance('R-PERSIST', '%s: restores subscriptions and rewrites their records' % name)

        def is_rule_event(ev):
            t = ev['e']
            if t.get('k') == 'call' and t.get('fn') in (RESTORE_ADD, REC_READ, REC_WRITE):
                return True
            if t.get('k') == 'asg':
                r = strip(t['r'])
                return isinstance(r, dict) and r.get('k') == 'call' and r.get('fn') == RESTORE_ADD
            return False
        keys, R = relevance(f, is_rule_event)

        def on_event(ev, env, ctx):
            t = ev['e']
            st = dict(env.ts.get('k', ()))
            if t.get('k') == 'call' and t.get('fn') == REC_READ:
                e = apply_generic(ev, env, R).copy()
                for a in t.get('a', []):
                    a0 = strip(a)
                    if isinstance(a0, dict) and a0.get('k') == 'un' and a0.get('op') == '&' and ap(a0.get('e')):
                        st[ap(a0['e'])] = 'disk'
                e.ts['k'] = tuple(sorted(st.items()))
                return [e]
            if t.get('k') == 'asg' and t.get('op') == '=':
                r = strip(t['r'])
                if isinstance(r, dict) and r.get('k') == 'call' and r.get('fn') == RESTORE_ADD and ap(t['l']):
                    e = apply_generic(ev, env, R).copy()
                    st[ap(t['l'])] = 'live'
                    e.ts['k'] = tuple(sorted(st.items()))
                    return [e]
                if ap(t['l']) in st:
                    e = apply_generic(ev, env, R).copy()
                    st[ap(t['l'])] = st.get(ap(t['r']), None) if ap(t['r']) else None
                    e.ts['k'] = tuple(sorted((k, v) for k, v in st.items() if v))
                    return [e]
                return None
            if t.get('k') == 'call' and t.get('fn') == REC_WRITE and len(t.get('a', [])) >= 2:
                kv = ap(t['a'][1])
                ok = st.get(kv) == 'live'
                run.oblige('R-PERSIST', ok, '%s:restored-key' % name)
                if not ok:
                    run.violation('R-PERSIST', name, ev['loc'], 'record-rewritten-under-%s-key' % (st.get(kv) or 'unknown'),
                                  'coap_op_observe_write() is given `%s`, which on this path is %s and not the subscription coap_persist_observe_add_lkd() just created: the restored '
                                  'observation is filed under an address of the previous process and can never be matched (cancelled) again' %
                                  (short(t['a'][1]), 'the value read from the file' if st.get(kv) == 'disk' else 'of unknown origin'), ctx.path())
            return None
        solve(f, Env({'k': ()}), on_event, None, keys, R, key_fn=lambda e: e.ts.get('k'))
    run.require_count(n >= 1 or run.fixture_mode, 'R-PERSIST(restored key): no function both re-creates subscriptions and rewrites their records')


def run_copy_through(run, P):
    """R-PERSIST (copy-through): the updaters rewrite the whole file: a loop reads one record after the other from the old file and
    writes the ones to keep into the temporary file.  Record readers / writers are computed: library functions with a FILE* first
    parameter that take at least two further out-pointer (reader) / value (writer) parameters and are called with the address of
    locals.  Obligation: a record-write call that sits inside the loop of a record-read call passes, in every argument after the
    stream, only variables that the read call filled (`&x` there, `x` / `*x` / a cast of it here) -- a kept record that is written back
    with someone else's field (the new registration's packet, the key being deleted) is silently a different record after the restart."""
    from core.prog import strip, walk, ap, short, dominators, succs
    run.rule('R-PERSIST')
    from rules.r_sizefill import natural_loops
    # readers: called with >= 2 address-of-local arguments after a FILE* first argument
    readers, writers = set(), set()
    for f in P.lib_funcs():
        if not f['params'] or 'FILE' not in (f['params'][0].get('t') or ''):
            continue
        outs = [p for p in f['params'][1:] if p.get('p') and not p.get('pc') and '*' in (p.get('t') or '')]
        if len(outs) >= 2 and len(outs) == len(f['params']) - 1:
            readers.add(f['name'])
        elif len(f['params']) >= 3:
            writers.add(f['name'])
    n = 0
    for f in sorted(P.lib_funcs(), key=lambda f: f['name']):
        B = f['B']
        calls = []
        for b, ev in P.events(f):
            for t in walk(ev['e']):
                if isinstance(t, dict) and t.get('k') == 'call' and t.get('fn') in (readers | writers):
                    calls.append((b['id'], ev, t))
        for b in f['blocks']:
            c = (b.get('term') or {}).get('cond')
            if c is not None:
                for t in walk(c):
                    if isinstance(t, dict) and t.get('k') == 'call' and t.get('fn') in (readers | writers):
                        calls.append((b['id'], {'loc': b['term'].get('loc'), 'e': t}, t))
        rd = [c for c in calls if c[2]['fn'] in readers]
        wr = [c for c in calls if c[2]['fn'] in writers]
        if not rd or not wr:
            continue
        try:
            loops = natural_loops(f)
        except KeyError:
            continue
        for h, body in sorted(loops.items()):
            lrd = [c for c in rd if c[0] in body]
            lwr = [c for c in wr if c[0] in body]
            if not lrd or not lwr:
                continue
            filled = set()
            for _b, _ev, t in lrd:
                for a in t.get('a', [])[1:]:
                    a0 = strip(a)
                    if isinstance(a0, dict) and a0.get('k') == 'un' and a0.get('op') == '&' and ap(a0.get('e')):
                        filled.add(ap(a0['e']))
            # a local assigned inside the loop from a call that is handed filled variables is derived from the record too (the restored key)
            ch = True
            while ch:
                ch = False
                for bid in body:
                    for ev in B[bid]['elems']:
                        t = ev['e']
                        if t.get('k') == 'asg' and t.get('op') == '=' and ap(t['l']) and ap(t['l']) not in filled:
                            if any(isinstance(x, dict) and ap(x) in filled for x in walk(t['r'])):
                                filled.add(ap(t['l']))
                                ch = True
            for _b, ev, t in lwr:
                n += 1
                run.instance('R-PERSIST', '%s: %s() inside the loop of %s()' % (f['name'], t['fn'], lrd[0][2]['fn']))
                for i, a in enumerate(t.get('a', [])[1:], 1):
                    vars_ = set(ap(x) for x in walk(a) if isinstance(x, dict) and x.get('k') == 'var' and ap(x))
                    foreign = sorted(v for v in vars_ if v not in filled)
                    ok = not foreign
                    run.oblige('R-PERSIST', ok, '%s:copy-through:arg%d' % (f['name'], i))
                    if not ok:
                        run.violation('R-PERSIST', f['name'], ev['loc'], 'kept-record-written-with-foreign-field:arg%d' % i,
                                      'a record that is only being copied into the new file is written with %s as argument %d, which the read call of this loop did not fill: the '
                                      'record on disk is no longer the one that was read' % (short(a)[:40], i), [])
    run.require_count(n >= (4 if run.cfg == 'base' else 0) or run.fixture_mode, 'R-PERSIST(copy-through): fewer than 4 record writes inside record-reading loops found')


def run_no_remove(run, P):
    """R-PERSIST (one atomic step): an updater replaces the real file by rename(tmp, real) and by nothing else.  In every function that
    calls rename(), no remove() / unlink() is applied to the expression that is rename()'s destination: between such a removal and the
    rename the file does not exist at all, and a crash there loses every record, old and new (the complete data sits in the .tmp file that
    no loader reads)."""
    from core.prog import strip, walk, ap, short, key
    run.rule('R-PERSIST')
    n = 0
    for f in sorted(P.lib_funcs(), key=lambda f: f['name']):
        ren = []
        rem = []
        for b, ev in P.events(f):
            for t in walk(ev['e']):
                if isinstance(t, dict) and t.get('k') == 'call':
                    if t.get('fn') == 'rename' and len(t.get('a') or []) == 2:
                        ren.append((ev, t))
                    if t.get('fn') in ('remove', 'unlink') and t.get('a'):
                        rem.append((ev, t))
        if not ren:
            continue
        n += 1
        dests = set(short(strip(t['a'][1])) for ev, t in ren)
        run.instance('R-PERSIST', '%s: the real file is only ever replaced by rename()' % f['name'])
        bad = [(ev, t) for ev, t in rem if short(strip(t['a'][0])) in dests]
        run.oblige('R-PERSIST', not bad, '%s:no-remove-of-real-file' % f['name'])
        for ev, t in bad:
            run.violation('R-PERSIST', f['name'], ev['loc'], 'real-file-removed',
                          '%s() is applied to %s, the destination of the rename() in this function: from here until the rename the file does not exist, a crash in between '
                          'loses the old and the new state' % (t['fn'], short(strip(t['a'][0]))[:50]), [])
    run.require_count(n >= (5 if run.cfg == 'base' else 0) or run.fixture_mode, 'R-PERSIST(one atomic step): fewer than 5 functions that rename() found')


def run_raw_packet(run, P):
    """R-PERSIST (raw packet): what is persisted for a dynamic resource or an observation is the request as it was on the wire: a byte
    string that starts `hdr_size` bytes in front of the PDU's token (`R.s = X->token - H`) and is therefore `used_size + H` bytes long.
    Sibling agreement over every place that builds such a string: where the pointer is a token pointer minus a header size H, the length
    assigned to the same record mentions used_size AND the same H.  A length that forgets the header drops the last bytes of the stored
    request: the loader cannot parse it after the restart (or parses a shortened payload) and the resource is not re-created."""
    from core.prog import strip, walk, ap, short
    run.rule('R-PERSIST')
    n = 0
    for f in sorted(P.lib_funcs(), key=lambda f: f['name']):
        ptr = {}     # record base -> (header-size access path, loc)
        ln = {}      # record base -> (expression, loc)
        for b, ev in P.events(f):
            t = ev['e']
            if t.get('k') != 'asg' or t.get('op') != '=':
                continue
            l = strip(t['l'])
            if not (isinstance(l, dict) and l.get('k') == 'mem' and l.get('rec') in ('coap_bin_const_t', 'coap_binary_t') and ap(l.get('b'))):
                continue
            r = strip(t['r'])
            if l['f'] == 's' and isinstance(r, dict) and r.get('k') == 'bin' and r.get('op') == '-':
                lt, rt = strip(r['l']), strip(r['r'])
                if isinstance(lt, dict) and lt.get('k') == 'mem' and lt.get('f') == 'token' and isinstance(rt, dict) and rt.get('k') == 'mem' and rt.get('f') == 'hdr_size' and ap(rt):
                    ptr[ap(l['b'])] = (ap(rt), ev['loc'])
            if l['f'] == 'length':
                ln[ap(l['b'])] = (t['r'], ev['loc'])
        for base, (h, loc) in sorted(ptr.items()):
            if base not in ln:
                continue
            n += 1
            expr, lloc = ln[base]
            has_used = any(isinstance(x, dict) and x.get('k') == 'mem' and x.get('f') == 'used_size' for x in walk(expr))
            has_hdr = any(isinstance(x, dict) and ap(x) == h for x in walk(expr))
            ok = has_used and has_hdr
            run.instance('R-PERSIST', '%s: raw packet = [token - hdr_size, used_size + hdr_size)' % f['name'])
            run.oblige('R-PERSIST', ok, '%s:raw-packet-length' % f['name'])
            if not ok:
                run.violation('R-PERSIST', f['name'], lloc, 'raw-packet-length-without-header',
                              'the persisted request starts hdr_size bytes in front of the token but its length is %s, which does not add that header size to used_size: the '
                              'stored packet is cut short at the end and cannot be parsed (or loses payload) after a restart' % short(expr)[:50], [])
    run.require_count(n >= (2 if run.cfg == 'base' else 0) or run.fixture_mode, 'R-PERSIST(raw packet): fewer than 2 places that build a raw packet for persistence found')


def run_load_order(run, P, creator='coap_add_resource_lkd', finder='coap_get_resource_from_uri_path_lkd'):
    """R-PERSIST (load order): at start-up what is restored per resource (saved Observe counters, observations) is matched to resources by
    path; a record whose resource does not exist is skipped.  So in every function that calls both kinds of loaders -- 'makers', whose
    call closure creates resources (reaches coap_add_resource_lkd through the unknown-resource handler's PUT or directly), and 'users', whose
    closure only looks resources up -- no maker call is reachable in the control-flow graph from a user call: the dynamically created
    resources are there before anything is restored onto them.  Loading the counters first silently drops the counters of all dynamic
    resources (and the file is rewritten without them): the first Observe value after the restart starts again from the initial value,
    below what the client saw before the crash."""
    from core.prog import succs
    run.rule('R-PERSIST')
    cg = P.callgraph()

    def closure(fn):
        return P.reachable_from([fn])
    loaders = {}
    for f in P.lib_funcs():
        if not f['name'].endswith('_load_disk'):
            continue
        cl = closure(f['name'])
        # a loader that hands saved requests to the application's handler can create resources (dynamic resources are created by the PUT handler)
        makes = creator in cl or any(True for b, ev in P.events(f) for x in walk(ev['e']) if isinstance(x, dict) and x.get('k') == 'call' and not x.get('fn') and 'handler' in short(x))
        uses = finder in cl
        if makes or uses:
            loaders[f['name']] = 'maker' if makes else 'user'
    run.require(('maker' in loaders.values() and 'user' in loaders.values()) or run.fixture_mode or run.cfg != 'base',
                'R-PERSIST(load order): no loader that creates resources and no loader that looks them up found (%s)' % loaders)
    n = 0
    for f in sorted(P.lib_funcs(), key=lambda f: f['name']):
        sites = []
        for b in f['blocks']:
            for i, ev in enumerate(b['elems']):
                t = ev['e']
                if t.get('k') == 'call' and ev.get('top', True) and t.get('fn') in loaders:
                    sites.append((b['id'], i, t['fn'], ev['loc']))
        kinds = set(loaders[s[2]] for s in sites)
        if kinds != {'maker', 'user'}:
            continue
        B = f['B']
        for ub, ui, ufn, uloc in [s for s in sites if loaders[s[2]] == 'user']:
            reach = set()
            work = list(succs(B[ub]))
            while work:
                x = work.pop()
                if x in reach:
                    continue
                reach.add(x)
                work.extend(succs(B[x]))
            for mb, mi, mfn, mloc in [s for s in sites if loaders[s[2]] == 'maker']:
                n += 1
                bad = mb in reach or (mb == ub and mi > ui)
                run.instance('R-PERSIST', '%s: %s() (creates resources) is not reachable after %s() (looks them up)' % (f['name'], mfn, ufn))
                run.oblige('R-PERSIST', not bad, '%s:%s-before-%s' % (f['name'], mfn, ufn))
                if bad:
                    run.violation('R-PERSIST', f['name'], uloc, 'restored-before-resources-exist:%s' % ufn,
                                  '%s() restores per-resource state by path and skips records whose resource does not exist, but %s(), which creates the dynamic resources, '
                                  'runs after it (%s): everything saved for a dynamic resource is dropped at start-up' % (ufn, mfn, mloc.rsplit('/', 1)[-1]), [])
    run.require_count(n >= 1 or run.fixture_mode or run.cfg != 'base', 'R-PERSIST(load order): no function that calls both kinds of loaders found (expected coap_persist_startup_lkd)')


def run_track_order(run, P, slot='track_observe_value', field='observe'):
    """R-PERSIST (recorded value is the used value): the start-up loader resumes at saved + save_freq - 1, which only exceeds everything sent
    before a crash if a value reaches the tracking call-out (and through it the file) BEFORE it goes on the wire.  So in a function that
    both steps X->observe and calls through the `track_observe_value` slot, no step of the field is reachable in the control-flow graph
    from the call: the value handed to the call-out is the one the next notification carries.  Stepping after recording leaves the file
    one notification behind -- after a crash at the wrong moment the first Observe value repeats the last one sent."""
    from core.prog import succs, callee_field
    run.rule('R-PERSIST')
    n = 0
    for f in sorted(P.lib_funcs(), key=lambda f: f['name']):
        calls, steps = [], []
        for b in f['blocks']:
            for i, ev in enumerate(b['elems']):
                t = ev['e']
                if not ev.get('top', True):
                    continue
                if t.get('k') == 'call' and callee_field(t) == slot:
                    calls.append((b['id'], i, ev['loc']))
                if t.get('k') in ('asg', 'un'):
                    l = strip(t['l']) if t.get('k') == 'asg' else strip(t.get('e'))
                    if isinstance(l, dict) and l.get('k') == 'mem' and l.get('f') == field and l.get('rec') == 'coap_resource_t' and \
                       (t.get('k') == 'un' or any(isinstance(x, dict) and x.get('k') == 'mem' and x.get('f') == field for x in walk(t['r'])) or t.get('op') != '='):
                        steps.append((b['id'], i, ev['loc']))
        if not calls or not steps:
            continue
        B = f['B']
        for cb, ci, cloc in calls:
            reach = set()
            work = list(succs(B[cb]))
            while work:
                x = work.pop()
                if x in reach:
                    continue
                reach.add(x)
                work.extend(succs(B[x]))
            for sb, si, sloc in steps:
                n += 1
                bad = sb in reach or (sb == cb and si > ci)
                run.instance('R-PERSIST', '%s: the Observe counter is not stepped after it was handed to the tracking call-out' % f['name'])
                run.oblige('R-PERSIST', not bad, '%s:recorded-after-stepped' % f['name'])
                if bad:
                    run.violation('R-PERSIST', f['name'], sloc, 'counter-stepped-after-recorded',
                                  'the Observe counter is stepped here, after it was handed to the %s call-out (%s): the file holds the value BEFORE the one the next '
                                  'notification carries, so after a crash the restart value can equal the last value sent' % (slot, cloc.rsplit('/', 1)[-1]), [])
    run.require_count(n >= 1 or run.fixture_mode or run.cfg != 'base', 'R-PERSIST(recorded value): no function that steps the Observe counter and calls the tracking call-out found')
