"""R-RANGE(shift) (C15, C02): the count of every non-constant shift is proven smaller than the width of the
(promoted) left operand by IVL with the path facts the solver holds."""
from core.prog import strip, walk, ap, key, short, const_int, aps_of
from core.psts import Env, solve, relevance, apply_generic, INF
from core import ivl
from core.psts import assume


def walk_env(t, env):
    """like walk(), but the arms of a conditional expression are visited under the refined environment"""
    if isinstance(t, dict):
        yield t, env
        if t.get('k') == 'cond':
            yield from walk_env(t.get('c'), env)
            et = assume(t['c'], True, env)
            ef = assume(t['c'], False, env)
            if et is not None:
                yield from walk_env(t.get('x'), et)
            if ef is not None:
                yield from walk_env(t.get('y'), ef)
            return
        for v in t.values():
            if isinstance(v, (dict, list)):
                yield from walk_env(v, env)
    elif isinstance(t, list):
        for v in t:
            yield from walk_env(v, env)


def run(run, P, units=None, only=None):
    run.rule('R-RANGE')
    for f in sorted(P.lib_funcs(), key=lambda f: f['name']):
        if units and f['unit'] not in units:
            continue
        if only and f['name'] not in only:
            continue
        name = f['name']
        sites = []
        for b, ev in P.events(f):
            if ev['e'].get('k') not in ('asg', 'decl', 'ret', 'call'):
                continue
            for y in walk(ev['e']):
                if isinstance(y, dict) and y.get('k') in ('bin', 'asg') and y.get('op') in ('<<', '>>', '<<=', '>>=') and const_int(y['r']) is None:
                    sites.append((id(ev), y))
        # shifts inside branch conditions
        if not sites:
            continue
        ids = set(i for i, _ in sites)
        extra = set()
        for _, y in sites:
            extra |= aps_of(y['r'])

        def is_rule_event(ev):
            return id(ev) in ids
        keys, R = relevance(f, is_rule_event, extra)
        R = R | extra
        done = set()

        def on_event(ev, env, ctx):
            if id(ev) not in ids:
                return None
            for y, env in [(y, e2) for (y, e2) in walk_env(ev['e'], env) if any(y is y0 for i0, y0 in sites if i0 == id(ev))]:
                w = max(32, y.get('w') or (strip(y['l']).get('w') if isinstance(strip(y['l']), dict) else 0) or 32)
                rng = ivl.eval_raw(y['r'], env)
                txt = '%s %s %s' % (short(y['l'])[:30], y['op'], short(y['r'])[:30])
                run.instance('R-RANGE', '%s: shift %s' % (name, txt))
                ok = rng[0] >= 0 and rng[1] < w
                run.oblige('R-RANGE', ok, '%s:shift:%s' % (name, txt))
                if not ok and (name, txt) not in done:
                    done.add((name, txt))
                    run.violation('R-RANGE', name, ev['loc'], 'shift:%s' % short(y['r'])[:30],
                                  'shift %s: the count can be %s but the operand has %d bits (undefined behaviour; on x86 the count is taken modulo the width)'
                                  % (txt, ivl.fmt(rng), w), ctx.path())
            return None
        ctx = solve(f, Env(), on_event, None, keys, R)
        run.stats['shift_solver_steps'] += ctx.steps
