"""R-FIXUP (C01, C04).

(1) library-wide: a local pointer obtained from the PDU buffer (coap_check_option / coap_option_next /
    pdu->token / pdu->data arithmetic) is stale after a call that may reallocate that PDU's buffer
    (computed closure over coap_pdu_resize); using a stale pointer (dereference, index, pointer argument)
    before it is recomputed is a violation.
(2) in the in-place editors (frozen list): every adjustment of pdu->used_size is matched, before the next
    adjustment and before the function returns, by an adjustment of pdu->data with the same operator and a
    structurally equal amount, unless pdu->data is known NULL on the path; and when the path moved the tail of
    the buffer with memmove(&p[A], &p[B], ..) the amount is A-B (or B-A for the opposite operator).
"""
import collections
from core.prog import strip, walk, ap, key, short, const_int, root_var
from core.psts import Env, solve, relevance, apply_generic, INF

REALLOC_SEED = {'coap_pdu_resize': 0}
BUF_SOURCES = {'coap_check_option': 0, 'coap_option_next': None, 'coap_opt_value': None}
EDITORS = ('coap_update_token', 'coap_remove_option', 'coap_insert_option', 'coap_update_option')


def may_realloc(P):
    """fn -> set of parameter indexes whose PDU buffer may be reallocated"""
    mr = collections.defaultdict(set)
    for k, v in REALLOC_SEED.items():
        mr[k].add(v)
    changed = True
    while changed:
        changed = False
        for n, f in P.funcs.items():
            pid = dict(('v%d' % p['id'], i) for i, p in enumerate(f['params']))
            for b, ev in P.events(f):
                t = ev['e']
                if t.get('k') == 'call' and t.get('fn') in mr and t.get('fn') != n:
                    for i in list(mr[t['fn']]):
                        if i < len(t['a']):
                            a = ap(t['a'][i])
                            if a in pid and pid[a] not in mr[n]:
                                mr[n].add(pid[a])
                                changed = True
    return mr


def run_stale(run, P, only=None):
    run.rule('R-FIXUP')
    MR = may_realloc(P)
    run.notes.append('may-reallocate closure: ' + ', '.join('%s#%s' % (k, sorted(v)) for k, v in sorted(MR.items())))
    for f in sorted(P.lib_funcs(), key=lambda f: f['name']):
        if only and f['name'] not in only:
            continue
        name = f['name']
        if not any(ev['e'].get('k') == 'call' and ev['e'].get('fn') in MR for b, ev in P.events(f)):
            continue
        # pointer locals derived from a pdu buffer: var ap -> (flow-insensitive)
        cand = {}
        # iterator variable -> the PDU(s) it was initialised on (flow-insensitive)
        iters = collections.defaultdict(set)
        for b, ev in P.events(f):
            t = ev['e']
            if t.get('k') == 'call' and t.get('fn') in ('coap_option_iterator_init', 'coap_check_option') and len(t['a']) >= 2:
                ia = t['a'][1] if t['fn'] == 'coap_option_iterator_init' else t['a'][2] if len(t['a']) > 2 else None
                ia = strip(ia)
                if isinstance(ia, dict) and ia.get('k') == 'un' and ia.get('op') == '&' and ap(ia['e']) and ap(t['a'][0]):
                    iters[ap(ia['e'])].add(ap(t['a'][0]))

        def src_pdu(r):
            """access path of the PDU an expression points into, or None"""
            r = strip(r)
            if not isinstance(r, dict):
                return None
            if r.get('k') == 'call' and r.get('fn') in BUF_SOURCES:
                i = BUF_SOURCES[r['fn']]
                if i is not None and i < len(r['a']):
                    return ap(r['a'][i])
                if r['fn'] == 'coap_option_next' and r['a']:
                    ia = strip(r['a'][0])
                    if isinstance(ia, dict) and ia.get('k') == 'un' and ia.get('op') == '&' and len(iters.get(ap(ia['e']), ())) == 1:
                        return list(iters[ap(ia['e'])])[0]
                    return None       # iterator over an unknown / several PDUs: not tracked
                if r['fn'] == 'coap_opt_value' and r['a']:
                    return src_pdu(r['a'][0])
                return None
            if r.get('k') == 'asg':
                return src_pdu(r['r'])
            if r.get('k') == 'bin' and r.get('op') in ('+', '-'):
                return src_pdu(r['l'])
            if r.get('k') == 'un' and r.get('op') == '&':
                e = strip(r['e'])
                if isinstance(e, dict) and e.get('k') == 'sub':
                    return src_pdu(e['b'])
                return None
            if r.get('k') == 'mem' and r['f'] in ('token', 'data') and r.get('p'):
                return ap(r['b'])
            if r.get('k') == 'var' and ap(r) in cand:
                return cand[ap(r)]
            return None
        for rnd in range(3):
            for b, ev in P.events(f):
                t = ev['e']
                if t.get('k') == 'asg' and t.get('op') == '=' and strip(t['l']).get('k') == 'var' and strip(t['l']).get('p'):
                    s = src_pdu(t['r'])
                    if s:
                        cand[ap(t['l'])] = s
                elif t.get('k') == 'decl':
                    for d in t['d']:
                        if d.get('p') and 'init' in d:
                            s = src_pdu(d['init'])
                            if s:
                                cand['v%d' % d['id']] = s
        if not cand:
            continue
        names = {}
        for b, ev in P.events(f):
            for y in walk(ev['e']):
                if isinstance(y, dict) and y.get('k') == 'var' and ap(y) in cand:
                    names[ap(y)] = y['n']

        def is_rule_event(ev):
            t = ev['e']
            if t.get('k') == 'call' and t.get('fn') in MR:
                return True
            for y in walk(t):
                if isinstance(y, dict) and y.get('k') == 'var' and ap(y) in cand:
                    return True
            return False
        keys, R = relevance(f, is_rule_event, set(cand))

        def stale(env):
            return set(env.ts.get('stale', ()))

        def on_event(ev, env, ctx):
            t = ev['e']
            k = t.get('k')
            st = stale(env)

            def used(node, how):
                a = ap(node)
                if a in st and env.nullf(a) != 'Z':
                    run.oblige('R-FIXUP', False, '%s:stale:%s' % (name, names.get(a, a)))
                    run.violation('R-FIXUP', name, ev['loc'], 'stale-pointer:%s' % names.get(a, a),
                                  'pointer %s into the PDU buffer is used (%s) after a call that may have reallocated the buffer, without being recomputed'
                                  % (names.get(a, a), how), ctx.path())
                    return True
                return False
            if k in ('asg', 'decl'):
                tgts = []
                if k == 'asg' and t.get('op') == '=':
                    a = ap(t['l'])
                    if a in cand:
                        tgts.append((a, t['r']))
                elif k == 'asg':
                    a = ap(t['l'])
                    if a in st:
                        used(t['l'], 'pointer arithmetic %s' % t.get('op'))
                elif k == 'decl':
                    for d in t['d']:
                        if 'v%d' % d['id'] in cand and 'init' in d:
                            tgts.append(('v%d' % d['id'], d['init']))
                if tgts:
                    e = apply_generic(ev, env, R)
                    if e is env:
                        e = env.copy()
                    ns = set(st)
                    for a, r in tgts:
                        # recomputed from a stale pointer stays stale
                        rr = strip(r)
                        base = root_var(rr) if isinstance(rr, dict) and rr.get('k') in ('bin', 'var', 'un') else None
                        if base is not None and ap(base) in st and ap(base) != a:
                            ns.add(a)
                        elif base is not None and ap(base) == a and a in st:
                            pass
                        else:
                            ns.discard(a)
                            run.instance('R-FIXUP', '%s: buffer pointer %s' % (name, names.get(a, a)))
                    e.ts['stale'] = tuple(sorted(ns))
                    return [e]
                return None
            if k == 'call':
                fn = t.get('fn')
                for i, a_ in enumerate(t.get('a', [])):
                    sa = strip(a_)
                    if isinstance(sa, dict) and sa.get('k') == 'var':
                        used(sa, 'argument %d of %s()' % (i + 1, fn))
                    elif isinstance(sa, dict) and sa.get('k') == 'un' and sa.get('op') == '&':
                        e0 = strip(sa['e'])
                        if isinstance(e0, dict) and e0.get('k') == 'sub':
                            used(e0['b'], 'argument %d of %s()' % (i + 1, fn))
                    elif isinstance(sa, dict) and sa.get('k') == 'bin' and sa.get('p'):
                        rv = root_var(sa)
                        if rv is not None:
                            used(rv, 'argument %d of %s()' % (i + 1, fn))
                if fn in MR:
                    pdus = set(ap(t['a'][i]) for i in MR[fn] if i < len(t['a']))
                    ns = set(st)
                    for a, src in cand.items():
                        if src in pdus:
                            ns.add(a)
                    if ns != st:
                        e = apply_generic(ev, env, R)
                        if e is env:
                            e = env.copy()
                        e.ts['stale'] = tuple(sorted(ns))
                        return [e]
                return None
            if k == 'un' and t.get('op') == '*':
                used(t['e'], 'operator *')
                return None
            if k == 'sub':
                used(t['b'], 'operator []')
                return None
            return None

        def key_fn(e):
            return (e.ts.get('stale', ()), tuple(sorted((a, e.nullf(a)) for a in e.ts.get('stale', ()))))
        ctx = solve(f, Env(), on_event, None, keys, R, key_fn=key_fn)
        run.stats['fixup_solver_steps'] += ctx.steps
        run.oblige('R-FIXUP', True, '%s:analysed' % name)


def _adj(t):
    """(field, op, amount key, amount text) for an adjustment of pdu->used_size / pdu->data"""
    k = t.get('k')
    if k == 'asg' and t.get('op') in ('+=', '-='):
        l = strip(t['l'])
        if isinstance(l, dict) and l.get('k') == 'mem' and l['f'] in ('used_size', 'data'):
            return (l['f'], t['op'][0], key(t['r']), short(t['r']), ap(l['b']))
    if k == 'un' and t.get('op') in ('++', '--'):
        l = strip(t['e'])
        if isinstance(l, dict) and l.get('k') == 'mem' and l['f'] in ('used_size', 'data'):
            return (l['f'], t['op'][0], '1', '1', ap(l['b']))
    return None


def run_pairing(run, P):
    run.rule('R-FIXUP')
    for fname in EDITORS:
        if not P.has(fname):
            if run.fixture_mode:
                continue
            run.require(False, 'anchor function %s() of R-FIXUP not found' % fname)
        f = P.func(fname)
        pdu_ap = None
        for p in f['params']:
            if p.get('prec') == 'coap_pdu_t':
                pdu_ap = 'v%d' % p['id']
        run.require(pdu_ap is not None, 'R-FIXUP: %s() has no coap_pdu_t parameter' % fname)
        nadj = sum(1 for b, ev in P.events(f) if _adj(ev['e']) and _adj(ev['e'])[0] == 'used_size')
        run.require(nadj > 0 or run.fixture_mode, 'R-FIXUP: %s() does not adjust used_size any more' % fname)
        data_ap = pdu_ap + '->data'

        def is_rule_event(ev):
            t = ev['e']
            if _adj(t) or t.get('k') == 'ret':
                return True
            return t.get('k') == 'call' and t.get('fn') == 'memmove'
        keys, R = relevance(f, is_rule_event, {data_ap})
        R = R | {data_ap}

        def flush(env, ev, ctx, why):
            """a pending used_size adjustment must have been matched by now"""
            p = env.ts.get('pend')
            if not p:
                return
            ok = env.nullf(data_ap) == 'Z'
            run.oblige('R-FIXUP', ok, '%s:pair:%s%s' % (fname, p[0], p[1]))
            if not ok:
                run.violation('R-FIXUP', fname, p[3], 'used_size-without-data:%s%s' % (p[0], p[2]),
                              'pdu->used_size is adjusted (%s= %s) but pdu->data is not moved by the same amount before %s, and it is not known NULL: '
                              'the payload pointer no longer points at the payload' % (p[0], p[2], why), ctx.path())

        def on_event(ev, env0, ctx):
            env = env0
            if env.ts.get('pend') and env.nullf(data_ap) == 'Z':
                # payload pointer known NULL right after the adjustment: nothing to move
                p = env.ts['pend']
                run.oblige('R-FIXUP', True, '%s:pair:%s%s:data-null' % (fname, p[0], p[1]))
                env = env.copy()
                del env.ts['pend']
            r = on_event2(ev, env, ctx)
            if r is None and env is not env0:
                return [apply_generic(ev, env, R)]
            return r

        def on_event2(ev, env, ctx):
            t = ev['e']
            a = _adj(t)
            if a and a[4] == pdu_ap:
                fld, op, k_, txt = a[0], a[1], a[2], a[3]
                e = apply_generic(ev, env, R)
                if e is env:
                    e = env.copy()
                if fld == 'used_size':
                    flush(env, ev, ctx, 'the next adjustment')
                    run.instance('R-FIXUP', '%s: used_size %s= %s' % (fname, op, txt))
                    e.ts['pend'] = (op, k_, txt, ev['loc'])
                    mm = env.ts.get('mm')
                    if mm:
                        d, s_ = mm[0], mm[1]
                        cands = {('+', '(%s-%s)' % (d, s_)), ('-', '(%s-%s)' % (s_, d))}
                        if s_ == '0':
                            cands.add(('+', d))
                        if d == '0':
                            cands.add(('-', s_))
                        if d == '1' and s_ == '0':
                            cands.add(('+', '1'))
                        ok = (op, k_) in cands
                        run.oblige('R-FIXUP', ok, '%s:memmove-distance:%s%s' % (fname, op, txt))
                        if not ok:
                            run.violation('R-FIXUP', fname, ev['loc'], 'memmove-distance:%s%s' % (op, txt),
                                          'the buffer tail was moved by memmove from index %s to index %s but pdu->used_size is adjusted by %s= %s'
                                          % (mm[3], mm[2], op, txt), ctx.path())
                        del e.ts['mm']
                else:
                    p = env.ts.get('pend')
                    if p:
                        ok = (p[0], p[1]) == (op, k_)
                        run.oblige('R-FIXUP', ok, '%s:pair:%s%s' % (fname, op, txt))
                        if not ok:
                            run.violation('R-FIXUP', fname, ev['loc'], 'data-adjust-mismatch:%s%s' % (op, txt),
                                          'pdu->data is moved by %s= %s while pdu->used_size was adjusted by %s= %s' % (op, txt, p[0], p[2]), ctx.path())
                        del e.ts['pend']
                return [e]
            if t.get('k') == 'call' and t.get('fn') == 'memmove' and len(t['a']) >= 2:
                def idx(x):
                    x = strip(x)
                    if isinstance(x, dict) and x.get('k') == 'un' and x.get('op') == '&':
                        s_ = strip(x['e'])
                        if isinstance(s_, dict) and s_.get('k') == 'sub':
                            return (key(s_['b']), key(s_['i']), short(s_['i']))
                    if isinstance(x, dict) and ap(x):
                        return (key(x), '0', '0')
                    return None
                d, s_ = idx(t['a'][0]), idx(t['a'][1])
                if d and s_ and d[0] == s_[0]:
                    e = env.copy()
                    e.ts['mm'] = (d[1], s_[1], d[2], s_[2])
                    return [apply_generic(ev, e, R)]
                return None
            if t.get('k') == 'ret':
                v = const_int(t.get('e')) if 'e' in t else None
                if v != 0:
                    flush(env, ev, ctx, 'the function returns')
                return None
            return None

        def key_fn(e):
            return (e.ts.get('pend'), e.ts.get('mm'), e.nullf(data_ap))
        ctx = solve(f, Env(), on_event, None, keys, R, key_fn=key_fn)
        run.stats['fixup_solver_steps'] += ctx.steps


def run(run, P):
    run_stale(run, P)
    run_pairing(run, P)


def run_atomic(run, P, units=('coap_pdu.c',)):
    """R-FIXUP (bytes before bookkeeping): an in-place editor that adds option bytes writes them with coap_opt_encode(), which can refuse
    (the space it is told about is too small).  In every function of the codec unit that calls coap_opt_encode() on a PDU it edits, the
    PDU's used_size is increased only on paths that know that call succeeded (its result -- directly in the condition or through the local
    it was assigned to -- known non-zero).  Bookkeeping that runs ahead of the encoder has two effects: the encoder is told the free space
    AFTER the insertion instead of before it and refuses options that fit, and the refusal returns 0 from a message whose size already
    covers bytes that were never written."""
    from core.psts import Env, solve, relevance, apply_generic
    run.rule('R-FIXUP')
    ENC = 'coap_opt_encode'
    n = 0
    for f in sorted(P.lib_funcs(), key=lambda f: f['name']):
        if f['unit'] not in units:
            continue
        pdus = set('v%d' % p['id'] for p in f['params'] if p.get('p') and not p.get('pc') and p.get('prec') == 'coap_pdu_t')
        if not pdus:
            continue
        has_enc = any(isinstance(x, dict) and x.get('k') == 'call' and x.get('fn') == ENC
                      for b in f['blocks'] for it in ([ev['e'] for ev in b['elems']] + [(b.get('term') or {}).get('cond') or {}]) for x in walk(it))
        if not has_enc:
            continue

        def grows(t):
            if t.get('k') == 'asg' and t.get('op') == '+=':
                l = strip(t['l'])
                if isinstance(l, dict) and l.get('k') == 'mem' and l.get('f') == 'used_size' and ap(l.get('b')) in pdus:
                    return True
            return False
        grow = [ev for b, ev in P.events(f) if grows(ev['e'])]
        if not grow:
            continue
        # locals that receive the encoder's result
        resvars = set()
        for b, ev in P.events(f):
            t = ev['e']
            if t.get('k') == 'asg' and t.get('op') == '=' and isinstance(strip(t['r']), dict) and strip(t['r']).get('k') == 'call' and strip(t['r']).get('fn') == ENC and ap(t['l']):
                resvars.add(ap(t['l']))
        name = f['name']
        n += 1
        run.instance('R-FIXUP', '%s: used_size grows only after coap_opt_encode() succeeded' % name)

        def is_enc_asg(ev):
            t = ev['e']
            return t.get('k') == 'asg' and t.get('op') == '=' and isinstance(strip(t['r']), dict) and strip(t['r']).get('k') == 'call' and strip(t['r']).get('fn') == ENC

        def is_rule_event(ev):
            return any(ev is g for g in grow) or is_enc_asg(ev)
        keys, R = relevance(f, is_rule_event, resvars)
        R = set(R) | resvars
        keys = set(keys)
        for b in f['blocks']:
            c = (b.get('term') or {}).get('cond')
            if c is not None and any(isinstance(x, dict) and ((x.get('k') == 'call' and x.get('fn') == ENC) or ap(x) in resvars) for x in walk(c)):
                keys.add(b['id'])

        def on_branch(b, s, env, ctx):
            c = strip((b.get('term') or {}).get('cond'))
            if c is None or len(b['succ']) != 2:
                return env
            truth = s == b['succ'][0]
            while isinstance(c, dict) and c.get('k') == 'un' and c.get('op') == '!':
                c = strip(c['e'])
                truth = not truth
            if isinstance(c, dict) and c.get('k') == 'call' and c.get('fn') == ENC and truth:
                e = env.copy()
                e.ts['enc'] = 1
                return e
            return env

        def on_event(ev, env, ctx):
            if is_enc_asg(ev):
                e = apply_generic(ev, env, R).copy()
                e.ts['encvar'] = ap(ev['e']['l'])
                return [e]
            if any(ev is g for g in grow):
                ok = bool(env.ts.get('enc'))
                v = env.ts.get('encvar')
                if not ok and v:
                    lo, hi, ex = env.intf(v)
                    ok = lo > 0 or hi < 0 or 0 in ex
                run.oblige('R-FIXUP', ok, '%s:encode-before-bookkeeping' % name)
                if not ok:
                    run.violation('R-FIXUP', name, ev['loc'], 'size-grows-before-encode',
                                  'pdu->used_size is increased on a path that does not know coap_opt_encode() succeeded: the encoder is then told the free space that is left '
                                  'AFTER the insertion and refuses options that fit, and its refusal returns 0 from a message whose size already covers bytes that were never '
                                  'written', ctx.path())
            return None
        solve(f, Env(), on_event, None, keys, R, key_fn=lambda e: (e.ts.get('enc'), e.ts.get('encvar'), tuple(e.intf(v)[:2] for v in sorted(resvars))), on_branch=on_branch)
    run.require_count(n >= 2 or run.fixture_mode, 'R-FIXUP(bytes before bookkeeping): fewer than 2 editors that encode an option and grow used_size found')


def run_maxopt(run, P, units=('coap_pdu.c',)):
    """R-FIXUP (running option number): pdu->max_opt is the number of the LAST option in the buffer; appending encodes its delta against it.
    An editor that takes an option out may lower it only when what it took out was the last option -- structurally: every decrease of
    max_opt in the codec unit is directly control dependent on the arm on which the look-up of a following option came back empty (false arm of a
    test of a coap_opt_t pointer).  Lowered because the NUMBER matched, it goes wrong as soon as the highest number occurs twice
    (Uri-Path, Uri-Query ...): the next append computes its delta from a base that is too small and the new option gets a wrong number."""
    from core.prog import control_deps
    run.rule('R-FIXUP')
    n = 0
    for f in sorted(P.lib_funcs(), key=lambda f: f['name']):
        if f['unit'] not in units:
            continue
        B = f['B']
        cd = control_deps(f)
        for b in f['blocks']:
            for ev in b['elems']:
                t = ev['e']
                if not (t.get('k') == 'asg' and t.get('op') == '-='):
                    continue
                l = strip(t['l'])
                if not (isinstance(l, dict) and l.get('k') == 'mem' and l.get('f') == 'max_opt'):
                    continue
                n += 1
                ok = False
                for (bb, idx) in cd.get(b['id'], ()):      # the DIRECTLY controlling branch
                    c = strip((B[bb].get('term') or {}).get('cond'))
                    neg = False
                    while isinstance(c, dict) and c.get('k') == 'un' and c.get('op') == '!':
                        c = strip(c['e'])
                        neg = not neg
                    if isinstance(c, dict) and c.get('k') == 'var' and c.get('p') and 'coap_opt_t' in (c.get('t') or c.get('pt') or '') + (c.get('pt') or ''):
                        empty_arm = 0 if neg else 1
                        if idx == empty_arm:
                            ok = True
                    # `(next = coap_option_next(..))` style conditions
                    if isinstance(c, dict) and c.get('k') == 'asg' and isinstance(strip(c.get('l')), dict) and strip(c['l']).get('p') and idx == (0 if neg else 1):
                        ok = True
                run.instance('R-FIXUP', '%s: max_opt lowered only when the removed option was the last one' % f['name'])
                run.oblige('R-FIXUP', ok, '%s:max-opt-lowered-for-last-option' % f['name'])
                if not ok:
                    run.violation('R-FIXUP', f['name'], ev['loc'], 'max-opt-lowered-without-last-option-test',
                                  'pdu->max_opt is lowered (%s) at a place that is not controlled by "there is no following option": when the highest option number occurs '
                                  'more than once the running number drops below the number of the option that is still last, and the next appended option is encoded with '
                                  'a wrong delta' % short(t)[:50], [])
    run.require_count(n >= 1 or run.fixture_mode, 'R-FIXUP(running option number): no decrease of max_opt found in %s' % (units,))


def run_rebase(run, P, units=('coap_pdu.c',)):
    """R-FIXUP (re-basing after a move): a function that moves a PDU's buffer re-points pdu->token at the new block (an assignment to the token
    field whose right side is built from the result of a reallocating call) and then has to re-base the payload pointer.  Between that
    assignment and the assignment of pdu->data the old value of pdu->data is a pointer into the block that no longer exists: it is not READ
    any more -- in particular not in `pdu->data - pdu->token`, which now subtracts a pointer into the new block from one into the old one.
    The distance has to be taken before the token pointer changes."""
    from core.psts import Env, solve, relevance, apply_generic
    run.rule('R-FIXUP')
    n = 0
    REALLOC = ('coap_realloc_type', 'realloc')
    for f in sorted(P.lib_funcs(), key=lambda f: f['name']):
        if f['unit'] not in units:
            continue
        newvars = set()
        for b, ev in P.events(f):
            t = ev['e']
            if t.get('k') == 'asg' and t.get('op') == '=' and ap(t['l']) and any(isinstance(x, dict) and x.get('k') == 'call' and x.get('fn') in REALLOC for x in walk(t['r'])):
                newvars.add(ap(t['l']))
        if not newvars:
            continue

        def fld(x, name):
            return isinstance(x, dict) and x.get('k') == 'mem' and x.get('f') == name and x.get('rec') == 'coap_pdu_t'
        moves = [ev for b, ev in P.events(f) if ev['e'].get('k') == 'asg' and ev['e'].get('op') == '=' and fld(strip(ev['e']['l']), 'token') and
                 any(isinstance(x, dict) and ap(x) in newvars for x in walk(ev['e']['r']))]
        if not moves:
            continue
        name = f['name']
        n += 1
        run.instance('R-FIXUP', '%s: the old payload pointer is not read after the token pointer moved' % name)

        def reads_data(t):
            if t.get('k') == 'asg':
                parts = [t['r']] + ([t['l']] if t.get('op') != '=' else [])
                # the left side of a plain assignment is a write; anything it is indexed with is a read
                return any(fld(x, 'data') for p_ in parts for x in walk(p_))
            return any(fld(x, 'data') for x in walk(t))

        def is_rule_event(ev):
            t = ev['e']
            return any(ev is m for m in moves) or (ev.get('top') and (reads_data(t) or (t.get('k') == 'asg' and fld(strip(t['l']), 'data'))))
        keys, R = relevance(f, is_rule_event)
        keys = set(keys)
        for b in f['blocks']:
            c = (b.get('term') or {}).get('cond')
            if c is not None and any(fld(x, 'data') for x in walk(c)):
                keys.add(b['id'])
        rep = set()

        def on_event(ev, env, ctx):
            t = ev['e']
            if any(ev is m for m in moves):
                e = apply_generic(ev, env, R).copy()
                e.ts['moved'] = ev['loc']
                return [e]
            if not env.ts.get('moved') or not ev.get('top'):
                return None
            if reads_data(t):
                run.oblige('R-FIXUP', False, '%s:old-data-not-read-after-move' % name)
                if ev['loc'] not in rep:
                    rep.add(ev['loc'])
                    run.violation('R-FIXUP', name, ev['loc'], 'old-payload-pointer-read-after-move',
                                  'pdu->data is read (%s) after pdu->token was re-pointed at the reallocated block (%s) and before pdu->data itself was re-based: it still points '
                                  'into the old block, so a distance taken from it now is garbage and the payload pointer is never moved to the new block' %
                                  (short(t)[:60], env.ts['moved'].rsplit('/', 1)[-1]), ctx.path())
            if t.get('k') == 'asg' and t.get('op') == '=' and fld(strip(t['l']), 'data'):
                e = apply_generic(ev, env, R).copy()
                e.ts['moved'] = None
                return [e]
            return None

        def on_branch(b, s, env, ctx):
            c = (b.get('term') or {}).get('cond')
            if c is not None and env.ts.get('moved') and any(fld(x, 'data') for x in walk(c)) and b['term'].get('loc') not in rep:
                rep.add(b['term'].get('loc'))
                run.oblige('R-FIXUP', False, '%s:old-data-not-read-after-move' % name)
                run.violation('R-FIXUP', name, b['term'].get('loc'), 'old-payload-pointer-read-after-move',
                              'pdu->data is tested after pdu->token was re-pointed at the reallocated block and before pdu->data was re-based', ctx.path())
            return env
        solve(f, Env(), on_event, None, keys, R, key_fn=lambda e: e.ts.get('moved'), on_branch=on_branch)
    run.require_count(n >= 1 or run.fixture_mode, 'R-FIXUP(re-basing): no function that re-points pdu->token at a reallocated block found in %s' % (units,))


def run_capacity(run, P, anchor='coap_pdu_check_resize', grow=('coap_pdu_resize',)):
    """R-FIXUP (capacity contract): every editor asks coap_pdu_check_resize(pdu, size) before it moves bytes, and moves them when the answer is
    1.  So on every path that returns non-zero the buffer holds `size` bytes: either the path knows alloc_size >= size (the false arm of
    `size > pdu->alloc_size`), or it passed coap_pdu_resize(pdu, N) with N known >= size at the call.  "Known >= size" is a relation fact kept
    per variable: established by the arm of a comparison with the size parameter that says so (`size > N` false, `N < size` false, ...),
    kept by `N *= K` / `N += ..`, lost by any other assignment to N -- e.g. the clamp `new_size = pdu->max_size`, after which only the
    following `if (new_size < size) return 0` restores it.  A check that answers 1 for a size the clamped buffer cannot hold lets
    coap_insert_option() shift the payload before coap_opt_encode() refuses: a refused option has then corrupted the message."""
    from core.psts import Env, solve, relevance, apply_generic
    from core.prog import key
    run.rule('R-FIXUP')
    if not P.has(anchor):
        run.require(run.fixture_mode or run.cfg != 'base', 'R-FIXUP(capacity): anchor function %s() not found' % anchor)
        return
    f = P.func(anchor)
    params = f.get('params') or ()
    run.require(len(params) >= 2, 'R-FIXUP(capacity): %s() no longer takes (pdu, size)' % anchor)
    S = 'v%s' % params[1]['id']
    name = f['name']

    def is_size(x):
        x = strip(x)
        return isinstance(x, dict) and x.get('k') == 'var' and ap(x) == S

    def cap_key(x):
        x = strip(x)
        if isinstance(x, dict) and x.get('k') in ('var', 'mem') and not is_size(x):
            return key(x)
        return None
    rets = [ev for b, ev in P.events(f) if ev['e'].get('k') == 'ret']
    calls = [ev for b, ev in P.events(f) if ev.get('top', True) is not None and ev['e'].get('k') == 'call' and ev['e'].get('fn') in grow]
    run.require(bool(calls), 'R-FIXUP(capacity): %s() no longer calls %s' % (anchor, '/'.join(grow)))

    def is_rule_event(ev):
        t = ev['e']
        return t.get('k') in ('ret',) or (t.get('k') == 'call' and t.get('fn') in grow) or (t.get('k') in ('asg', 'un', 'decl'))
    keys, R = relevance(f, is_rule_event)
    keys = set(b['id'] for b in f['blocks'])
    rep = set()

    def ge(env):
        return env.ts.get('ge', frozenset())

    def on_branch(b, s, env, ctx):
        c = strip((b.get('term') or {}).get('cond'))
        if not (isinstance(c, dict) and c.get('k') == 'bin' and c.get('op') in ('<', '>', '<=', '>=') and len(b['succ']) == 2):
            return env
        truth = s == b['succ'][0]
        op = c['op']
        l, r = c['l'], c['r']
        if is_size(r) and cap_key(l):            # N op size
            op = {'<': '>', '>': '<', '<=': '>=', '>=': '<='}[op]
            l, r = r, l
        if not (is_size(l) and cap_key(r)):
            return env
        # size op N
        holds = (op == '>' and not truth) or (op == '<=' and truth)
        if holds:
            e = env.copy()
            e.ts['ge'] = ge(env) | {cap_key(r)}
            return e
        return env

    def drop(env, k_):
        if k_ in ge(env):
            e = env.copy()
            e.ts['ge'] = ge(env) - {k_}
            return e
        return env

    def on_event(ev, env, ctx):
        t = ev['e']
        k = t.get('k')
        if not ev.get('top', True) and k != 'decl':
            return None
        if k == 'asg' and cap_key(t['l']):
            keeps = t.get('op') in ('*=', '+=', '<<=') or (t.get('op') == '=' and cap_key(t['r']) in ge(env)) or \
                    (t.get('op') == '=' and is_size(t['r']))
            e = apply_generic(ev, env, R)
            if keeps and t.get('op') == '=':
                e = e.copy()
                e.ts['ge'] = ge(e) | {cap_key(t['l'])}
            elif not keeps:
                e = drop(e, cap_key(t['l']))
            return [e]
        if k == 'decl':
            e = env
            for d in t.get('d') or ():
                e = drop(e, 'v%s' % d['id'])
            return [apply_generic(ev, e, R)] if e is not env else None
        if k == 'call' and t.get('fn') in grow:
            a = t.get('a') or ()
            n_ok = len(a) >= 2 and (cap_key(a[1]) in ge(env) or is_size(a[1]))
            e = apply_generic(ev, env, R).copy()
            e.ts['grown'] = 'ok' if n_ok else 'short:' + (short(a[1])[:30] if len(a) >= 2 else '?')
            e.ts['ge'] = frozenset(x for x in ge(e) if 'alloc_size' not in x)
            return [e]
        if k == 'ret':
            v = const_int(t.get('e')) if t.get('e') is not None else None
            if v == 0:
                return None
            ok = env.ts.get('grown') == 'ok' or (env.ts.get('grown') is None and any('alloc_size' in x for x in ge(env)))
            run.oblige('R-FIXUP', ok, '%s:answers-yes-only-with-capacity' % name)
            if not ok and (ev['loc'], env.ts.get('grown')) not in rep:
                rep.add((ev['loc'], env.ts.get('grown')))
                g = env.ts.get('grown')
                run.violation('R-FIXUP', name, ev['loc'], 'yes-without-capacity',
                              '%s() answers "fits" on a path on which %s: the editors then move payload and options for an option that coap_opt_encode() must refuse, '
                              'and the refused option has already damaged the message'
                              % (name, ('the buffer was grown to `%s`, which is not known to be >= the requested size at that call (the value was assigned after the last '
                                        'comparison with size)' % g[6:]) if g else 'neither alloc_size >= size is known nor the buffer was grown'), ctx.path())
        return None
    run.instance('R-FIXUP', '%s: a non-zero answer is given only with alloc_size >= size known or after growing to a size known >= size' % name)
    solve(f, Env(), on_event, None, keys, R, key_fn=lambda e: (e.ts.get('ge'), e.ts.get('grown')), on_branch=on_branch)
