"""R-SSN-ORDER (C15): persist-before-use of the OSCORE sender sequence number.

"A sender context never protects two messages with the same partial IV, also across restarts that resume from the
sequence number last handed to the save callback."  Structural, necessary clauses decided here:

 (a) who-may-write: sender_ctx.seq is only changed by +1 steps, except where the sender context is being built
     (the object is created in that function).
 (b) in every function that *uses* seq as a value (the partial IV), every path from the use to a successful return
     advances seq exactly once (so the same process never uses it twice) ...
 (c) ... and, when a save callback is configured, passes the watermark comparison `seq [+k] OP next_seq` such that
       - on the arm that skips the save, the comparison implies  used_piv + 1 <= next_seq  (difference reasoning over
         the number of +1 steps between the use and the comparison: the seeded change "compare before the increment"
         only yields used_piv <= next_seq, i.e. the message whose partial IV equals the watermark goes out unsaved),
       - on the other arm next_seq is increased and then handed to the save callback before the return.
The numeric side (ssn_freq >= 1, the start-up rounding) is NOT decided."""
from core.prog import strip, walk, ap, key, short, const_int, is_null_const, callee_field, transitive_control_deps, aps_of
from core.psts import Env, solve, relevance, apply_generic

SAVE_FIELD = 'save_seq_num_func'
RESTART_FIELDS = ('start_seq_num',)


def sender_rec(P):
    for r, fl in P.records.items():
        names = {x['n'] for x in fl}
        if 'seq' in names and 'next_seq' in names:
            return r
    return None


def _fld(node, rec, name):
    n = strip(node)
    return isinstance(n, dict) and n.get('k') == 'mem' and n.get('f') == name and n.get('rec') == rec


def _lin(node, rec):
    """('seq'|'next', k) if node is seq/next_seq plus a constant"""
    n = strip(node)
    if not isinstance(n, dict):
        return None
    for nm, tag in (('seq', 'seq'), ('next_seq', 'next')):
        if _fld(n, rec, nm):
            return (tag, 0)
    if n.get('k') == 'bin' and n.get('op') in ('+', '-'):
        kl, kr = const_int(n['l']), const_int(n['r'])
        if kr is not None:
            x = _lin(n['l'], rec)
            if x:
                return (x[0], x[1] + (kr if n['op'] == '+' else -kr))
        if kl is not None and n['op'] == '+':
            x = _lin(n['r'], rec)
            if x:
                return (x[0], x[1] + kl)
    return None


def seq_step(t, rec):
    """+1 / other write / None for an event"""
    if t.get('k') == 'un' and t.get('op') in ('++', '--') and _fld(t['e'], rec, 'seq'):
        return 1 if t['op'] == '++' else 'other'
    if t.get('k') == 'asg' and _fld(t['l'], rec, 'seq'):
        if t.get('op') == '+=' and const_int(t['r']) == 1:
            return 1
        if t.get('op') == '=':
            x = _lin(t['r'], rec)
            if x == ('seq', 1):
                return 1
        return 'other'
    return None


def run(run, P):
    run.rule('R-SSN-ORDER')
    rec = sender_rec(P)
    run.require(run.fixture_mode or any(any(x['n'] in RESTART_FIELDS for x in fl) for fl in P.records.values()), 'R-SSN-ORDER: no record has a field %s (configured restart value)' % (RESTART_FIELDS,))
    if rec is None:
        if run.fixture_mode:
            return
        run.require(False, 'R-SSN-ORDER: no record with fields seq and next_seq (sender context) found')
    # ---------------- (a) writers
    steppers = {}     # function -> 'one' (exactly one +1 on every path) | 'some'
    nwr = 0
    for f in P.lib_funcs():
        ws = [(ev, seq_step(ev['e'], rec)) for b, ev in P.events(f) if seq_step(ev['e'], rec) is not None]
        if not ws:
            continue
        for ev, st in ws:
            nwr += 1
            run.instance('R-SSN-ORDER', 'writer %s: %s' % (f['name'], short(ev['e'])[:60]))
            if st == 'other':
                # allowed only while the sender context is being built: the base object is created in this function
                base = strip(ev['e']['l'] if ev['e'].get('k') == 'asg' else ev['e']['e'])
                bvar = ap(base.get('b')) if isinstance(base, dict) else None
                fresh = False
                def _alloc(r):
                    r = strip(r)
                    return isinstance(r, dict) and r.get('k') == 'call' and 'alloc' in (r.get('fn') or '')
                for b2, ev2 in P.events(f):
                    t2 = ev2['e']
                    if t2.get('k') == 'asg' and ap(t2['l']) == bvar and _alloc(t2['r']):
                        fresh = True
                    if t2.get('k') == 'decl':
                        for d in t2['d']:
                            if 'v%d' % d['id'] == bvar and 'init' in d and _alloc(d['init']):
                                fresh = True
                # where a context is built, the number is either 0 (a brand-new context) or the configured restart value itself: the value
                # last handed to the save callback.  The watermark next_seq is DERIVED from it (rounded down to a multiple of ssn_freq);
                # resuming from the derived value re-uses the partial IVs between the two.
                if fresh and ev['e'].get('k') == 'asg' and ev['e'].get('op') == '=':
                    r0 = strip(ev['e']['r'])
                    K0 = const_int(ev['e']['r'])
                    src_ok = K0 == 0 or (isinstance(r0, dict) and r0.get('k') == 'mem' and r0.get('f') in RESTART_FIELDS)
                    run.oblige('R-SSN-ORDER', src_ok, 'restart-source:%s' % f['name'])
                    if not src_ok:
                        run.violation('R-SSN-ORDER', f['name'], ev['loc'], 'restart-from-derived-value',
                                      'the sender sequence number of the new context is initialised from %s instead of the configured restart value (%s) or 0: if that value is smaller '
                                      'than the number last saved, partial IVs that were already used are used again after a restart' % (short(ev['e']['r'])[:40], '/'.join(RESTART_FIELDS)), [])
                run.oblige('R-SSN-ORDER', fresh, 'writer:%s' % f['name'])
                if not fresh:
                    run.violation('R-SSN-ORDER', f['name'], ev['loc'], 'seq-set-outside-constructor',
                                  'the sender sequence number is assigned (%s) outside the construction of its context: a partial IV can be used twice' % short(ev['e'])[:60], [])
        if all(st == 1 for _e, st in ws):
            # exactly one step on every path?
            cnt = {'ok': True}

            def on_event(ev, env, ctx, rec=rec):
                if seq_step(ev['e'], rec) == 1:
                    e = env.copy()
                    e.ts['n'] = min(2, env.ts['n'] + 1)
                    return [e]
                return None

            def on_exit(env, ctx, cnt=cnt):
                if env.ts['n'] != 1:
                    cnt['ok'] = False
            solve(f, Env({'n': 0}), on_event, on_exit, set(), set(), key_fn=lambda e: e.ts['n'])
            steppers[f['name']] = 'one' if cnt['ok'] else 'some'
        else:
            steppers[f['name']] = 'some'
    run.require(nwr >= 2 or run.fixture_mode, 'R-SSN-ORDER: fewer than 2 writers of the sender sequence number found')
    run.notes.append('R-SSN-ORDER: sender record %s; steppers %s' % (rec, steppers))
    # ---------------- (b), (c) users
    nuse = 0
    for f in P.lib_funcs():
        if f['name'] in steppers:
            continue

        def is_use(t):
            if t.get('k') == 'call':
                return any(_lin(a, rec) and _lin(a, rec)[0] == 'seq' for a in t.get('a', []))
            if t.get('k') == 'asg' and t.get('op') == '=' and not _fld(t['l'], rec, 'seq'):
                x = _lin(t['r'], rec)
                return bool(x and x[0] == 'seq')
            if t.get('k') == 'decl':
                for d in t['d']:
                    x = _lin(d['init'], rec) if 'init' in d else None
                    if x and x[0] == 'seq':
                        return True
            return False
        if not any(is_use(ev['e']) for b, ev in P.events(f)):
            continue
        nuse += 1
        name = f['name']
        run.instance('R-SSN-ORDER', 'user %s' % name)

        def is_rule_event(ev):
            t = ev['e']
            if is_use(t) or t.get('k') == 'ret':
                return True
            if t.get('k') == 'call' and (t.get('fn') in steppers or callee_field(t) == SAVE_FIELD):
                return True
            if t.get('k') == 'asg' and _fld(t['l'], rec, 'next_seq'):
                return True
            return False
        keys, R = relevance(f, is_rule_event)
        # conditions that compare seq with next_seq are rule-relevant themselves
        for b in f['blocks']:
            c = (b.get('term') or {}).get('cond')
            if c is not None and any(_fld(n, rec, 'next_seq') for n in walk(c) if isinstance(n, dict)):
                keys = set(keys) | {b['id']}

        def on_event(ev, env, ctx):
            t = ev['e']
            if is_use(t):
                e = env.copy()
                e.ts['use_at'] = env.ts['inc']
                return [apply_generic(ev, e, R)]
            if t.get('k') == 'call' and t.get('fn') in steppers:
                e = env.copy()
                e.ts['inc'] = min(3, env.ts['inc'] + 1) if steppers[t['fn']] == 'one' else '?'
                return [apply_generic(ev, e, R)]
            if t.get('k') == 'asg' and _fld(t['l'], rec, 'next_seq'):
                if env.ts.get('wm') == 'need':
                    e = env.copy()
                    grows = t.get('op') == '+=' or (t.get('op') == '=' and any(_fld(n, rec, 'next_seq') or _fld(n, rec, 'seq') for n in walk(t['r']) if isinstance(n, dict)))
                    e.ts['wm'] = 'bumped' if grows else 'need'
                    return [apply_generic(ev, e, R)]
                return None
            if t.get('k') == 'call' and callee_field(t) == SAVE_FIELD:
                st = env.ts.get('wm')
                if st in ('need', 'bumped'):
                    arg_ok = bool(t.get('a')) and _lin(t['a'][0], rec) is not None and _lin(t['a'][0], rec)[0] == 'next'
                    ok = st == 'bumped' and arg_ok
                    run.oblige('R-SSN-ORDER', ok, '%s:save-call' % name)
                    if not ok:
                        run.violation('R-SSN-ORDER', name, ev['loc'], 'saved-value-not-new-watermark',
                                      'the save callback is invoked %s: after a restart from the saved value partial IVs already used are used again' %
                                      ('before next_seq was advanced' if st == 'need' else 'with a value other than the advanced next_seq'), ctx.path())
                    e = env.copy()
                    e.ts['wm'] = 'ok'
                    return [apply_generic(ev, e, R)]
                return None
            if t.get('k') == 'ret' and 'e' in t and not is_null_const(t['e']):
                a = ap(t['e'])
                if a and env.nullf(a) == 'Z':
                    return None
                if env.ts.get('use_at') is None:
                    return None
                inc, use_at = env.ts['inc'], env.ts['use_at']
                adv = inc != '?' and use_at != '?' and inc - use_at == 1
                run.oblige('R-SSN-ORDER', adv, '%s:advance-once' % name)
                if not adv:
                    run.violation('R-SSN-ORDER', name, ev['loc'], 'piv-not-advanced-once',
                                  'a message is returned for sending on a path where the sender sequence number used as its partial IV was advanced %s times' %
                                  ('an unknown number of' if '?' in (inc, use_at) else str(inc - use_at)), ctx.path())
                wm = env.ts.get('wm')
                if wm == 'skip':
                    t_inc = env.ts.get('t_inc')
                    if '?' in (t_inc, use_at):
                        wm = 'weak'
                    else:
                        # on the skipping arm the comparison established  used_piv + margin <= next_seq
                        margin = (t_inc - use_at) + env.ts.get('t_k', 0)
                        wm = 'ok' if margin >= 1 else 'weak'
                ok = wm in ('ok', 'nosave')
                run.oblige('R-SSN-ORDER', ok, '%s:watermark' % name)
                if not ok:
                    why = {None: 'without comparing the sequence number with the persisted watermark next_seq',
                           'weak': 'after a watermark comparison that only implies used_piv <= next_seq on the arm that skips the save (the message whose partial IV equals the saved value goes out unsaved)',
                           'need': 'on the arm that must save, without calling the save callback',
                           'bumped': 'on the arm that must save, next_seq advanced but the save callback not called'}.get(wm, str(wm))
                    run.violation('R-SSN-ORDER', name, ev['loc'], 'unsaved-piv:%s' % (wm or 'no-test'),
                                  'a protected message is returned for sending %s: a restart from the last saved number reuses this partial IV (AEAD nonce reuse)' % why, ctx.path())
            return None

        def on_branch(b, s, env, ctx):
            term = b.get('term') or {}
            c = term.get('cond')
            if c is None or len(b['succ']) != 2:
                return env
            truth = s == b['succ'][0]
            c = strip(c)
            neg = False
            while isinstance(c, dict) and c.get('k') == 'un' and c.get('op') == '!':
                c = strip(c['e'])
                neg = not neg
            if neg:
                truth = not truth
            if isinstance(c, dict) and c.get('k') == 'mem' and c.get('f') == SAVE_FIELD or \
               (isinstance(c, dict) and c.get('k') == 'bin' and c.get('op') in ('!=', '==') and is_null_const(c['r']) and isinstance(strip(c['l']), dict) and strip(c['l']).get('f') == SAVE_FIELD):
                isnull = (not truth) if not (c.get('k') == 'bin' and c.get('op') == '==') else truth
                if isnull:
                    e = env.copy()
                    e.ts['wm'] = 'nosave'
                    return e
                return env
            if not (isinstance(c, dict) and c.get('k') == 'bin' and c.get('op') in ('<', '<=', '>', '>=')):
                return env
            L, Rr = _lin(c['l'], rec), _lin(c['r'], rec)
            if not L or not Rr or {L[0], Rr[0]} != {'seq', 'next'}:
                return env
            op = c['op']
            if L[0] == 'next':
                L, Rr = Rr, L
                op = {'<': '>', '<=': '>=', '>': '<', '>=': '<='}[op]
            k = L[1] - Rr[1]          # seq + k OP next_seq
            # which arm knows an upper bound on seq?
            if op in ('>', '>='):
                skip = not truth
                strict = op == '>='       # !(seq+k >= next)  ->  seq+k < next
            else:
                skip = truth
                strict = op == '<'
            e = env.copy()
            if not skip:
                e.ts['wm'] = 'need'
                return e
            e.ts['wm'] = 'skip'
            e.ts['t_inc'] = env.ts['inc']
            e.ts['t_k'] = k + (1 if strict else 0)
            return e
        # the use and the step sit under two textually separate but equal conditions over local flags: keep the environments
        # apart by the value facts of the plain locals those conditions read, so the correlation survives the join in between
        corr = set()
        for b in f['blocks']:
            if any(is_use(ev['e']) or (ev['e'].get('k') == 'call' and ev['e'].get('fn') in steppers) for ev in b['elems']):
                for (c, _i) in transitive_control_deps(f, b['id']):
                    corr |= {a for a in aps_of(f['B'][c]['term']['cond']) if a.startswith('v') and '.' not in a and '>' not in a}
        corr = sorted(corr)
        inits = Env({'inc': 0, 'use_at': None, 'wm': None})
        ctx = solve(f, inits, on_event, None, keys, R, key_fn=lambda e: (e.ts['inc'], e.ts['use_at'], e.ts['wm'], e.ts.get('t_inc'), e.ts.get('t_k'), tuple((e.intf(a), e.nullf(a)) for a in corr)), on_branch=on_branch)
        run.stats['ssn_solver_steps'] += ctx.steps
    run.require(nuse >= 1 or run.fixture_mode, 'R-SSN-ORDER: no function uses the sender sequence number as a value')


# ---------------------------------------------------------------------------------------------------------------
ENCRYPT = 'coap_oscore_new_pdu_encrypted_lkd'
ADD_OPT = ('coap_add_option_internal', 'coap_add_option', 'coap_insert_option')


def run_echo_piv(run, P):
    """R-SSN-ORDER (Echo challenge): a response that carries a fresh Echo value is a NEW plaintext every time the same request arrives
    (RFC 8613 Appendix B.1.2: the request may be a replay, that is what the challenge is for).  Protected without its own Partial IV it
    would be encrypted under the request's nonce: two different plaintexts under one (key, nonce).  So in every function that adds an
    Echo option to a PDU and then protects that PDU, the send_partial_iv argument of the protecting call is OSCORE_SEND_PARTIAL_IV on every
    path on which the Echo option was added (constants, `c ? a : b` with c decided by the path facts, locals with known value)."""
    run.rule('R-SSN-ORDER')
    ECHO = P.const_named('COAP_OPTION_ECHO') if hasattr(P, 'const_named') else 252
    try:
        SEND = P.const_named('OSCORE_SEND_PARTIAL_IV')
    except Exception:
        SEND = 1
    n = 0
    for f in sorted(P.lib_funcs(), key=lambda f: f['name']):
        adds, encs = [], []
        for b, ev in P.events(f):
            t = ev['e']
            if t.get('k') == 'call' and t.get('fn') in ADD_OPT and len(t.get('a') or []) >= 2 and const_int(t['a'][1]) == ECHO and ap(t['a'][0]):
                adds.append((ev, ap(t['a'][0])))
            c = t if t.get('k') == 'call' else (strip(t.get('r')) if t.get('k') == 'asg' else None)
            if isinstance(c, dict) and c.get('k') == 'call' and c.get('fn') == ENCRYPT and len(c.get('a') or []) >= 4 and ap(c['a'][1]):
                encs.append((ev, c, ap(c['a'][1])))
        # a challenge is issued by whoever BUILDS the message: the PDU is created in this function (a client echoing the value back into its
        # next request works on a PDU it was handed, and a request always carries its own Partial IV anyway)
        built = set()
        for b, ev in P.events(f):
            t = ev['e']
            if t.get('k') == 'asg' and t.get('op') == '=' and isinstance(strip(t['r']), dict) and strip(t['r']).get('k') == 'call' and strip(t['r']).get('fn') in ('coap_pdu_init', 'coap_new_pdu_lkd') and ap(t['l']):
                built.add(ap(t['l']))
            for d in t.get('d') or ():
                r = strip(d.get('init'))
                if isinstance(r, dict) and r.get('k') == 'call' and r.get('fn') in ('coap_pdu_init', 'coap_new_pdu_lkd'):
                    built.add('v%d' % d['id'])
        adds = [a for a in adds if a[1] in built]
        if not adds or not encs:
            continue
        name = f['name']
        n += 1
        run.instance('R-SSN-ORDER', '%s: builds a message with an Echo option and protects it' % name)
        condvars = set()
        for ev, c, p in encs:
            for x in walk(c['a'][3]):
                if isinstance(x, dict) and ap(x):
                    condvars.add(ap(x))

        def is_rule_event(ev):
            return any(ev is a[0] for a in adds) or any(ev is e[0] for e in encs)
        keys, R = relevance(f, is_rule_event, condvars)
        R = set(R) | condvars
        for b in f['blocks']:
            c = (b.get('term') or {}).get('cond')
            if c is not None and any(isinstance(x, dict) and ap(x) in condvars for x in walk(c)):
                keys = set(keys) | {b['id']}

        def value(x, env):
            x = strip(x)
            K = const_int(x)
            if K is not None:
                return K
            if isinstance(x, dict) and x.get('k') == 'cond':
                c = strip(x['c'])
                neg = False
                while isinstance(c, dict) and c.get('k') == 'un' and c.get('op') == '!':
                    c = strip(c['e'])
                    neg = not neg
                tv = None
                if ap(c):
                    nf = env.nullf(ap(c))
                    if nf in ('N', 'Z'):
                        tv = (nf == 'N')
                    else:
                        lo, hi, ex = env.intf(ap(c))
                        if lo == hi == 0:
                            tv = False
                        elif lo > 0 or hi < 0 or 0 in ex:
                            tv = True
                if tv is None:
                    a, b2 = value(x['x'], env), value(x['y'], env)
                    return a if a == b2 else None
                if neg:
                    tv = not tv
                return value(x['x'] if tv else x['y'], env)
            if ap(x):
                lo, hi, ex = env.intf(ap(x))
                if lo == hi:
                    return lo
            return None

        def on_event(ev, env, ctx):
            for aev, p in adds:
                if ev is aev:
                    e = apply_generic(ev, env, R).copy()
                    e.ts['echo'] = tuple(sorted(set(env.ts.get('echo', ())) | {p}))
                    return [e]
            for eev, c, p in encs:
                if ev is eev and p in env.ts.get('echo', ()):
                    v = value(c['a'][3], env)
                    ok = v == SEND
                    run.oblige('R-SSN-ORDER', ok, '%s:echo-response-own-piv' % name)
                    if not ok:
                        run.violation('R-SSN-ORDER', name, ev['loc'], 'echo-response-without-own-piv',
                                      'a PDU to which an Echo option was added on this path is protected with send_partial_iv = %s (%s), not OSCORE_SEND_PARTIAL_IV: the challenge is '
                                      'encrypted under the nonce of the request, and a second delivery of that request encrypts a different Echo value under the same key and nonce' %
                                      ('?' if v is None else v, short(c['a'][3])[:40]), ctx.path())
            return None
        solve(f, Env(), on_event, None, keys, R, key_fn=lambda e: (e.ts.get('echo', ()), tuple(e.nullf(v) for v in sorted(condvars))))
    run.require_count(n >= 1 or run.fixture_mode or run.cfg != 'base', 'R-SSN-ORDER(Echo): no function that adds an Echo option and protects the PDU found')


def run_ctx_siblings(run, P):
    """R-REPLAY-MUST (context constructors agree): a security context is built in two places -- from the configuration (the function that
    assigns fields of the context record from fields of coap_oscore_conf_t) and as a copy of an existing context with a new ID Context
    (Appendix B.2: the function that assigns fields of a fresh context record from the same fields of another context).  Every field the
    first takes from the configuration, the second copies: a setting that is silently left at zero in the copy switches a protection off
    for exactly the contexts that B.2 negotiates (rfc8613_b_1_2 = 0 there means the replay window of the new context is never armed)."""
    run.rule('R-REPLAY-MUST')
    REC, CONF = 'oscore_ctx_t', 'coap_oscore_conf_t'
    from_conf, copies = {}, {}
    for f in P.lib_funcs():
        fc, cp = {}, {}
        for b, ev in P.events(f):
            t = ev['e']
            if t.get('k') != 'asg' or t.get('op') != '=':
                continue
            l = strip(t['l'])
            if not (isinstance(l, dict) and l.get('k') == 'mem' and l.get('rec') == REC):
                continue
            if any(isinstance(y, dict) and y.get('k') == 'mem' and y.get('rec') == CONF for y in walk(t['r'])):
                fc[l['f']] = ev['loc']
            for y in walk(t['r']):
                if isinstance(y, dict) and y.get('k') == 'mem' and y.get('rec') == REC and y.get('f') == l['f'] and ap(y.get('b')) != ap(l.get('b')):
                    cp[l['f']] = ev['loc']
        if len(fc) >= 4:
            from_conf[f['name']] = fc
        if len(cp) >= 4:
            copies[f['name']] = (cp, set(strip(ev['e']['l'])['f'] for b, ev in P.events(f) if ev['e'].get('k') == 'asg' and isinstance(strip(ev['e']['l']), dict)
                                         and strip(ev['e']['l']).get('k') == 'mem' and strip(ev['e']['l']).get('rec') == REC))
    run.require((from_conf and copies) or run.fixture_mode or run.cfg != 'base', 'R-REPLAY-MUST(context constructors): constructor from configuration %s / copying constructor %s not found' % (sorted(from_conf), sorted(copies)))
    for cn, fc in sorted(from_conf.items()):
        for dn, (cp, assigned) in sorted(copies.items()):
            if cn == dn:
                continue
            for fld, loc in sorted(fc.items()):
                run.instance('R-REPLAY-MUST', '%s copies %s, which %s takes from the configuration' % (dn, fld, cn))
                ok = fld in assigned
                run.oblige('R-REPLAY-MUST', ok, '%s:copies:%s' % (dn, fld))
                if not ok:
                    run.violation('R-REPLAY-MUST', dn, P.func(dn)['loc'], 'context-copy-drops-setting:%s' % fld,
                                  '%s() takes %s from the configuration (%s) but %s(), which builds the context that Appendix B.2 negotiates as a copy, never assigns it: the '
                                  'copy runs with that setting at zero' % (cn, fld, loc.rsplit('/', 1)[-1], dn), [])
