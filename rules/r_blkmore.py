"""R-BLK-MORE (C09, C20): the More bit of a block option that libcoap computes for a body it is sending says exactly whether body bytes
remain behind the block: m <=> length - offset > bytes carried by this block.  One bit wrong at the boundary either ends the transfer
one block early (the receiver reassembles a truncated body / listing) or asks for a block that does not exist (4.00 / an empty extra
block after a complete body).

Decided exactly by enumeration, not by matching a spelling: every assignment `<block>.m = <relational expression>` in the library is
evaluated over a small domain.  Roles are taken from the repository's own names: the body length (`length`, `total`), the position of
the block (`offset`, `start`, or `num` times the block size); the one remaining sub-expression X is the number of bytes this block
carries, whatever it is (chunk, the BERT multiple of 1024, block->chunk_size).  For all 0 <= offset <= length <= 12 and X in 1..5 the
expression equals (length - offset > X).  `(offset + X) < length`, `(length - offset) > X`, `X < (total - start)`, `(num + 1) * X <
length` all pass; `>=`, `<=`, a missing `+ 1`, do not."""
from core.prog import strip, walk, ap, short, const_int
from core.facts import AnalysisBroken

LEN = {'length', 'total'}
OFF = {'offset', 'start'}
NUM = {'num'}
BLOCK_RECS = ('coap_block_b_t', 'coap_block_t')


def _leafname(t):
    t = strip(t)
    if isinstance(t, dict):
        if t.get('k') == 'mem':
            return t.get('f')
        if t.get('k') == 'var':
            return t.get('n')
    return None


def _role(t):
    n = _leafname(t)
    if n in LEN:
        return 'L'
    if n in OFF:
        return 'O'
    if n in NUM:
        return 'N'
    return None


def _has_role(t):
    return any(isinstance(x, dict) and x.get('k') in ('mem', 'var') and _role(x) for x in walk(t))


class Decline(Exception):
    pass


def _ev(t, env, xs):
    t = strip(t)
    if not isinstance(t, dict):
        raise Decline('?')
    if t.get('k') in ('mem', 'var') and _role(t):
        return env[_role(t)]
    if not _has_role(t):
        c = const_int(t)
        if c is not None:
            return c
        xs.add(short(t))
        return env['X']
    if t.get('k') == 'bin':
        a, b = _ev(t['l'], env, xs), _ev(t['r'], env, xs)
        op = t['op']
        if op == '+':
            return a + b
        if op == '-':
            return a - b
        if op == '*':
            return a * b
        if op == '<':
            return int(a < b)
        if op == '>':
            return int(a > b)
        if op == '<=':
            return int(a <= b)
        if op == '>=':
            return int(a >= b)
        if op == '==':
            return int(a == b)
        if op == '!=':
            return int(a != b)
        if op == '&&':
            return int(bool(a) and bool(b))
        if op == '||':
            return int(bool(a) or bool(b))
    if t.get('k') == 'un' and t.get('op') == '!':
        return int(not _ev(t['e'], env, xs))
    raise Decline(short(t)[:40])


def run(run, P):
    run.rule('R-BLK-MORE')
    n = 0
    for f in sorted(P.lib_funcs(), key=lambda f: f['name']):
        for b, ev in P.events(f):
            t = ev['e']
            if not (t.get('k') == 'asg' and t.get('op') == '=' and ev.get('top', True)):
                continue
            l = strip(t['l'])
            if not (isinstance(l, dict) and l.get('k') == 'mem' and l.get('f') == 'm' and l.get('rec') in BLOCK_RECS):
                continue
            r = strip(t['r'])
            if not (isinstance(r, dict) and r.get('k') == 'bin' and r.get('op') in ('<', '>', '<=', '>=', '==', '!=', '&&', '||')):
                continue                                  # copied from a received option, a constant: not computed here
            roles = set(_role(x) for x in walk(r) if isinstance(x, dict) and x.get('k') in ('mem', 'var') and _role(x))
            if 'L' not in roles or not (roles & {'O', 'N'}):
                continue
            bad = None
            xs = set()
            try:
                for X in range(1, 6):
                    for L in range(0, 13):
                        for O in range(0, L + 1):
                            if 'N' in roles and O % X:
                                continue
                            env = {'X': X, 'L': L, 'O': O, 'N': O // X}
                            got = _ev(r, env, xs)
                            want = int(L - O > X)
                            if got != want and bad is None:
                                bad = (L, O, X, got, want)
            except Decline as e:
                raise AnalysisBroken('R-BLK-MORE: %s(): cannot evaluate the More-bit expression %s (%s)' % (f['name'], short(r)[:80], e))
            if len(xs) > 1:
                raise AnalysisBroken('R-BLK-MORE: %s(): More-bit expression %s has more than one block-size term (%s)' % (f['name'], short(r)[:80], sorted(xs)))
            n += 1
            run.instance('R-BLK-MORE', '%s: %s.m = %s  <=>  length - offset > %s' % (f['name'], short(l['b']), short(r)[:70], (sorted(xs) or ['?'])[0][:40]))
            run.oblige('R-BLK-MORE', bad is None, '%s:more-bit-exact' % f['name'])
            if bad is not None:
                L, O, X, got, want = bad
                run.violation('R-BLK-MORE', f['name'], ev['loc'], 'more-bit-wrong:%s' % short(r)[:60].replace(' ', ''),
                              'for a body of %d byte(s), a block at offset %d carrying %d byte(s), `%s` gives M=%d but %d byte(s) remain behind the block (M must be %d): the '
                              'transfer %s' % (L, O, X, short(r)[:70], got, max(0, L - O - X), want,
                                               'ends one block early, the body is truncated' if want else 'asks for a block that does not exist'), [])
    run.require_count(n >= (6 if run.cfg == 'base' else 1) or run.fixture_mode, 'R-BLK-MORE: fewer than 6 computed More bits found (expected setup_block_b, coap_send_q_blocks, coap_handle_request_send_block, ...)')


def run_size_sync(run, P):
    """R-BLK-MORE (one block size): a function that SELECTS the block size itself (a local `chunk = 1 << (blk_size + 4)` whose blk_size is
    a local it reduces to what the message can carry) holds two representations of "the block size": its local and the chunk_size field
    of the block record that coap_get_block_b() filled from the option the application / peer put into the PDU -- the REQUESTED size.
    Until the record has been re-synchronised from the selected size (a call that receives both the record and the local size, e.g.
    setup_block_b(.., &block, .., blk_size, ..), or `block.chunk_size = chunk`) its chunk_size is not read by a condition or an
    assignment: a decision taken on the requested size (`length > block.chunk_size`: "one block is enough") sends a body longer than the
    block size it announces, which the receiver clamps -- a silently truncated body."""
    from core.prog import dominators
    run.rule('R-BLK-MORE')
    n = 0
    for f in sorted(P.lib_funcs(), key=lambda f: f['name']):
        sizes = {}                 # local exponent variable -> local chunk variable
        for b, ev in P.events(f):
            t = ev['e']
            pairs = []
            if t.get('k') == 'asg' and t.get('op') == '=' and ev.get('top', True):
                pairs = [(t['l'], t['r'])]
            for l, r in pairs:
                l0 = strip(l)
                if not (isinstance(l0, dict) and l0.get('k') == 'var'):
                    continue
                for x in walk(r):
                    if isinstance(x, dict) and x.get('k') == 'bin' and x.get('op') == '<<' and const_int(x['l']) == 1:
                        sh = strip(x['r'])
                        if isinstance(sh, dict) and sh.get('k') == 'bin' and sh.get('op') == '+' and const_int(sh['r']) == 4:
                            e = strip(sh['l'])
                            if isinstance(e, dict) and e.get('k') == 'var' and e.get('pi') is None:
                                sizes[ap(e)] = ap(l0)
        if not sizes:
            continue
        dom = dominators(f)
        order = {}
        for b in f['blocks']:
            for i, ev in enumerate(b['elems']):
                order[id(ev)] = (b['id'], i)
        syncs = []                 # (block record key, block id, index)
        reads = []
        for b, ev in P.events(f):
            t = ev['e']
            if not ev.get('top', True):
                continue
            if t.get('k') == 'call':
                recs = [ap(strip(a)['e']) for a in t.get('a') or () if isinstance(strip(a), dict) and strip(a).get('k') == 'un' and strip(a).get('op') == '&'
                        and strip(a).get('prec') in BLOCK_RECS and ap(strip(a).get('e'))]
                if recs and any(isinstance(strip(a), dict) and ap(strip(a)) in sizes for a in t.get('a') or ()):
                    syncs += [(r, b['id'], order[id(ev)][1]) for r in recs]
            if t.get('k') == 'asg' and t.get('op') == '=':
                l = strip(t['l'])
                if isinstance(l, dict) and l.get('k') == 'mem' and l.get('f') == 'chunk_size' and l.get('rec') in BLOCK_RECS and not l.get('arrow') and ap(l.get('b')) \
                   and any(isinstance(x, dict) and ap(x) in sizes.values() for x in walk(t['r'])):
                    syncs.append((ap(l['b']), b['id'], order[id(ev)][1]))

        def cs_reads(t):
            return [ap(x['b']) for x in walk(t) if isinstance(x, dict) and x.get('k') == 'mem' and x.get('f') == 'chunk_size' and x.get('rec') in BLOCK_RECS
                    and not x.get('arrow') and ap(x.get('b'))]
        for b in f['blocks']:
            for i, ev in enumerate(b['elems']):
                t = ev['e']
                if ev.get('top', True) and t.get('k') == 'asg':
                    for r in cs_reads(t['r']):
                        reads.append((r, b['id'], i, ev['loc'], short(t)[:60]))
                elif t.get('k') == 'decl':
                    for d in t['d']:
                        if d.get('init'):
                            for r in cs_reads(d['init']):
                                reads.append((r, b['id'], i, ev['loc'], short(t)[:60]))
            c = (b.get('term') or {}).get('cond')
            if c is not None:
                for r in cs_reads(c):
                    reads.append((r, b['id'], len(b['elems']), (b.get('term') or {}).get('loc') or f['loc'], short(c)[:60]))
        seen = set()
        for r, bid, i, loc, txt in reads:
            if (r, loc, txt) in seen or bid not in dom:
                continue
            seen.add((r, loc, txt))
            ok = any(sr == r and ((sb == bid and si < i) or (sb != bid and sb in dom[bid])) for sr, sb, si in syncs)
            n += 1
            run.instance('R-BLK-MORE', '%s: read of the record\'s chunk_size in `%s` comes after the record was re-synchronised from the selected size' % (f['name'], txt))
            run.oblige('R-BLK-MORE', ok, '%s:chunk_size-read-after-sync' % f['name'])
            if not ok:
                run.violation('R-BLK-MORE', f['name'], loc, 'requested-size-read-before-sync',
                              '`%s` reads the block record\'s chunk_size, which still holds the size REQUESTED in the option, although %s() has selected its own block size '
                              '(%s) and has not yet written it back to the record: the decision is taken on the wrong block size whenever the message cannot carry the '
                              'requested one' % (txt, f['name'], ', '.join(sorted(set(short_name(P, f, v) for v in sizes.values())))), [])
    run.require_count(n >= 1 or run.fixture_mode or run.cfg != 'base', 'R-BLK-MORE(one block size): no read of a block record\'s chunk_size in a size-selecting function found (expected coap_add_data_large_internal)')


def short_name(P, f, key_):
    for b, ev in P.events(f):
        for x in walk(ev['e']):
            if isinstance(x, dict) and x.get('k') == 'var' and ap(x) == key_:
                return x['n']
    return key_


def run_size_field(run, P):
    """R-BLK-MORE (the record knows the size in use): the transfer record keeps the block size exponent every later block is cut with
    (`lg_xmit->blk_size`).  In a function that selects the size itself (a local exponent E with `chunk = 1 << (E + 4)`) and stores it into
    a record (`R->f = E`), a later re-assignment of E -- the first block did not fit after the options were added, the size is reduced --
    is followed on every path to a return by another store of E into the same field, unless the record is handed to a deleter.  A first
    block sent with the reduced size while the record keeps the larger one makes the server refuse the client's request for block 1
    ("changing blocksize during request") -- the transfer never completes."""
    from core.psts import Env, solve, relevance, apply_generic
    run.rule('R-BLK-MORE')
    n = 0
    for f in sorted(P.lib_funcs(), key=lambda f: f['name']):
        exps = set()
        for b, ev in P.events(f):
            t = ev['e']
            if t.get('k') == 'asg' and t.get('op') == '=' and ev.get('top', True):
                for x in walk(t['r']):
                    if isinstance(x, dict) and x.get('k') == 'bin' and x.get('op') == '<<' and const_int(x['l']) == 1:
                        sh = strip(x['r'])
                        if isinstance(sh, dict) and sh.get('k') == 'bin' and sh.get('op') == '+' and const_int(sh['r']) == 4:
                            e = strip(sh['l'])
                            if isinstance(e, dict) and e.get('k') == 'var' and e.get('pi') is None:
                                exps.add(ap(e))
        if not exps:
            continue
        stores, defs = [], []
        for b, ev in P.events(f):
            t = ev['e']
            if t.get('k') == 'asg' and t.get('op') == '=' and ev.get('top', True):
                l = strip(t['l'])
                r = strip(t['r'])
                while isinstance(r, dict) and r.get('k') == 'cast':
                    r = strip(r['e'])
                if isinstance(l, dict) and l.get('k') == 'mem' and l.get('arrow') and ap(l) and isinstance(r, dict) and r.get('k') == 'var' and ap(r) in exps:
                    stores.append((ev, ap(l), ap(r), ap(l.get('b'))))
                if isinstance(l, dict) and l.get('k') == 'var' and ap(l) in exps:
                    defs.append((ev, ap(l)))
        if not stores:
            continue
        name = f['name']
        recs = set(s_[3] for s_ in stores)

        def is_rule_event(ev):
            t = ev['e']
            return any(ev is s_[0] for s_ in stores) or any(ev is d[0] for d in defs) or \
                (t.get('k') == 'call' and 'delete' in (t.get('fn') or '') and any(ap(strip(a)) in recs for a in t.get('a') or () if isinstance(strip(a), dict)))
        keys, R = relevance(f, is_rule_event)
        rep = set()

        def on_event(ev, env, ctx):
            t = ev['e']
            for sev, fp, e_, rec in stores:
                if ev is sev:
                    x = apply_generic(ev, env, R).copy()
                    x.ts['synced'] = frozenset(env.ts.get('synced', frozenset()) | {(fp, e_)})
                    x.ts['stale'] = frozenset(y for y in env.ts.get('stale', frozenset()) if y[0] != fp)
                    return [x]
            for dev, e_ in defs:
                if ev is dev:
                    hit = [y for y in env.ts.get('synced', frozenset()) if y[1] == e_]
                    if hit:
                        x = apply_generic(ev, env, R).copy()
                        x.ts['stale'] = frozenset(env.ts.get('stale', frozenset()) | {(y[0], ev['loc']) for y in hit})
                        return [x]
            if t.get('k') == 'call' and 'delete' in (t.get('fn') or '') and env.ts.get('stale'):
                gone = [ap(strip(a)) for a in t.get('a') or () if isinstance(strip(a), dict) and ap(strip(a)) in recs]
                if gone:
                    x = apply_generic(ev, env, R).copy()
                    x.ts['stale'] = frozenset(y for y in env.ts['stale'] if not any(y[0].startswith(g + '->') for g in gone))
                    return [x]
            return None

        def on_exit(env, ctx):
            for fp, loc in env.ts.get('stale', ()):
                run.oblige('R-BLK-MORE', False, '%s:record-follows-selected-size' % name)
                if loc not in rep:
                    rep.add(loc)
                    run.violation('R-BLK-MORE', name, loc, 'record-keeps-old-block-size',
                                  'the selected block size exponent is changed here after it was stored in the transfer record, and the function returns on a path that does '
                                  'not store it again: the first block goes out with the new size while every later block is cut (and checked) with the old one', ctx.path())
            run.oblige('R-BLK-MORE', not env.ts.get('stale'), '%s:size-field-exit' % name)
        n += len(stores)
        run.instance('R-BLK-MORE', '%s: the record\'s size field follows every change of the selected size (%d store(s))' % (name, len(stores)))
        solve(f, Env(), on_event, on_exit, keys, R, key_fn=lambda e: (e.ts.get('synced'), frozenset(y[0] for y in e.ts.get('stale', ()))))
    run.require_count(n >= 1 or run.fixture_mode or run.cfg != 'base', 'R-BLK-MORE(size field): no store of a selected block size into a record found (expected coap_add_data_large_internal)')
