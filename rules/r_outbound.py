"""R-OUT-BOUND (C20): in coap_print_link / coap_print_wellknown_lkd
(a) every store through the output cursor (`*p++ = c`) happens on a path that holds `p < end` for the current
    value of p (the comparison is re-established after every advance);
(b) the space handed to coap_print_link is `end - p` of the current cursor (so the callee's end is the caller's);
(c) after the call the cursor advances by the callee's reported output length."""
from core.prog import strip, walk, ap, key, short, const_int
from core.psts import Env, solve, relevance, apply_generic

FUNCS = ('coap_print_link', 'coap_print_wellknown_lkd')


def _cursor_store(t):
    """variable access path if the event is `*(p++) = x` / `*p = x` through a local char cursor"""
    if t.get('k') != 'asg' or t.get('op') != '=':
        return None
    l = strip(t['l'])
    if not (isinstance(l, dict) and l.get('k') == 'un' and l.get('op') == '*'):
        return None
    inner = strip(l['e'])
    if isinstance(inner, dict) and inner.get('k') == 'un' and inner.get('op') in ('++',):
        inner = strip(inner['e'])
    if isinstance(inner, dict) and inner.get('k') == 'var' and inner.get('pt') in ('unsigned char', 'char', 'uint8_t') and not inner.get('pc'):
        return ap(inner), inner['n']
    return None


def run(run, P):
    run.rule('R-OUT-BOUND')
    total = 0
    for fname in FUNCS:
        if not P.has(fname):
            if run.fixture_mode:
                continue
            run.require(False, 'anchor function %s() of R-OUT-BOUND not found' % fname)
        f = P.func(fname)
        cursors = set()
        for b, ev in P.events(f):
            c = _cursor_store(ev['e'])
            if c:
                cursors.add(c[0])
        n = [0]

        def guarded(env, c):
            for ak, av in env.atoms.items():
                if av and ((ak.startswith('(%s<' % c) and not ak.startswith('(%s<=' % c)) or (ak.endswith('>%s)' % c) and not ak.endswith('=>%s)' % c))):
                    return True
                if (not av) and (ak.startswith('(%s>=' % c) or ak.endswith('<=%s)' % c)):
                    return True
            return False

        def on_event(ev, env, ctx):
            t = ev['e']
            if t.get('k') == 'un' and t.get('op') == '++' and t.get('post') and ap(t['e']) in cursors:
                # `*p++ = c`: the increment is evaluated first; remember whether p < end held for the value that is about to be used
                e = apply_generic(ev, env, None).copy()
                e.ts['g:' + ap(t['e'])] = guarded(env, ap(t['e']))
                for k in [k for k, v in e.ts.items() if k.startswith('space:') and v == ap(t['e'])]:
                    del e.ts[k]
                return [e]
            c = _cursor_store(t)
            if c:
                n[0] += 1
                run.instance('R-OUT-BOUND', '%s: store through %s at line %s' % (fname, c[1], ev['loc'].rsplit(':', 1)[-1]))
                l0 = strip(strip(t['l'])['e'])
                through_inc = isinstance(l0, dict) and l0.get('k') == 'un' and l0.get('op') == '++'
                ok = bool(env.ts.get('g:' + c[0])) if through_inc else guarded(env, c[0])
                run.oblige('R-OUT-BOUND', ok, '%s:store:%s' % (fname, ev['loc'].rsplit(':', 1)[-1]))
                if not ok:
                    run.violation('R-OUT-BOUND', fname, ev['loc'], 'unguarded-store:%s' % c[1],
                                  'a byte is stored through the output cursor %s on a path that does not hold `%s < end` for its current value: the listing '
                                  'can be written behind the buffer of the caller' % (c[1], c[1]), ctx.path())
                return None
            if t.get('k') == 'call' and t.get('fn') == 'coap_print_link' and fname != 'coap_print_link' and len(t['a']) >= 3:
                # (b) the length argument: &left with left = end - p assigned from the current cursor
                pa = ap(t['a'][1])
                la = strip(t['a'][2])
                la = ap(la['e']) if isinstance(la, dict) and la.get('k') == 'un' and la.get('op') == '&' else None
                src = env.ts.get('space:' + str(la))
                ok = bool(src) and src == pa
                run.instance('R-OUT-BOUND', '%s: coap_print_link(.., %s, &%s, ..)' % (fname, short(t['a'][1]), short(t['a'][2])))
                run.oblige('R-OUT-BOUND', ok, '%s:space-is-end-minus-cursor' % fname)
                if not ok:
                    run.violation('R-OUT-BOUND', fname, ev['loc'], 'space-not-from-cursor',
                                  'the space handed to coap_print_link() is not `end - %s` computed from the current cursor on this path' % short(t['a'][1]), ctx.path())
                return None
            if t.get('k') == 'asg' and t.get('op') == '=':
                r = strip(t['r'])
                if isinstance(r, dict) and r.get('k') == 'bin' and r.get('op') == '-' and ap(r['r']) in cursors | set(a for a in [ap(r['r'])] if a):
                    a = ap(t['l'])
                    if a:
                        e = apply_generic(ev, env, None).copy()
                        e.ts['space:' + a] = ap(r['r'])
                        return [e]
            # the cursor moves: a recorded space is stale
            tgt = None
            if t.get('k') == 'asg':
                tgt = ap(t['l'])
            elif t.get('k') == 'un' and t.get('op') in ('++', '--'):
                tgt = ap(t['e'])
            if tgt and any(v == tgt for k, v in env.ts.items() if k.startswith('space:')):
                e = apply_generic(ev, env, None).copy()
                for k in [k for k, v in e.ts.items() if k.startswith('space:') and v == tgt]:
                    del e.ts[k]
                return [e]
            return None

        def key_fn(e):
            return (tuple(sorted((k, v) for k, v in e.ts.items())), tuple(sorted(guarded(e, c) for c in cursors)))
        ctx = solve(f, Env(), on_event, None, None, None, key_fn=key_fn, max_envs=128)
        run.stats['outbound_solver_steps'] += ctx.steps
        total += n[0]
    run.require(total >= 3 or run.fixture_mode, 'R-OUT-BOUND: only %d cursor stores found' % total)
