"""R-CFG-TS (C13): capability <=> mechanism.  In the shipped configuration ('rel'), if
coap_threadsafe_is_supported() reduces to `return 1` then the locking mechanism must be compiled in:
coap_lock_lock_func has a body and every COAP_API wrapper that takes the lock when COAP_THREAD_SAFE
is forced to 1 ('ts' variant) also takes it in the shipped build."""
from core.prog import strip, walk, const_int
from core.facts import AnalysisBroken

LOCK, UNLOCK = 'coap_lock_lock_func', 'coap_lock_unlock_func'


def lockers(P):
    out = set()
    for n, f in P.funcs.items():
        for b, ev in P.events(f):
            t = ev['e']
            if t.get('k') == 'call' and t.get('fn') == LOCK:
                out.add(n)
    return out


def run(run, Prel, Pts, generated=None):
    run.rule('R-CFG-TS')
    f = Prel.func('coap_threadsafe_is_supported')
    rets = [const_int(ev['e'].get('e')) for b, ev in Prel.events(f) if ev['e'].get('k') == 'ret']
    run.require(rets and all(r is not None for r in rets), 'coap_threadsafe_is_supported() does not fold to a constant')
    advertised = any(r != 0 for r in rets)
    run.instance('R-CFG-TS', 'coap_threadsafe_is_supported() folds to return %s in the shipped configuration' % rets)
    lts = lockers(Pts)
    run.require(len(lts) >= 40 or run.fixture_mode, 'only %d functions take the global lock with COAP_THREAD_SAFE forced on' % len(lts))
    lrel = lockers(Prel)
    macro = None
    if generated:
        import re
        h = (generated.get('headers') or {}).get('include/coap3/coap_defines.h') or ''
        m = re.search(r'(?m)^\s*#\s*define\s+COAP_THREAD_SAFE\b(.*)$', h)
        macro = m.group(1).strip() if m else None
        run.notes.append('generated coap_defines.h: COAP_THREAD_SAFE = %r' % macro)
    if not advertised:
        run.oblige('R-CFG-TS', True, 'not-advertised')
        return
    ok_body = Prel.has(LOCK) and Prel.has(UNLOCK)
    run.oblige('R-CFG-TS', ok_body, 'lock-functions-compiled')
    if not ok_body:
        run.violation('R-CFG-TS', 'coap_threadsafe_is_supported', f['loc'], 'no-lock-function',
                      'thread safety is advertised (returns 1) but %s() is not compiled in the shipped configuration '
                      '(generated COAP_THREAD_SAFE = %r makes every `#if COAP_THREAD_SAFE` false)' % (LOCK, macro))
    missing = sorted(lts - lrel)
    for n in sorted(lts):
        run.instance('R-CFG-TS', 'wrapper %s locks in the shipped build: %s' % (n, n in lrel))
        run.oblige('R-CFG-TS', n in lrel, 'locks:%s' % n)
    if missing:
        anchor = 'coap_send' if 'coap_send' in missing else missing[0]
        run.violation('R-CFG-TS', anchor, Prel.funcs[anchor]['loc'] if anchor in Prel.funcs else '?', 'wrappers-without-lock',
                      'thread safety is advertised but %d of %d locking wrappers (e.g. %s) contain no lock call in the shipped configuration'
                      % (len(missing), len(lts), ', '.join(missing[:4])))
