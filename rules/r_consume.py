"""R-CONSUME-AGREE (C12, C18): a function that takes over an object it is handed -- on success it stores the parameter into a longer-lived
record -- tells its caller about failure with one and the same value (NULL / 0).  The caller cannot tell the failure paths apart, so they
have to agree on who owns the object afterwards: either every failure return has released the parameter or none has.  A function that
deletes the parameter on one failure path and leaves it alone on another makes every caller wrong on one of them (double free, or leak).

Computed: parameters of the owned record types (strings, binaries, optlists, cache keys, PDUs, OSCORE configurations) that the function
both stores into a field of another object on some path and passes to that type's destructor on some path; failure return = a return of
the constant NULL or 0 in a function that also has a return of something else.  Path-sensitive: paths on which the parameter is known NULL
carry nothing.  Functions that merely pass the object through (return it) are not judged."""
import collections
from core.prog import strip, walk, ap, short, const_int, is_null_const
from core.psts import Env, solve, relevance, apply_generic

TYPES = ('coap_string_t', 'coap_binary_t', 'coap_bin_const_t', 'coap_str_const_t', 'coap_optlist_t', 'coap_cache_key_t', 'coap_pdu_t', 'coap_oscore_conf_t')
DESTRUCTORS = {'coap_delete_string': 0, 'coap_delete_binary': 0, 'coap_delete_bin_const': 0, 'coap_delete_str_const': 0, 'coap_delete_optlist': 0,
               'coap_delete_cache_key': 0, 'coap_delete_pdu': 0, 'coap_delete_pdu_lkd': 0, 'coap_delete_oscore_conf': 0}


def run(run, P):
    run.rule('R-CONSUME-AGREE')
    n = 0
    for f in sorted(P.lib_funcs(), key=lambda f: f['name']):
        for i, p in enumerate(f['params']):
            if not (p.get('p') and not p.get('pc') and p.get('prec') in TYPES):
                continue
            pv = 'v%d' % p['id']
            dels, stores = [], []
            for b, ev in P.events(f):
                t = ev['e']
                if t.get('k') == 'call' and t.get('fn') in DESTRUCTORS and len(t.get('a') or []) > DESTRUCTORS[t['fn']] and ap(t['a'][DESTRUCTORS[t['fn']]]) == pv:
                    dels.append(ev)
                if t.get('k') == 'asg' and t.get('op') == '=' and ap(strip(t['r'])) == pv:
                    l = strip(t['l'])
                    if isinstance(l, dict) and l.get('k') == 'mem':
                        stores.append(ev)
            if not dels or not stores:
                continue
            name = f['name']
            n += 1
            run.instance('R-CONSUME-AGREE', '%s: takes over `%s`' % (name, p['n']))
            res = collections.defaultdict(list)

            def is_rule_event(ev):
                return any(ev is d for d in dels) or any(ev is s for s in stores) or ev['e'].get('k') == 'ret'
            keys, R = relevance(f, is_rule_event, {pv})
            R = set(R) | {pv}

            def on_event(ev, env, ctx):
                t = ev['e']
                if any(ev is d for d in dels):
                    e = apply_generic(ev, env, R).copy()
                    e.ts['rel'] = ev['loc']
                    return [e]
                if any(ev is s for s in stores):
                    e = apply_generic(ev, env, R).copy()
                    e.ts['kept'] = 1
                    return [e]
                if t.get('k') == 'ret' and t.get('e') is not None:
                    if env.nullf(pv) == 'Z' or env.ts.get('kept'):
                        return None
                    if is_null_const(t['e']) or const_int(t['e']) == 0:
                        res['rel' if env.ts.get('rel') else 'left'].append((ev['loc'], env.ts.get('rel'), ctx.path()))
                return None
            solve(f, Env(), on_event, None, keys, R, key_fn=lambda e: (e.ts.get('rel'), e.ts.get('kept'), e.nullf(pv)))
            ok = not (res['rel'] and res['left'])
            run.oblige('R-CONSUME-AGREE', ok, '%s:failure-paths-agree:%s' % (name, p['n']))
            if not ok:
                minority = res['rel'] if len(res['rel']) <= len(res['left']) else res['left']
                loc, relloc, path = minority[0]
                run.violation('R-CONSUME-AGREE', name, relloc or loc, 'failure-paths-disagree-on-ownership:%s' % p['n'],
                              '%s() takes over `%s` on success; of its failure returns %d are reached with `%s` already deleted and %d with it untouched, all returning the same '
                              'value: whichever convention a caller follows, it frees the object twice or leaks it on the other paths' %
                              (name, p['n'], len(res['rel']), p['n'], len(res['left'])), path)
    run.require(n >= 1 or run.fixture_mode or run.cfg != 'base', 'R-CONSUME-AGREE: no function that both stores and deletes an owned parameter found')
