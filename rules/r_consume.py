"""R-CONSUME-AGREE (C12, C18): a function that takes over an object it is handed -- on success it stores the parameter into a longer-lived
record -- tells its caller about failure with one and the same value (NULL / 0).  The caller cannot tell the failure paths apart, so they
have to agree on who owns the object afterwards: either every failure return has released the parameter or none has.  A function that
deletes the parameter on one failure path and leaves it alone on another makes every caller wrong on one of them (double free, or leak).

Computed: parameters of the owned record types (strings, binaries, optlists, cache keys, PDUs, OSCORE configurations) that the function
both stores into a field of another object on some path and passes to that type's destructor on some path; failure return = a return of
the constant NULL or 0 in a function that also has a return of something else.  Path-sensitive: paths on which the parameter is known NULL
carry nothing.  Functions that merely pass the object through (return it) are not judged."""
import collections
from core.prog import strip, walk, ap, short, const_int, is_null_const
from core.psts import Env, solve, relevance, apply_generic

TYPES = ('coap_string_t', 'coap_binary_t', 'coap_bin_const_t', 'coap_str_const_t', 'coap_optlist_t', 'coap_cache_key_t', 'coap_pdu_t', 'coap_oscore_conf_t')
DESTRUCTORS = {'coap_delete_string': 0, 'coap_delete_binary': 0, 'coap_delete_bin_const': 0, 'coap_delete_str_const': 0, 'coap_delete_optlist': 0,
               'coap_delete_cache_key': 0, 'coap_delete_pdu': 0, 'coap_delete_pdu_lkd': 0, 'coap_delete_oscore_conf': 0}


def run(run, P):
    run.rule('R-CONSUME-AGREE')
    n = 0
    for f in sorted(P.lib_funcs(), key=lambda f: f['name']):
        for i, p in enumerate(f['params']):
            if not (p.get('p') and not p.get('pc') and p.get('prec') in TYPES):
                continue
            pv = 'v%d' % p['id']
            dels, stores = [], []
            for b, ev in P.events(f):
                t = ev['e']
                if t.get('k') == 'call' and t.get('fn') in DESTRUCTORS and len(t.get('a') or []) > DESTRUCTORS[t['fn']] and ap(t['a'][DESTRUCTORS[t['fn']]]) == pv:
                    dels.append(ev)
                if t.get('k') == 'asg' and t.get('op') == '=' and ap(strip(t['r'])) == pv:
                    l = strip(t['l'])
                    if isinstance(l, dict) and l.get('k') == 'mem':
                        stores.append(ev)
            if not dels or not stores:
                continue
            name = f['name']
            n += 1
            run.instance('R-CONSUME-AGREE', '%s: takes over `%s`' % (name, p['n']))
            res = collections.defaultdict(list)

            def is_rule_event(ev):
                return any(ev is d for d in dels) or any(ev is s for s in stores) or ev['e'].get('k') == 'ret'
            keys, R = relevance(f, is_rule_event, {pv})
            R = set(R) | {pv}

            def on_event(ev, env, ctx):
                t = ev['e']
                if any(ev is d for d in dels):
                    e = apply_generic(ev, env, R).copy()
                    e.ts['rel'] = ev['loc']
                    return [e]
                if any(ev is s for s in stores):
                    e = apply_generic(ev, env, R).copy()
                    e.ts['kept'] = 1
                    return [e]
                if t.get('k') == 'ret' and t.get('e') is not None:
                    if env.nullf(pv) == 'Z' or env.ts.get('kept'):
                        return None
                    if is_null_const(t['e']) or const_int(t['e']) == 0:
                        res['rel' if env.ts.get('rel') else 'left'].append((ev['loc'], env.ts.get('rel'), ctx.path()))
                return None
            solve(f, Env(), on_event, None, keys, R, key_fn=lambda e: (e.ts.get('rel'), e.ts.get('kept'), e.nullf(pv)))
            ok = not (res['rel'] and res['left'])
            run.oblige('R-CONSUME-AGREE', ok, '%s:failure-paths-agree:%s' % (name, p['n']))
            if not ok:
                minority = res['rel'] if len(res['rel']) <= len(res['left']) else res['left']
                loc, relloc, path = minority[0]
                run.violation('R-CONSUME-AGREE', name, relloc or loc, 'failure-paths-disagree-on-ownership:%s' % p['n'],
                              '%s() takes over `%s` on success; of its failure returns %d are reached with `%s` already deleted and %d with it untouched, all returning the same '
                              'value: whichever convention a caller follows, it frees the object twice or leaks it on the other paths' %
                              (name, p['n'], len(res['rel']), p['n'], len(res['left'])), path)
    run.require_count(n >= 1 or run.fixture_mode or run.cfg != 'base', 'R-CONSUME-AGREE: no function that both stores and deletes an owned parameter found')


def run_handback(run, P):
    """R-CONSUME-AGREE (hand-back): some functions take an object, may delete it (a destructor of its type is applied to the parameter on some
    path) and hand an object back (they return the same pointer type): coap_block_build_body(), coap_resize_binary()-style helpers.  A caller
    that passes a FIELD of a longer-lived record (`rec->body`) can no longer trust that field once the call has been made -- the callee may
    have deleted or moved what it points to, also on its failure paths.  So on every path from such a call to the end of the calling function
    the field is assigned again (the result, or NULL), unless the call's result went straight into the same field (`rec->body = f(rec->body,
    ..)`).  A field that keeps the old pointer after a failed call is deleted a second time when the record is torn down."""
    from core.psts import Env, solve, relevance, apply_generic
    run.rule('R-CONSUME-AGREE')
    # callees: (function, param index) where a destructor is applied to the parameter and the function returns the parameter's type
    callee = {}
    for g in P.lib_funcs():
        for i, p in enumerate(g['params']):
            if not (p.get('p') and not p.get('pc') and p.get('prec') in TYPES and g['ret'].get('prec') == p.get('prec')):
                continue
            pv = 'v%d' % p['id']
            for b, ev in P.events(g):
                t = ev['e']
                if t.get('k') == 'call' and t.get('fn') in DESTRUCTORS and len(t.get('a') or []) > DESTRUCTORS[t['fn']] and ap(t['a'][DESTRUCTORS[t['fn']]]) == pv:
                    callee[(g['name'], i)] = p['n']
    n = 0
    for f in sorted(P.lib_funcs(), key=lambda f: f['name']):
        sites = []
        for b, ev in P.events(f):
            t = ev['e']
            srcs = []
            if t.get('k') == 'asg' and t.get('op') == '=':
                srcs.append((ap(t['l']), t['r']))
            for d in t.get('d') or ():
                if d.get('init') is not None:
                    srcs.append(('v%d' % d['id'], d['init']))
            if t.get('k') == 'call' and ev.get('top'):
                srcs.append((None, t))       # result discarded
            for l, r in srcs:
                r0 = strip(r)
                if isinstance(r0, dict) and r0.get('k') == 'call' and r0.get('fn'):
                    for (gn, i), pn in callee.items():
                        if r0['fn'] == gn and i < len(r0.get('a') or []):
                            a = strip(r0['a'][i])
                            if isinstance(a, dict) and a.get('k') == 'mem' and ap(a):
                                sites.append((ev, ap(a), l, gn))
        if not sites:
            continue
        name = f['name']
        fields = set(s[1] for s in sites)

        def is_rule_event(ev):
            t = ev['e']
            return any(ev is s[0] for s in sites) or (t.get('k') == 'asg' and ap(t['l']) in fields)
        keys, R = relevance(f, is_rule_event)
        for sev, fld, l, gn in sites:
            n += 1
            run.instance('R-CONSUME-AGREE', '%s: passes the field %s to %s()' % (name, fld.split('>')[-1], gn))

        def on_event(ev, env, ctx):
            t = ev['e']
            for sev, fld, l, gn in sites:
                if ev is sev:
                    if l == fld:
                        return None          # result straight back into the field
                    e = apply_generic(ev, env, R).copy()
                    e.ts['open'] = tuple(sorted(set(env.ts.get('open', ())) | {(fld, ev['loc'], gn)}))
                    return [e]
            if t.get('k') == 'asg' and ap(t['l']) in fields and env.ts.get('open'):
                e = apply_generic(ev, env, R).copy()
                e.ts['open'] = tuple(x for x in env.ts['open'] if x[0] != ap(t['l']))
                return [e]
            return None

        def on_exit(env, ctx):
            o = env.ts.get('open', ())
            run.oblige('R-CONSUME-AGREE', not o, '%s:field-reassigned-after-hand-back-call' % name)
            for fld, loc, gn in o:
                run.violation('R-CONSUME-AGREE', name, loc, 'field-stale-after-hand-back:%s' % fld.split('>')[-1],
                              'the field %s is handed to %s(), which may delete or move the object, and on a path to the end of this function the field is not assigned again: it '
                              'keeps a pointer the callee may already have freed, and the record\'s destructor frees it once more' % (fld.split('>')[-1], gn), ctx.path())
        solve(f, Env(), on_event, on_exit, keys, R, key_fn=lambda e: tuple(x[0] for x in e.ts.get('open', ())))
    run.require_count(n >= (2 if run.cfg == 'base' else 0) or run.fixture_mode, 'R-CONSUME-AGREE(hand-back): fewer than 2 calls that pass a record field to a may-delete-and-return function found')
