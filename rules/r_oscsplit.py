"""R-OSC-SPLIT (C14).

(a) in coap_oscore_new_pdu_encrypted_lkd the option numbers inserted into the PDU that is returned (outer role) are
    never class-E-only options of RFC 8613 Figure 5, and stay inside class U + Hop-Limit + the E&U duplicates;
(b) on the default arm of the option switch (every option the code does not name) the option is inserted into the PDU
    whose buffer is handed to cose_encrypt0_set_plaintext (inner role), never into the outer one;
(c) in coap_oscore_decrypt_pdu the result of cose_encrypt0_decrypt is tested: every non-NULL return reached after the
    call has the result known > 0.
Roles are found semantically (returned variable / plaintext argument), not by name."""
import collections
from core.prog import strip, walk, ap, key, short, const_int, is_null_const
from core.psts import Env, solve, relevance, apply_generic, INF

ENC = 'coap_oscore_new_pdu_encrypted_lkd'
DEC = 'coap_oscore_decrypt_pdu'
INSERTERS = ('coap_insert_option', 'coap_add_option', 'coap_add_option_internal', 'coap_update_option')
# RFC 8613 Figure 5 (+ RFC 8768 Hop-Limit, RFC 7967 No-Response, RFC 9175 Echo / Request-Tag)
CLASS_E_ONLY = {1: 'If-Match', 4: 'ETag', 5: 'If-None-Match', 8: 'Location-Path', 11: 'Uri-Path', 12: 'Content-Format', 15: 'Uri-Query',
                17: 'Accept', 20: 'Location-Query', 252: 'Echo', 292: 'Request-Tag'}
OUTER_OK = {3: 'Uri-Host', 6: 'Observe', 7: 'Uri-Port', 9: 'OSCORE', 14: 'Max-Age', 16: 'Hop-Limit', 23: 'Block2', 27: 'Block1', 28: 'Size2',
            35: 'Proxy-Uri', 39: 'Proxy-Scheme', 60: 'Size1', 258: 'No-Response'}


def run(run, P):
    run.rule('R-OSC-SPLIT')
    if not P.has(ENC) or not P.has(DEC):
        if run.fixture_mode:
            return
        run.require(False, 'anchor %s()/%s() of R-OSC-SPLIT not found' % (ENC, DEC))
    f = P.func(ENC)
    outer = inner = None
    for b, ev in P.events(f):
        t = ev['e']
        if t.get('k') == 'ret' and 'e' in t and not is_null_const(t['e']) and ap(t['e']):
            outer = ap(t['e'])
        if t.get('k') == 'call' and t.get('fn') == 'cose_encrypt0_set_plaintext' and len(t['a']) > 1:
            for y in walk(t['a'][1]):
                if isinstance(y, dict) and y.get('k') == 'var' and y.get('prec') == 'coap_pdu_t':
                    inner = ap(y)
    run.require(outer and inner and outer != inner, 'R-OSC-SPLIT: outer/inner PDU roles not found in %s()' % ENC)
    # the iterator's running option number
    num_ap = None
    for b in f['blocks']:
        t = b.get('term')
        if t and t.get('c') == 'SwitchStmt' and t.get('cond') is not None:
            c = strip(t['cond'])
            if isinstance(c, dict) and c.get('k') == 'mem' and c['f'] == 'number':
                num_ap = ap(c)
    run.require(num_ap, 'R-OSC-SPLIT: no switch on the option iterator number in %s()' % ENC)
    seen = {'outer': set(), 'inner': set(), 'default_inner': 0, 'default_outer': 0}

    def is_rule_event(ev):
        t = ev['e']
        return t.get('k') == 'call' and t.get('fn') in INSERTERS
    keys, R = relevance(f, is_rule_event, {num_ap})
    R = R | {num_ap}
    cases = set()
    for b in f['blocks']:
        lab = b.get('label')
        if lab and lab.get('k') == 'case':
            cases.add(lab['lo'])

    def on_event(ev, env, ctx):
        t = ev['e']
        if t.get('k') != 'call' or t.get('fn') not in INSERTERS or len(t['a']) < 2:
            return None
        role = 'outer' if ap(t['a'][0]) == outer else 'inner' if ap(t['a'][0]) == inner else None
        if role is None:
            return None
        K = const_int(t['a'][1])
        in_switch = key(t['a'][1]) == num_ap or ap(t['a'][1]) == num_ap
        nums = None
        if K is not None:
            nums = [K]
        elif in_switch:
            lo, hi, ex = env.intf(num_ap)
            if lo == hi:
                nums = [lo]
            else:
                nums = 'default' if all(c in ex for c in cases if lo <= c <= hi) and ex else None
        if nums == 'default':
            seen['default_' + role] += 1
            run.instance('R-OSC-SPLIT', '%s: default arm inserts into the %s PDU' % (ENC, role))
            ok = role == 'inner'
            run.oblige('R-OSC-SPLIT', ok, 'default-goes-inner')
            if not ok:
                run.violation('R-OSC-SPLIT', ENC, ev['loc'], 'default-outer',
                              'options the code does not name are inserted into the outer (unprotected) PDU: class E options travel in clear', ctx.path())
            return None
        if nums is None:
            return None
        for n in nums:
            seen[role].add(n)
            run.instance('R-OSC-SPLIT', '%s: option %d -> %s' % (ENC, n, role))
            if role == 'outer':
                ok = n in OUTER_OK and n not in CLASS_E_ONLY
                run.oblige('R-OSC-SPLIT', ok, 'outer:%d' % n)
                if not ok:
                    run.violation('R-OSC-SPLIT', ENC, ev['loc'], 'class-E-outer:%d' % n,
                                  'option %d (%s) is copied into the outer PDU, which is sent unprotected; RFC 8613 Figure 5 makes it class E (encrypted and '
                                  'integrity protected only)' % (n, CLASS_E_ONLY.get(n, 'not a class U option')), ctx.path())
        return None
    solve(f, Env(), on_event, None, keys, R, key_fn=lambda e: e.intf(num_ap))
    run.require(seen['default_inner'] > 0 or seen['default_outer'] > 0, 'R-OSC-SPLIT: default arm of the option switch not reached in %s()' % ENC)
    run.notes.append('outer options: %s; inner (explicit): %s' % (sorted(seen['outer']), sorted(seen['inner'])))
    # ---- (c)
    g = P.func(DEC)
    dv = set()
    for b, ev in P.events(g):
        t = ev['e']
        if t.get('k') == 'asg' and isinstance(strip(t['r']), dict) and strip(t['r']).get('k') == 'call' and strip(t['r']).get('fn') == 'cose_encrypt0_decrypt':
            dv.add(ap(t['l']))
    run.require(dv, 'R-OSC-SPLIT: result of cose_encrypt0_decrypt is not assigned in %s()' % DEC)

    def is_rule_event2(ev):
        t = ev['e']
        return t.get('k') == 'ret' or any(isinstance(y, dict) and y.get('k') == 'call' and y.get('fn') == 'cose_encrypt0_decrypt' for y in walk(t))
    keys2, R2 = relevance(g, is_rule_event2, dv)
    R2 = R2 | dv
    nret = [0]

    def on_event2(ev, env, ctx):
        t = ev['e']
        if t.get('k') == 'call' and t.get('fn') == 'cose_encrypt0_decrypt':
            e = env.copy()
            e.ts['dec'] = 1
            return [apply_generic(ev, e, R2)]
        if t.get('k') == 'ret' and 'e' in t and not is_null_const(t['e']):
            a = ap(t['e'])
            if a and env.nullf(a) == 'Z':
                return None
            nret[0] += 1
            ok = bool(env.ts.get('dec')) and any(env.intf(v)[0] >= 1 for v in dv)
            run.oblige('R-OSC-SPLIT', ok, 'decrypt-verified-before-accept')
            if not ok:
                run.violation('R-OSC-SPLIT', DEC, ev['loc'], 'accept-without-verified-decrypt',
                              'a PDU is returned to the protocol layer on a path where %s: a tampered message is not rejected'
                              % ('cose_encrypt0_decrypt() was never called' if not env.ts.get('dec') else 'the result of cose_encrypt0_decrypt() is not known to be > 0'), ctx.path())
        return None
    solve(g, Env(), on_event2, None, keys2, R2, key_fn=lambda e: (e.ts.get('dec'), tuple(sorted((v, e.intf(v)[0] >= 1) for v in dv))))
    run.instance('R-OSC-SPLIT', '%s: %d accepting return visit(s)' % (DEC, nret[0]))
    run.require(nret[0] > 0, 'R-OSC-SPLIT: no accepting return in %s()' % DEC)


# ---------------------------------------------------------------------------------------------------------------
FLAG_FUNCS = ('coap_oscore_new_pdu_encrypted_lkd', 'coap_oscore_decrypt_pdu')


def run_flag_reach(run, P):
    """R-OSC-SPLIT (flags): the protect / unprotect functions steer the RFC 8613 steps with local flags (doing_observe,
    doing_resp_observe, ...).  A flag that is declared with a constant, assigned a different value somewhere in the function and
    tested in a branch condition must be able to HAVE that other value at the test: some assignment other than the initialiser
    reaches it (reaching definitions over the CFG).  A test that only the initialiser reaches is vacuous -- the assignment it was
    meant to see comes too late, e.g. the Observe check that makes a notification use a fresh Partial IV instead of the request's
    nonce (same key and nonce for different plaintexts otherwise)."""
    run.rule('R-OSC-SPLIT')
    nf = 0
    for fn in FLAG_FUNCS:
        if not P.has(fn):
            if run.fixture_mode:
                continue
            run.require(False, 'anchor %s() of R-OSC-SPLIT(flags) not found' % fn)
        f = P.func(fn)
        B = f['B']
        # flags: locals declared with a constant initialiser
        init = {}
        for b, ev in P.events(f):
            t = ev['e']
            if t.get('k') == 'decl':
                for d in t['d']:
                    if 'init' in d and const_int(d['init']) is not None and d.get('w') and not d.get('p'):
                        init['v%d' % d['id']] = (const_int(d['init']), d.get('n'), b['id'])
        if not init:
            continue
        # definitions per block (last one wins inside a block; order inside a block handled by position)
        defs = collections.defaultdict(list)      # var -> [(block, index, is_other)]
        for b in f['blocks']:
            for i, ev in enumerate(b['elems']):
                t = ev['e']
                v = None
                if t.get('k') == 'asg' and ap(t['l']) in init:
                    v = ap(t['l'])
                    other = not (t.get('op') == '=' and const_int(t['r']) == init[v][0])
                    defs[v].append((b['id'], i, other))
                elif t.get('k') == 'un' and t.get('op') in ('++', '--') and ap(t.get('e')) in init:
                    defs[ap(t['e'])].append((b['id'], i, True))
        # address taken (&flag passed to a callee): may be set anywhere after -> not judged
        addr = set()
        for b, ev in P.events(f):
            for x in walk(ev['e']):
                if isinstance(x, dict) and x.get('k') == 'un' and x.get('op') == '&' and ap(x.get('e')) in init:
                    addr.add(ap(x['e']))
        flags = [v for v in init if any(o for (_b, _i, o) in defs.get(v, ())) and v not in addr]
        # forward reachability between blocks
        succ = dict((b['id'], [s for s in b['succ'] if s is not None]) for b in f['blocks'])

        def reach_from(bid):
            seen = set()
            work = list(succ.get(bid, ()))
            while work:
                x = work.pop()
                if x in seen:
                    continue
                seen.add(x)
                work.extend(succ.get(x, ()))
            return seen
        rcache = {}
        for v in flags:
            others = [(b0, i0) for (b0, i0, o) in defs[v] if o]
            reads = []
            for b in f['blocks']:
                c = (b.get('term') or {}).get('cond')
                if c is not None and any(isinstance(x, dict) and x.get('k') == 'var' and ap(x) == v for x in walk(c)):
                    reads.append(b)
            for b in reads:
                nf += 1
                ok = False
                for (b0, i0) in others:
                    if b0 == b['id']:
                        ok = True      # same block: the terminator comes after every element
                        break
                    if b0 not in rcache:
                        rcache[b0] = reach_from(b0)
                    if b['id'] in rcache[b0]:
                        ok = True
                        break
                run.instance('R-OSC-SPLIT', '%s: flag %s tested at %s' % (fn, init[v][1], b['term']['loc'].rsplit(':', 1)[-1]))
                run.oblige('R-OSC-SPLIT', ok, '%s:flag-reach:%s' % (fn, init[v][1]))
                if not ok:
                    run.violation('R-OSC-SPLIT', fn, b['term']['loc'], 'flag-tested-before-set:%s' % init[v][1],
                                  'the condition tests the flag `%s`, but no assignment other than its initialiser (%d) can reach this point: the step that sets it comes later in the '
                                  'function, so the test is vacuous and the RFC 8613 step it steers (fresh Partial IV / nonce for an Observe notification, ...) is never taken here'
                                  % (init[v][1], init[v][0]), [])
    run.require_count(nf >= 4 or run.fixture_mode, 'R-OSC-SPLIT(flags): fewer than 4 flag tests found in %s' % (FLAG_FUNCS,))


# ---------------------------------------------------------------------------------------------------------------
CMP_OPS = ('==', '!=', '<', '>', '<=', '>=', '&&', '||')


def run_match_acc(run, P, units=('oscore_context.c', 'coap_oscore.c', 'oscore.c', 'oscore_cose.c')):
    """R-OSC-SPLIT (match accumulators): the security-context look-up collects several comparisons (Recipient ID, ID Context, R2
    prefix) in one local before it decides.  A truth value (the result of a comparison, possibly added to / or-ed with others)
    assigned to a local must be read before another truth value overwrites it; an overwrite on some path means an earlier
    comparison no longer takes part in the decision -- a message is then matched to a context whose Recipient ID differs ("use of a
    different context makes the recipient reject" fails the other way round: the right context is no longer found).  Locals whose
    address is taken are not judged; an accumulating update (`ok = ok + ..`, `ok |= ..`) reads the old value and is fine."""
    run.rule('R-OSC-SPLIT')
    nf = 0
    for f in sorted(P.lib_funcs(), key=lambda f: f['name']):
        if units and f['unit'] not in units:
            continue

        def truthy(r):
            r = strip(r)
            if not isinstance(r, dict):
                return False
            if r.get('k') == 'bin' and r.get('op') in CMP_OPS:
                return True
            if r.get('k') == 'un' and r.get('op') == '!':
                return True
            if r.get('k') == 'bin' and r.get('op') in ('+', '|', '&'):
                return truthy(r['l']) or truthy(r['r'])
            return False
        cands = set()
        for b, ev in P.events(f):
            t = ev['e']
            if t.get('k') == 'asg' and t.get('op') == '=' and ev.get('top') and truthy(t['r']):
                l = ap(t['l'])
                if l and '.' not in l and '>' not in l:
                    cands.add(l)
        if not cands:
            continue
        for b, ev in P.events(f):
            for x in walk(ev['e']):
                if isinstance(x, dict) and x.get('k') == 'un' and x.get('op') == '&' and ap(x.get('e')) in cands:
                    cands.discard(ap(x['e']))
        if not cands:
            continue
        name = f['name']
        nf += len(cands)
        run.instance('R-OSC-SPLIT', '%s: match accumulator(s) %d' % (name, len(cands)))
        found = {}

        def reads(t, l):
            skip = strip(t['l']) if t.get('k') == 'asg' and t.get('op') == '=' else None
            return any(isinstance(x, dict) and x.get('k') == 'var' and ap(x) == l and x is not skip for x in walk(t))

        def on_event(ev, env, ctx):
            t = ev['e']
            if not ev.get('top') and t.get('k') != 'ret':
                return None
            st = dict(env.ts.get('p', ()))
            ch = False
            for l in list(st):
                if reads(t, l):
                    st.pop(l)
                    ch = True
            if t.get('k') == 'asg' and t.get('op') == '=' and ap(t['l']) in cands:
                l = ap(t['l'])
                if l in st and truthy(t['r']):
                    found.setdefault((st[l], ev['loc']), ctx.path())
                if truthy(t['r']):
                    st[l] = ev['loc']
                else:
                    st.pop(l, None)
                ch = True
            if ch:
                e = env.copy()
                e.ts['p'] = tuple(sorted(st.items()))
                return [apply_generic(ev, e, None)]
            return None

        def on_branch(b, s, env, ctx):
            c = (b.get('term') or {}).get('cond')
            if c is None:
                return env
            st = dict(env.ts.get('p', ()))
            ch = False
            for l in list(st):
                if any(isinstance(x, dict) and x.get('k') == 'var' and ap(x) == l for x in walk(c)):
                    st.pop(l)
                    ch = True
            if ch:
                e = env.copy()
                e.ts['p'] = tuple(sorted(st.items()))
                return e
            return env
        solve(f, Env({'p': ()}), on_event, None, None, None, key_fn=lambda e: e.ts.get('p'), on_branch=on_branch, max_envs=256)
        run.oblige('R-OSC-SPLIT', not found, '%s:match-acc' % name)
        for (a, b2), path in sorted(found.items()):
            run.violation('R-OSC-SPLIT', name, b2, 'comparison-result-overwritten',
                          'the truth value assigned at %s is overwritten here before anything read it: that comparison no longer takes part in the decision (a look-up then accepts an '
                          'entry that differs in what was compared there)' % a.rsplit('/', 1)[-1], path)
    run.require_count(nf >= 1 or run.fixture_mode, 'R-OSC-SPLIT(match accumulators): no truth-valued local found in %s' % (units,))


def run_outer_discard(run, P):
    """R-OSC-SPLIT (unprotect discards outer class E options): RFC 8613 8.2 / 8.4 step 1 -- "discard any outer options that are class E".
    The outer options of a protected message are neither encrypted nor covered by the AAD; whatever of them is copied into the decrypted
    message reaches the application with the authority of the inner, protected options.  In coap_oscore_decrypt_pdu(), at every call that
    inserts an option with the outer iterator's running number into another PDU, no class-E-only option number of RFC 8613 Figure 5 is
    possible: the switch in front of it has taken every one of them out (case label that does not reach the insertion)."""
    run.rule('R-OSC-SPLIT')
    if not P.has(DEC):
        run.require(run.fixture_mode or run.cfg != 'base', 'R-OSC-SPLIT(outer discard): anchor %s() not found' % DEC)
        return
    g = P.func(DEC)
    num_aps = set()
    for b in g['blocks']:
        t = b.get('term')
        if t and t.get('c') == 'SwitchStmt' and t.get('cond') is not None:
            c = strip(t['cond'])
            if isinstance(c, dict) and c.get('k') == 'mem' and c['f'] == 'number' and ap(c):
                num_aps.add(ap(c))
    run.require(bool(num_aps) or run.fixture_mode, 'R-OSC-SPLIT(outer discard): no switch on an option iterator number in %s()' % DEC)
    n = [0]

    rcvd = set('v%d' % p['id'] for p in g['params'] if p.get('p') and p.get('prec') == 'coap_pdu_t')

    def is_rule_event(ev):
        t = ev['e']
        return t.get('k') == 'call' and (t.get('fn') in INSERTERS or t.get('fn') == 'coap_option_iterator_init')
    keys, R = relevance(g, is_rule_event, num_aps)
    R = set(R) | num_aps

    def on_event(ev, env, ctx):
        t = ev['e']
        if t.get('k') == 'call' and t.get('fn') == 'coap_option_iterator_init' and t.get('a'):
            # which message the iterator walks: the received (outer) one, or the decrypted plaintext (whose options ARE protected)
            e = apply_generic(ev, env, R).copy()
            e.ts['walks'] = 'outer' if ap(t['a'][0]) in rcvd else 'other'
            return [e]
        if t.get('k') != 'call' or t.get('fn') not in INSERTERS or len(t['a']) < 2:
            return None
        na = ap(t['a'][1]) if ap(t['a'][1]) in num_aps else (key(t['a'][1]) if key(t['a'][1]) in num_aps else None)
        if na is None or env.ts.get('walks') != 'outer':
            return None
        lo, hi, ex = env.intf(na)
        possible = sorted(k for k in CLASS_E_ONLY if lo <= k <= hi and k not in ex)
        n[0] += 1
        run.instance('R-OSC-SPLIT', '%s: outer option copied with the iterator number (excluded: %d numbers)' % (DEC, len(ex)))
        run.oblige('R-OSC-SPLIT', not possible, 'outer-class-E-discarded')
        if possible:
            run.violation('R-OSC-SPLIT', DEC, ev['loc'], 'outer-class-E-copied:%s' % ','.join(str(k) for k in possible),
                          'an outer option is copied into the decrypted message with a number that can be %s: outer options are not authenticated, RFC 8613 8.2/8.4 step 1 '
                          'requires outer class E options to be discarded -- an attacker on the path adds such an option and the application sees it as protected' %
                          ', '.join('%d (%s)' % (k, CLASS_E_ONLY[k]) for k in possible), ctx.path())
        return None
    solve(g, Env(), on_event, None, keys, R, key_fn=lambda e: (e.ts.get('walks'), tuple(e.intf(a) for a in sorted(num_aps))))
    run.require_count(n[0] >= 1 or run.fixture_mode, 'R-OSC-SPLIT(outer discard): no copy of an outer option by iterator number found in %s()' % DEC)
