"""R-REPLY-ONCE (C10): in coap_dispatch and handle_request no path emits two direct replies for one request
datagram.  Emissions: coap_send_internal / coap_send_lkd of a PDU created in the function, coap_send_rst_lkd,
coap_send_ack_lkd, coap_send_message_type_lkd, coap_send_error_lkd, and (in coap_dispatch) handle_request /
handle_response hand-overs count as the reply path of that message.  An Empty ACK (coap_send_ack_lkd) followed by the
response proper is the separate-response pattern and is allowed once."""
from core.prog import strip, walk, ap, key, short, const_int
from core.psts import Env, solve, relevance, apply_generic

EMIT = {'coap_send_rst_lkd': 'rst', 'coap_send_message_type_lkd': 'empty', 'coap_send_error_lkd': 'reply',
        'coap_send_internal': 'reply', 'coap_send_lkd': 'reply', 'coap_send_ack_lkd': 'ack'}
HANDOVER = {'handle_request': 'reply', 'handle_response': 'none', 'handle_signaling': 'none'}
FUNCS = ('coap_dispatch', 'handle_request')


def run(run, P):
    run.rule('R-REPLY-ONCE')
    for fname in FUNCS:
        if not P.has(fname):
            if run.fixture_mode:
                continue
            run.require(False, 'anchor function %s() of R-REPLY-ONCE not found' % fname)
        f = P.func(fname)
        n = [0]

        def kind(t):
            fn = t.get('fn')
            if fn in EMIT:
                return EMIT[fn]
            if fname == 'coap_dispatch' and fn in HANDOVER:
                return HANDOVER[fn]
            return None

        def is_rule_event(ev):
            t = ev['e']
            return t.get('k') == 'call' and kind(t) not in (None, 'none')
        keys, R = relevance(f, is_rule_event)

        def on_event(ev, env, ctx):
            t = ev['e']
            if t.get('k') != 'call':
                return None
            kd = kind(t)
            if kd in (None, 'none'):
                return None
            n[0] += 1
            run.instance('R-REPLY-ONCE', '%s: emission %s()' % (fname, t.get('fn')))
            prev = env.ts.get('emitted', ())
            # allowed: nothing before; or a single Empty ACK before the reply proper
            ok = not prev or (prev == ('ack',) and kd == 'reply')
            run.oblige('R-REPLY-ONCE', ok, '%s:%s-after-%s' % (fname, kd, '+'.join(prev) or 'nothing'))
            if not ok:
                run.violation('R-REPLY-ONCE', fname, ev['loc'], 'second-reply:%s-after-%s' % (t.get('fn'), '+'.join(prev)),
                              '%s() is reached on a path that already emitted %s for the same datagram: the peer gets two direct replies' % (t.get('fn'), ' and '.join(prev)), ctx.path())
            e = env.copy()
            e.ts['emitted'] = tuple(list(prev) + [kd])[:3]
            return [apply_generic(ev, e, R)]
        ctx = solve(f, Env(), on_event, None, keys, R, key_fn=lambda e: e.ts.get('emitted', ()))
        run.stats['reply_solver_steps'] += ctx.steps
        run.require(n[0] > 0 or run.fixture_mode, 'R-REPLY-ONCE: no emission found in %s()' % fname)


# ---------------------------------------------------------------------------------------------------------------
def run_ack_con(run, P):
    """R-REPLY-ONCE (ACK only for Confirmables): "Non-confirmable requests are never answered with ACK".  Every place that makes an
    ACK-typed message -- COAP_MESSAGE_ACK as the type argument of coap_pdu_init() or coap_send_message_type_lkd(), directly or as
    an arm of a conditional expression -- does so under a test of the type of the message it answers: on the path (or in the
    condition of the conditional expression) some PDU's type is known == CON, == ACK (the piggybacked response being split), or
    != NON.  The helper coap_send_ack_lkd() contains that test itself; calling the generic helper with a constant ACK does not."""
    from core.prog import strip, walk, ap, short, const_int
    from core.psts import Env, solve, relevance, apply_generic
    run.rule('R-REPLY-ONCE')
    ACK = P.const_named('COAP_MESSAGE_ACK')
    CON = P.const_named('COAP_MESSAGE_CON')
    NON = P.const_named('COAP_MESSAGE_NON')
    MAKERS = {'coap_pdu_init': 0, 'coap_send_message_type_lkd': 2, 'coap_send_message_type': 2}
    n = 0
    for f in sorted(P.lib_funcs(), key=lambda f: f['name']):
        sites = []
        for b, ev in P.events(f):
            t = ev['e']
            if t.get('k') == 'call' and t.get('fn') in MAKERS and len(t.get('a', [])) > MAKERS[t['fn']]:
                a = strip(t['a'][MAKERS[t['fn']]])
                if const_int(a) == ACK:
                    sites.append((ev, 'const'))
                elif isinstance(a, dict) and a.get('k') == 'cond':
                    arms = (const_int(a.get('x')), const_int(a.get('y')))
                    if ACK in arms:
                        sites.append((ev, a))
        if not sites:
            continue
        name = f['name']

        def type_fact(c, truth):
            """does cond c with this truth value say CON / ACK / not-NON about some PDU type?"""
            c = strip(c)
            while isinstance(c, dict) and c.get('k') == 'un' and c.get('op') == '!':
                c = strip(c['e'])
                truth = not truth
            if isinstance(c, dict) and c.get('k') == 'bin' and c.get('op') in ('==', '!='):
                l = strip(c['l'])
                K = const_int(c['r'])
                if isinstance(l, dict) and l.get('k') == 'mem' and l.get('f') == 'type' and K in (CON, ACK, NON):
                    eq = truth if c['op'] == '==' else not truth
                    if (K in (CON, ACK) and eq) or (K == NON and not eq):
                        return True
            return False

        def is_rule_event(ev):
            return any(ev is s[0] for s in sites)
        keys, R = relevance(f, is_rule_event)
        for b in f['blocks']:
            c = (b.get('term') or {}).get('cond')
            if c is not None and any(isinstance(x, dict) and x.get('k') == 'mem' and x.get('f') == 'type' for x in walk(c)):
                keys = set(keys) | {b['id']}

        def on_event(ev, env, ctx):
            for sev, kind in sites:
                if ev is sev:
                    if kind == 'const':
                        ok = bool(env.ts.get('tf'))
                    else:
                        ackarm_true = const_int(kind.get('x')) == ACK
                        ok = type_fact(kind.get('c'), ackarm_true) or bool(env.ts.get('tf'))
                    run.oblige('R-REPLY-ONCE', ok, '%s:ack-under-type-test' % name)
                    if not ok:
                        run.violation('R-REPLY-ONCE', name, ev['loc'], 'ack-without-type-test:%s' % ev['e'].get('fn'),
                                      'an ACK is made (%s) on a path that never tested the type of the message it answers: a Non-confirmable request is answered with an ACK' %
                                      short(ev['e'])[:70], ctx.path())
            return None

        def on_branch(b, s, env, ctx):
            c = (b.get('term') or {}).get('cond')
            if c is None or len(b['succ']) != 2:
                return env
            if type_fact(c, s == b['succ'][0]):
                e = env.copy()
                e.ts['tf'] = 1
                return e
            return env
        for sev, kind in sites:
            n += 1
            run.instance('R-REPLY-ONCE', '%s: makes an ACK (%s)' % (name, sev['e'].get('fn')))
        solve(f, Env({}), on_event, None, keys, R, key_fn=lambda e: e.ts.get('tf'), on_branch=on_branch)
    run.require_count(n >= (3 if run.cfg == 'base' else 1) or run.fixture_mode, 'R-REPLY-ONCE(ack): fewer than 3 (base) / 1 (reduced configurations) places that make an ACK found')


def run_resolve_order(run, P, fname='handle_request'):
    """R-REPLY-ONCE (resource resolution order): `.well-known/core` exists on every server and only has GET.  The unknown-resource handler
    -- application code that typically CREATES a resource for the path it is asked about -- is chosen for a request only on paths that
    already compared the path with the well-known URI (and found it different), or that tested the resource flag by which an application
    asks to handle `.well-known/core` itself.  Chosen earlier, a PUT to `.well-known/core` runs the application's create-handler and is
    answered 2.01 instead of 4.05."""
    run.rule('R-REPLY-ONCE')
    if not P.has(fname):
        run.require(run.fixture_mode or run.cfg != 'base', 'R-REPLY-ONCE(resolution order): anchor %s() not found' % fname)
        return
    f = P.func(fname)
    sites = []
    for b, ev in P.events(f):
        t = ev['e']
        if t.get('k') == 'asg' and t.get('op') == '=':
            r = strip(t['r'])
            if isinstance(r, dict) and r.get('k') == 'mem' and r.get('f') == 'unknown_resource' and ap(t['l']):
                sites.append(ev)
    if not sites:
        run.require(run.fixture_mode or run.cfg != 'base', 'R-REPLY-ONCE(resolution order): %s() no longer selects context->unknown_resource' % fname)
        return

    def mentions_wk(c):
        for x in walk(c):
            if isinstance(x, dict) and x.get('k') == 'var' and x.get('g') and 'wellknown' in (x.get('n') or ''):
                return 'compare'
            if isinstance(x, dict) and x.get('k') == 'int' and x.get('mn') == 'COAP_RESOURCE_HANDLE_WELLKNOWN_CORE':
                return 'flag'
        return None

    def is_rule_event(ev):
        return any(ev is s for s in sites)
    keys, R = relevance(f, is_rule_event)
    keys = set(keys)
    for b in f['blocks']:
        c = (b.get('term') or {}).get('cond')
        if c is not None and mentions_wk(c):
            keys.add(b['id'])

    def on_branch(b, s, env, ctx):
        c = (b.get('term') or {}).get('cond')
        if c is None:
            return env
        m = mentions_wk(c)
        if m == 'compare' or (m == 'flag' and s == b['succ'][0]):
            if env.ts.get('wk'):
                return env
            e = env.copy()
            e.ts['wk'] = m
            return e
        return env

    def on_event(ev, env, ctx):
        if any(ev is s for s in sites):
            ok = bool(env.ts.get('wk'))
            run.instance('R-REPLY-ONCE', '%s: selects the unknown-resource handler' % fname)
            run.oblige('R-REPLY-ONCE', ok, '%s:wellknown-before-unknown' % fname)
            if not ok:
                run.violation('R-REPLY-ONCE', fname, ev['loc'], 'unknown-handler-before-wellknown',
                              'the unknown-resource handler is selected on a path that has neither compared the request path with the well-known URI nor found the '
                              'HANDLE_WELLKNOWN_CORE flag set: a non-GET request to .well-known/core runs the application\'s create-handler instead of being answered 4.05', ctx.path())
        return None
    solve(f, Env(), on_event, None, keys, R, key_fn=lambda e: e.ts.get('wk'), on_branch=on_branch)


def run_helper_verdict(run, P, callers=FUNCS):
    """R-REPLY-ONCE (helpers that reply): coap_dispatch() / handle_request() ask small helpers "may I go on with this message?"
    (`if (!helper(session, pdu)) goto cleanup`).  A helper that has itself sent a direct reply for the message (coap_send_rst_lkd,
    coap_send_ack_lkd, coap_send_error_lkd, coap_send_internal of a PDU it made) must answer NO: every path of such a helper that passed an
    emission returns 0.  Answering yes after having replied lets the request run on to its handler and be replied to a second time.
    Helpers are computed: static int functions called in a condition by one of the callers, containing an emission."""
    run.rule('R-REPLY-ONCE')
    helpers = set()
    for cn in callers:
        if not P.has(cn):
            continue
        f = P.func(cn)
        for b in f['blocks']:
            c = (b.get('term') or {}).get('cond')
            if c is None:
                continue
            for x in walk(c):
                if isinstance(x, dict) and x.get('k') == 'call' and x.get('fn') and P.has(x['fn']):
                    g = P.func(x['fn'])
                    if g.get('static') and not g['ret'].get('p') and any(ev['e'].get('k') == 'call' and ev['e'].get('fn') in EMIT for bb, ev in P.events(g)):
                        helpers.add(x['fn'])
    n = 0
    for hn in sorted(helpers):
        g = P.func(hn)
        n += 1
        run.instance('R-REPLY-ONCE', '%s: answers 0 after having replied' % hn)

        def is_rule_event(ev):
            t = ev['e']
            return (t.get('k') == 'call' and t.get('fn') in EMIT) or t.get('k') == 'ret'
        keys, R = relevance(g, is_rule_event)

        def on_event(ev, env, ctx, hn=hn):
            t = ev['e']
            if t.get('k') == 'call' and t.get('fn') in EMIT and ev.get('top', True) is not False and not env.ts.get('emit'):
                e = apply_generic(ev, env, R).copy()
                e.ts['emit'] = ev['loc']
                return [e]
            if t.get('k') == 'ret' and t.get('e') is not None and env.ts.get('emit'):
                K = const_int(t['e'])
                ok = K == 0
                run.oblige('R-REPLY-ONCE', ok, '%s:no-after-reply' % hn)
                if not ok:
                    run.violation('R-REPLY-ONCE', hn, ev['loc'], 'helper-says-go-on-after-replying',
                                  '%s() returns %s on a path on which it already sent a reply for this message (%s): the caller goes on, the request reaches its handler and '
                                  'is answered a second time' % (hn, 'non-zero' if K is None else K, env.ts['emit'].rsplit('/', 1)[-1]), ctx.path())
            return None
        solve(g, Env(), on_event, None, keys, R, key_fn=lambda e: bool(e.ts.get('emit')))
    run.require_count(n >= 1 or run.fixture_mode or run.cfg != 'base', 'R-REPLY-ONCE(helpers that reply): no replying helper called in a condition by %s found' % (callers,))


def run_handler_bound(run, P, field='handler'):
    """R-REPLY-ONCE (every method has its slot): the request handlers of a resource live in an array indexed by method code - 1.  Every
    read `R->handler[code - 1]` sits behind a guard; the guard is not only safe (R-RANGE) but admits EVERY slot: on the path to the read the
    interval of the code is exactly [1, length of the array].  `code > 0 && code < N` is safe too -- and answers 4.05 to the method with
    the highest code (iPATCH) although the resource registered a handler for it."""
    from core.psts import Env, solve, relevance, apply_generic, INF as INF_
    run.rule('R-REPLY-ONCE')
    n = 0
    for f in sorted(P.lib_funcs(), key=lambda f: f['name']):
        sites = []
        for b, ev in P.events(f):
            for x in walk(ev['e']):
                if isinstance(x, dict) and x.get('k') in ('idx', 'sub'):
                    base = strip(x.get('b'))
                    i = strip(x.get('i'))
                    if isinstance(base, dict) and base.get('k') == 'mem' and base.get('f') == field and base.get('alen') and \
                       isinstance(i, dict) and i.get('k') == 'bin' and i.get('op') == '-' and const_int(i['r']) == 1:
                        v = strip(i['l'])
                        while isinstance(v, dict) and v.get('k') == 'cast':
                            v = strip(v['e'])
                        if isinstance(v, dict) and ap(v):
                            sites.append((ev, ap(v), base['alen'], short(x)))
        if not sites:
            continue
        name = f['name']
        codes = set(s_[1] for s_ in sites)
        evs = set(id(s_[0]) for s_ in sites)
        keys, R = relevance(f, lambda ev: id(ev) in evs, codes)
        R = set(R) | codes
        rep = set()
        best = {}

        def on_event(ev, env, ctx):
            if id(ev) not in evs:
                return None
            for sev, c, alen, txt in sites:
                if sev is ev:
                    lo, hi, ex = env.intf(c)
                    k = (ev['loc'], txt)
                    cur = best.get(k)
                    best[k] = (min(lo, cur[0]) if cur else lo, max(hi, cur[1]) if cur else hi, alen, name)
            return None
        solve(f, Env(), on_event, None, keys, R, key_fn=lambda e: tuple(e.intf(c)[:2] for c in sorted(codes)))
        for (loc, txt), (lo, hi, alen, nm) in sorted(best.items()):
            if lo in (-INF_, INF_) or hi in (-INF_, INF_) or hi > 10 * alen:
                run.notes.append('R-REPLY-ONCE(handler bound): %s: %s is not guarded in this function (declined)' % (nm, txt))
                continue
            n += 1
            ok = lo == 1 and hi == alen
            run.instance('R-REPLY-ONCE', '%s: %s is read for every code in [%s, %s] (array of %d)' % (nm, txt, lo, hi, alen))
            run.oblige('R-REPLY-ONCE', ok, '%s:every-method-slot-reachable' % nm)
            if not ok:
                run.violation('R-REPLY-ONCE', nm, loc, 'handler-slot-unreachable',
                              '`%s` is read only for codes in [%s, %s] although the table has %d slots (codes 1..%d): a request with a method outside that range is answered 4.05 '
                              'even when the resource registered a handler for it' % (txt, lo, hi, alen, alen), [])
    run.require_count(n >= 2 or run.fixture_mode or run.cfg != 'base', 'R-REPLY-ONCE(handler bound): fewer than 2 reads of the handler table by code - 1 found')
