"""R-REPLY-ONCE (C10): in coap_dispatch and handle_request no path emits two direct replies for one request
datagram.  Emissions: coap_send_internal / coap_send_lkd of a PDU created in the function, coap_send_rst_lkd,
coap_send_ack_lkd, coap_send_message_type_lkd, coap_send_error_lkd, and (in coap_dispatch) handle_request /
handle_response hand-overs count as the reply path of that message.  An Empty ACK (coap_send_ack_lkd) followed by the
response proper is the separate-response pattern and is allowed once."""
from core.prog import strip, walk, ap, key, short, const_int
from core.psts import Env, solve, relevance, apply_generic

EMIT = {'coap_send_rst_lkd': 'rst', 'coap_send_message_type_lkd': 'empty', 'coap_send_error_lkd': 'reply',
        'coap_send_internal': 'reply', 'coap_send_lkd': 'reply', 'coap_send_ack_lkd': 'ack'}
HANDOVER = {'handle_request': 'reply', 'handle_response': 'none', 'handle_signaling': 'none'}
FUNCS = ('coap_dispatch', 'handle_request')


def run(run, P):
    run.rule('R-REPLY-ONCE')
    for fname in FUNCS:
        if not P.has(fname):
            if run.fixture_mode:
                continue
            run.require(False, 'anchor function %s() of R-REPLY-ONCE not found' % fname)
        f = P.func(fname)
        n = [0]

        def kind(t):
            fn = t.get('fn')
            if fn in EMIT:
                return EMIT[fn]
            if fname == 'coap_dispatch' and fn in HANDOVER:
                return HANDOVER[fn]
            return None

        def is_rule_event(ev):
            t = ev['e']
            return t.get('k') == 'call' and kind(t) not in (None, 'none')
        keys, R = relevance(f, is_rule_event)

        def on_event(ev, env, ctx):
            t = ev['e']
            if t.get('k') != 'call':
                return None
            kd = kind(t)
            if kd in (None, 'none'):
                return None
            n[0] += 1
            run.instance('R-REPLY-ONCE', '%s: emission %s()' % (fname, t.get('fn')))
            prev = env.ts.get('emitted', ())
            # allowed: nothing before; or a single Empty ACK before the reply proper
            ok = not prev or (prev == ('ack',) and kd == 'reply')
            run.oblige('R-REPLY-ONCE', ok, '%s:%s-after-%s' % (fname, kd, '+'.join(prev) or 'nothing'))
            if not ok:
                run.violation('R-REPLY-ONCE', fname, ev['loc'], 'second-reply:%s-after-%s' % (t.get('fn'), '+'.join(prev)),
                              '%s() is reached on a path that already emitted %s for the same datagram: the peer gets two direct replies' % (t.get('fn'), ' and '.join(prev)), ctx.path())
            e = env.copy()
            e.ts['emitted'] = tuple(list(prev) + [kd])[:3]
            return [apply_generic(ev, e, R)]
        ctx = solve(f, Env(), on_event, None, keys, R, key_fn=lambda e: e.ts.get('emitted', ()))
        run.stats['reply_solver_steps'] += ctx.steps
        run.require(n[0] > 0 or run.fixture_mode, 'R-REPLY-ONCE: no emission found in %s()' % fname)
