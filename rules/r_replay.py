"""R-REPLAY-OWN / R-REPLAY-RB / R-REPLAY-MUST (C15).

R-REPLAY-OWN   the anti-replay fields of oscore_recipient_ctx_t (last_seq, sliding_window, initial_state,
               rollback_*) are written only by the window functions and the constructor (frozen list).
R-REPLAY-RB    (i) every non-rollback field that oscore_validate_sender_seq writes is snapshotted there
               (rollback_X = X precedes the write on every path); (ii) every snapshotted field is assigned back on
               EVERY path of oscore_roll_back_seq; (iii) in coap_oscore_decrypt_pdu every return taken after a
               successful validation and before a successful AEAD verification passes oscore_roll_back_seq.
R-REPLAY-MUST  in coap_oscore_decrypt_pdu every path on which a request reaches the non-NULL return passed a call
               of oscore_validate_sender_seq whose result is known non-zero.
"""
import collections
from core.prog import strip, walk, ap, key, short, const_int, is_null_const
from core.psts import Env, solve, relevance, apply_generic, INF

REC = 'oscore_recipient_ctx_t'
FIELDS = ('last_seq', 'sliding_window', 'initial_state', 'rollback_last_seq', 'rollback_sliding_window')
OWNERS = {'oscore_validate_sender_seq': 'window update', 'oscore_roll_back_seq': 'window roll-back',
          'oscore_add_recipient': 'constructor'}
VALIDATE, ROLLBACK, DECRYPT = 'oscore_validate_sender_seq', 'oscore_roll_back_seq', 'cose_encrypt0_decrypt'
ENTRY = 'coap_oscore_decrypt_pdu'


def _field_write(t):
    """field name if the event writes one of the anti-replay fields"""
    l = None
    if t.get('k') == 'asg':
        l = strip(t['l'])
    elif t.get('k') == 'un' and t.get('op') in ('++', '--'):
        l = strip(t['e'])
    if isinstance(l, dict) and l.get('k') == 'mem' and l.get('rec') == REC and (l['f'] in FIELDS or l['f'].startswith('rollback_')):
        return l['f'], l
    return None, None


def flag_domain(P, fld='initial_state'):
    """set of constants ever stored into the field (None if some store is not a constant)"""
    dom = {0}      # objects are zero-initialised by memset
    for f in P.funcs.values():
        for b, ev in P.events(f):
            t = ev['e']
            fl, l = _field_write(t)
            if fl == fld:
                K = const_int(t['r']) if t.get('k') == 'asg' and t.get('op') == '=' else None
                if K is None:
                    return None
                dom.add(K)
    return dom


def writers_closure(P, fld='initial_state'):
    """functions that may (transitively) write the field"""
    w = set()
    for f in P.funcs.values():
        for b, ev in P.events(f):
            if _field_write(ev['e'])[0] == fld:
                w.add(f['name'])
    cg = P.callgraph()
    # stated assumption: the re-entrant I/O loop a client may run while it waits for a session to come up
    # (coap_client_delay_first -> coap_io_process_lkd) does not process a message for the recipient context in hand
    CUT = {'coap_client_delay_first', 'coap_io_process_lkd', 'coap_io_process_with_fds_lkd'}
    changed = True
    while changed:
        changed = False
        for n in P.funcs:
            if n not in w and n not in CUT and (cg.get(n, set()) & w):
                w.add(n)
                changed = True
    return w


def keep_flag_facts(P, W, ev, env, e2, fld='initial_state'):
    """a call that cannot reach a writer of the flag leaves facts about it intact (who-may-write is R-REPLAY-OWN's result)"""
    t = ev['e']
    if t.get('k') != 'call' or e2 is env:
        return e2
    targets = P.resolve_call(t)
    if any(c in W for c in targets) or (not t.get('fn') and not targets):
        return e2
    out = None
    for a, v in env.ints.items():
        if (a.endswith('->' + fld) or a.endswith('.' + fld)) and a not in e2.ints:
            out = out or e2.copy()
            out.ints[a] = v
    return out or e2


def pin_domain(dom, fld='initial_state'):
    """on_branch hook: a flag with a finite value domain is pinned once all other values are excluded"""
    def hook(b, s, e, ctx):
        if not dom:
            return e
        e2 = None
        for a, (lo, hi, ex) in list(e.ints.items()):
            if a.endswith('->' + fld) or a.endswith('.' + fld):
                left = [v for v in dom if lo <= v <= hi and v not in ex]
                if not left:
                    return None
                if len(left) == 1 and (lo, hi) != (left[0], left[0]):
                    e2 = e2 or e.copy()
                    e2.ints[a] = (left[0], left[0], frozenset())
        return e2 or e
    return hook


def run_own(run, P):
    run.rule('R-REPLAY-OWN')
    n = 0
    for f in sorted(P.lib_funcs(), key=lambda f: f['name']):
        ordinal = collections.Counter()
        evs = sorted(((ev['loc'], ev.get('col', 0), ev) for b, ev in P.events(f) if _field_write(ev['e'])[0]), key=lambda x: (int(x[0].rsplit(':', 1)[1]), x[1]))
        for _loc, _col, ev in evs:
            fld, l = _field_write(ev['e'])
            if not fld:
                continue
            n += 1
            ordinal[fld] += 1
            run.instance('R-REPLAY-OWN', '%s writes %s' % (f['name'], fld))
            ok = f['name'] in OWNERS
            run.oblige('R-REPLAY-OWN', ok, '%s:%s' % (f['name'], fld))
            if not ok:
                run.violation('R-REPLAY-OWN', f['name'], ev['loc'], 'foreign-write:%s#%d' % (fld, ordinal[fld]),
                              '%s is written outside the replay-window functions (%s): the window and the highest sequence number no longer agree, '
                              'so an already accepted partial IV can be accepted again' % (short(l), ', '.join(sorted(OWNERS))))
    run.require_count(n >= 5 or run.fixture_mode, 'R-REPLAY-OWN: only %d writers of the anti-replay fields found' % n)


def run_rb(run, P):
    run.rule('R-REPLAY-RB')
    # (i) snapshots in the validator
    if not (P.has(VALIDATE) and P.has(ROLLBACK)):
        if run.fixture_mode:
            return
        run.require(False, 'anchor %s()/%s() not found' % (VALIDATE, ROLLBACK))
    f = P.func(VALIDATE)
    written = collections.OrderedDict()

    def is_rule_event(ev):
        return _field_write(ev['e'])[0] is not None
    keys, R = relevance(f, is_rule_event)

    def on_event(ev, env, ctx):
        fld, l = _field_write(ev['e'])
        if not fld:
            return None
        t = ev['e']
        e = apply_generic(ev, env, R)
        if e is env:
            e = env.copy()
        snaps = set(env.ts.get('snap', ()))
        if fld.startswith('rollback_'):
            src = strip(t['r']) if t.get('k') == 'asg' else None
            if isinstance(src, dict) and src.get('k') == 'mem' and src['f'] == fld[len('rollback_'):]:
                snaps.add(src['f'])
                e.ts['snap'] = tuple(sorted(snaps))
            return [e]
        written.setdefault(fld, ev['loc'])
        ok = fld in snaps
        run.instance('R-REPLAY-RB', '%s writes %s (snapshot taken before: %s)' % (VALIDATE, fld, ok))
        run.oblige('R-REPLAY-RB', ok, 'snapshot:%s' % fld)
        if not ok:
            run.violation('R-REPLAY-RB', VALIDATE, ev['loc'], 'no-snapshot:%s' % fld,
                          '%s is modified by the validation but was not saved into a rollback_%s field before: a message that later fails '
                          'authentication leaves this change behind' % (short(l), fld), ctx.path())
        return [e]
    solve(f, Env(), on_event, None, keys, R, key_fn=lambda e: e.ts.get('snap', ()))
    # (ii) unconditional restores
    g = P.func(ROLLBACK)
    to_restore = [x for x in ('last_seq', 'sliding_window', 'initial_state') if x in written]

    def is_rule_event2(ev):
        return _field_write(ev['e'])[0] is not None or ev['e'].get('k') == 'ret'
    keys2, R2 = relevance(g, is_rule_event2)

    def on_event2(ev, env, ctx):
        fld, l = _field_write(ev['e'])
        if fld and not fld.startswith('rollback_'):
            e = env.copy()
            e.ts['restored'] = tuple(sorted(set(env.ts.get('restored', ())) | {fld}))
            return [apply_generic(ev, e, R2)]
        return None

    def on_exit2(env, ctx):
        for x in to_restore:
            ok = x in env.ts.get('restored', ())
            run.oblige('R-REPLAY-RB', ok, 'restore:%s' % x)
            if not ok:
                run.violation('R-REPLAY-RB', ROLLBACK, g['loc'], 'conditional-restore:%s' % x,
                              'a path through %s() does not assign %s back: after a forged message the replay state keeps the forged value '
                              '(the restore is conditional on the saved value, or missing)' % (ROLLBACK, x), ctx.path())
    solve(g, Env(), on_event2, on_exit2, keys2, R2, key_fn=lambda e: e.ts.get('restored', ()))
    for x in to_restore:
        run.instance('R-REPLAY-RB', '%s must restore %s on every path' % (ROLLBACK, x))
    # (iii) roll back on every failure exit between validation and successful decryption
    if not P.has(ENTRY):
        if run.fixture_mode:
            return
        run.require(False, 'anchor %s() not found' % ENTRY)
    h = P.func(ENTRY)

    def is_rule_event3(ev):
        t = ev['e']
        if t.get('k') == 'ret':
            return True
        return any(isinstance(y, dict) and y.get('k') == 'call' and y.get('fn') in (VALIDATE, ROLLBACK, DECRYPT) for y in walk(t))
    keys3, R3 = relevance(h, is_rule_event3)

    vsites = sorted(set((int(ev['loc'].rsplit(':', 1)[1]), ev.get('col', 0)) for b, ev in P.events(h)
                        if ev['e'].get('k') == 'call' and ev['e'].get('fn') == VALIDATE))

    def on_event3(ev, env, ctx):
        t = ev['e']
        if t.get('k') == 'call' and t.get('fn') == VALIDATE:
            e = env.copy()
            e.ts['vkey'] = key(t)
            e.ts['vloc'] = ev['loc']
            e.ts['vord'] = vsites.index((int(ev['loc'].rsplit(':', 1)[1]), ev.get('col', 0))) + 1
            return [apply_generic(ev, e, R3)]
        if t.get('k') == 'call' and t.get('fn') == ROLLBACK and env.ts.get('vkey'):
            e = env.copy()
            del e.ts['vkey']
            return [apply_generic(ev, e, R3)]
        if t.get('k') == 'asg' and isinstance(strip(t['r']), dict) and strip(t['r']).get('k') == 'call' and strip(t['r']).get('fn') == DECRYPT:
            e = apply_generic(ev, env, R3).copy()
            e.ts['dvar'] = ap(t['l'])
            return [e]
        if t.get('k') == 'ret' and env.ts.get('vkey'):
            rc = env.ret.get(env.ts['vkey'])
            validated = rc is not None and (rc[0] == 'nz' or (rc[0] == 'ne' and rc[1] == 0) or (rc[0] == 'eq' and rc[1] != 0))
            if not validated:
                return None
            dv = env.ts.get('dvar')
            decrypted_ok = False
            if dv:
                iv = env.intf(dv)
                decrypted_ok = iv[0] > 0
            if decrypted_ok:
                return None
            run.oblige('R-REPLAY-RB', False, 'rollback-on-failure')
            run.violation('R-REPLAY-RB', ENTRY, ev['loc'], 'exit-without-rollback:validate#%s:%s-decrypt' % (env.ts.get('vord'), 'after' if dv else 'before'),
                          'a return is reached after %s() accepted the partial IV (%s) but before the message was authenticated, without %s(): '
                          'the unauthenticated sequence number stays in the replay window' % (VALIDATE, env.ts.get('vloc', '?').rsplit('/', 1)[-1], ROLLBACK), ctx.path())
            return None
        return None
    solve(h, Env(), on_event3, None, keys3, R3, key_fn=lambda e: (e.ts.get('vkey'), e.ts.get('dvar'), e.ts.get('vord')), on_branch=pin_domain(flag_domain(P)))
    run.instance('R-REPLAY-RB', '%s: failure exits between validation and authentication roll back' % ENTRY)


def run_must(run, P):
    run.rule('R-REPLAY-MUST')
    if not P.has(ENTRY):
        if run.fixture_mode:
            return
        run.require(False, 'anchor %s() not found' % ENTRY)
    h = P.func(ENTRY)
    req = None
    for b, ev in P.events(h):
        for y in walk(ev['e']):
            if isinstance(y, dict) and y.get('k') == 'var' and y['n'] == 'coap_request':
                req = ap(y)
    for b in h['blocks']:
        if b.get('term') and b['term'].get('cond') is not None:
            for y in walk(b['term']['cond']):
                if isinstance(y, dict) and y.get('k') == 'var' and y['n'] == 'coap_request':
                    req = ap(y)
    run.require(req is not None, 'R-REPLAY-MUST: variable coap_request not found in %s()' % ENTRY)
    b12 = None
    for b in h['blocks']:
        if b.get('term') and b['term'].get('cond') is not None:
            for y in walk(b['term']['cond']):
                if isinstance(y, dict) and y.get('k') == 'mem' and y['f'] == 'rfc8613_b_1_2':
                    b12 = ap(y)

    def tri(env, a):
        lo, hi, ex = env.intf(a)
        if lo == hi == 0:
            return '0'
        if lo >= 1 or hi < 0 or 0 in ex:
            return '1'
        return '?'

    def b12val(env):
        if not b12:
            return '?'
        lo, hi, ex = env.intf(b12)
        if lo == hi == 0:
            return '0'
        if lo >= 1 or 0 in ex:
            return '1'
        return '?'
    def is_rule_event(ev):
        t = ev['e']
        if t.get('k') == 'ret':
            return True
        return any(isinstance(y, dict) and y.get('k') == 'call' and y.get('fn') == VALIDATE for y in walk(t))
    keys, R = relevance(h, is_rule_event, {req} | ({b12} if b12 else set()))
    R = R | {req} | ({b12} if b12 else set())
    nret = [0]
    W = writers_closure(P)

    def on_event(ev, env, ctx):
        t = ev['e']
        if t.get('k') == 'call' and t.get('fn') == VALIDATE:
            e = env.copy()
            e.ts['vkeys'] = tuple(sorted(set(env.ts.get('vkeys', ())) | {key(t)}))
            return [apply_generic(ev, e, R)]
        if t.get('k') == 'call':
            return [keep_flag_facts(P, W, ev, env, apply_generic(ev, env, R))]
        if t.get('k') == 'ret' and 'e' in t and not is_null_const(t['e']):
            a = ap(t['e'])
            if a and env.nullf(a) == 'Z':
                return None
            iv = env.intf(req)
            if iv[0] == iv[1] == 0:
                return None          # a response
            nret[0] += 1
            ok = False
            for vk in env.ts.get('vkeys', ()):
                rc = env.ret.get(vk)
                if rc is not None and (rc[0] == 'nz' or (rc[0] == 'ne' and rc[1] == 0) or (rc[0] == 'eq' and rc[1] != 0)):
                    ok = True
            run.oblige('R-REPLAY-MUST', ok, 'request-validated')
            if not ok:
                run.violation('R-REPLAY-MUST', ENTRY, ev['loc'], 'request-accepted-unvalidated:b12=%s' % b12val(env),
                              'a protected request reaches the successful return on a path that never passed a successful %s(): '
                              'the partial IV of this request was not checked against the replay window, a replay is accepted' % VALIDATE, ctx.path())
        return None
    solve(h, Env(), on_event, None, keys, R, key_fn=lambda e: (e.ts.get('vkeys', ()), tri(e, req), b12val(e), tuple(sorted((a, tri(e, a)) for a in e.ints if a.endswith('->initial_state')))), on_branch=pin_domain(flag_domain(P)))
    run.instance('R-REPLAY-MUST', '%s: %d successful-return visits for requests' % (ENTRY, nret[0]))
    run.require(nret[0] > 0 or run.fixture_mode, 'R-REPLAY-MUST: no successful return found in %s()' % ENTRY)
