"""R-FINDER-KEY (C11, C12): what belongs to a session is found only for that session.  Finder functions are computed: a library function
with a `coap_session_t *` parameter S that returns a pointer to a record type T which has a `session` field, never assigns that field
(not a constructor) and compares it with S somewhere.  Every `return X` of a non-NULL element X holds `X->session == S` on its path.
A finder that can match on the token alone hands peer B the subscription (or transfer) of peer A when both happen to use the same
token: B's cancel frees A's observation and releases the wrong session's reference -- A's session keeps a reference nobody owns and is
never reclaimed."""
from core.prog import strip, walk, ap, short, is_null_const
from core.psts import Env, solve, relevance, apply_generic


def run(run, P):
    run.rule('R-FINDER-KEY')
    n = 0
    for f in sorted(P.lib_funcs(), key=lambda f: f['name']):
        T = (f.get('ret') or {}).get('prec')
        if not T or T not in P.records or not any(fl['n'] == 'session' for fl in P.records[T]):
            continue
        sp = [p for p in f.get('params') or () if p.get('prec') == 'coap_session_t']
        if len(sp) != 1:
            continue
        S = 'v%s' % sp[0]['id']
        ctor = False
        compares = False
        for b, ev in P.events(f):
            t = ev['e']
            if t.get('k') == 'asg':
                l = strip(t['l'])
                if isinstance(l, dict) and l.get('k') == 'mem' and l.get('f') == 'session' and l.get('rec') == T:
                    ctor = True
        for b in f['blocks']:
            c = (b.get('term') or {}).get('cond')
            if c is not None:
                for x in walk(c):
                    if isinstance(x, dict) and x.get('k') == 'bin' and x.get('op') in ('==', '!='):
                        sides = [strip(x['l']), strip(x['r'])]
                        if any(isinstance(s_, dict) and s_.get('k') == 'mem' and s_.get('f') == 'session' and s_.get('rec') == T for s_ in sides) and \
                           any(isinstance(s_, dict) and ap(s_) == S for s_ in sides):
                            compares = True
        if ctor or not compares:
            continue
        name = f['name']
        rets = [ev for b, ev in P.events(f) if ev['e'].get('k') == 'ret' and ev['e'].get('e') is not None and ap(strip(ev['e']['e'])) and
                strip(ev['e']['e']).get('k') == 'var']
        if not rets:
            continue
        rvars = set(ap(strip(ev['e']['e'])) for ev in rets)

        def holds(env, x):
            want = x + '->session'
            for ak, av in env.atoms.items():
                if S in ak and want in ak and (('==' in ak and av is True) or ('!=' in ak and av is False)):
                    return True
            return False
        rep = set()

        def on_event(ev, env, ctx):
            t = ev['e']
            if any(ev is r for r in rets):
                x = ap(strip(t['e']))
                if env.nullf(x) == 'Z':
                    return None
                ok = holds(env, x)
                run.oblige('R-FINDER-KEY', ok, '%s:returned-element-belongs-to-session' % name)
                if not ok and ev['loc'] not in rep:
                    rep.add(ev['loc'])
                    run.violation('R-FINDER-KEY', name, ev['loc'], 'element-of-another-session',
                                  '%s() returns an element on a path that does not hold `element->session == %s`: a caller acting for one peer gets (and then frees, cancels '
                                  'or answers through) what belongs to another peer that uses the same token' % (name, sp[0]['n']), ctx.path())
            return None
        n += 1
        run.instance('R-FINDER-KEY', '%s: every returned %s belongs to the session it was asked for' % (name, T))
        solve(f, Env(), on_event, None, None, None,
              key_fn=lambda e: (tuple(sorted((k, v) for k, v in e.atoms.items() if S in k and '->session' in k)), tuple(e.nullf(v) for v in sorted(rvars))), max_envs=256)
    run.require_count(n >= 2 or run.fixture_mode or run.cfg != 'base', 'R-FINDER-KEY: fewer than 2 per-session finder functions found (expected coap_find_observer, ...)')
