"""R-COUNT-CAP (C02): a persistent element count that bounds a fixed-size array only grows behind a capacity guard.

Triples (record, array field A[N], count field C) are computed: some function indexes X.A with X.C itself or with a variable
it compares against X.C.  C lives across packets (reassembly trackers), so no per-call interval argument bounds it; what
bounds it is an inductive invariant  C <= K  that holds iff
   - every writer of C is  ++ / += 1,  -- / -= 1,  or the assignment of a constant <= K   (anything else: not judged),
   - every +1 site is reached only on paths that tested C against the same capacity constant K and excluded C == K
     (`if (C == K) return`, `C < K`, `C != K`, `C >= K -> return`),
   - K <= N - 1.
A +1 site reachable without that test (the seeded change deletes one of two such guards) lets well-formed peer input push C
past the array and every later  A[i], i < C  out of the object."""
import collections
from core.prog import strip, walk, ap, key, short, const_int
from core.psts import Env, solve, relevance, apply_generic


def triples(P):
    arrs = collections.defaultdict(dict)
    for r, fl in P.records.items():
        for x in fl:
            if x.get('alen'):
                arrs[r][x['n']] = x['alen']
    out = collections.Counter()
    for f in P.lib_funcs():
        bounds = collections.defaultdict(set)
        for b in f['blocks']:
            c = (b.get('term') or {}).get('cond')
            if c is None:
                continue
            for n in walk(c):
                if isinstance(n, dict) and n.get('k') == 'bin' and n.get('op') in ('<', '<=', '==', '!=', '>', '>='):
                    for x, y in ((n['l'], n['r']), (n['r'], n['l'])):
                        ys = strip(y)
                        if isinstance(ys, dict) and ys.get('k') == 'mem' and ap(x):
                            bounds[ap(x)].add((ys.get('rec'), ys['f']))
        for b, ev in P.events(f):
            for n in walk(ev['e']):
                if isinstance(n, dict) and n.get('k') in ('idx', 'sub'):
                    base = strip(n.get('b'))
                    if isinstance(base, dict) and base.get('k') == 'mem' and base.get('rec') in arrs and base['f'] in arrs[base['rec']]:
                        i = n.get('i') if 'i' in n else n.get('idx')
                        istr = strip(i)
                        N = arrs[base['rec']][base['f']]
                        if isinstance(istr, dict) and istr.get('k') == 'mem' and istr.get('rec') == base['rec']:
                            out[(base['rec'], base['f'], istr['f'], N)] += 1
                        ia = ap(i) if i is not None else None
                        for (rec, fl) in bounds.get(ia, ()):
                            if rec == base['rec']:
                                out[(base['rec'], base['f'], fl, N)] += 1
    return out


def _is_c(node, rec, C):
    n = strip(node)
    return isinstance(n, dict) and n.get('k') == 'mem' and n.get('f') == C and n.get('rec') == rec


def _write_kind(t, rec, C):
    if t.get('k') == 'un' and t.get('op') in ('++', '--') and _is_c(t['e'], rec, C):
        return '+1' if t['op'] == '++' else '-1'
    if t.get('k') == 'asg' and _is_c(t['l'], rec, C):
        K = const_int(t['r'])
        if t.get('op') == '+=' and K == 1:
            return '+1'
        if t.get('op') == '-=' and K is not None and K >= 0:
            return '-1'
        if t.get('op') == '=' and K is not None:
            return ('const', K)
        return 'other'
    return None


def run(run, P, skip=()):
    run.rule('R-COUNT-CAP')
    T = triples(P)
    run.require(bool(T) or run.fixture_mode, 'R-COUNT-CAP: no (record, array, count) triple found')
    judged = 0
    for (rec, A, C, N), uses in sorted(T.items()):
        if (rec, C) in skip:
            continue
        writers = []
        for f in P.lib_funcs():
            for b, ev in P.events(f):
                wk = _write_kind(ev['e'], rec, C)
                if wk:
                    writers.append((f, ev, wk))
        kinds = {wk if isinstance(wk, str) else 'const' for _f, _e, wk in writers}
        if 'other' in kinds or '+1' not in kinds:
            run.notes.append('R-COUNT-CAP: %s.%s (bounds %s[%d]) not judged: %s' % (rec, C, A, N, 'a writer assigns a computed value' if 'other' in kinds else 'no +1 writer'))
            continue
        judged += 1
        run.instance('R-COUNT-CAP', '%s.%s bounds %s[%d] (%d indexed uses, %d writers)' % (rec, C, A, N, uses, len(writers)))
        guards = {}        # site loc -> set of K seen over paths (None = unguarded)
        for f in {w[0]['name']: w[0] for w in writers if w[2] == '+1'}.values():
            name = f['name']

            def is_rule_event(ev):
                return _write_kind(ev['e'], rec, C) is not None
            keys, R = relevance(f, is_rule_event)
            for b in f['blocks']:
                c = (b.get('term') or {}).get('cond')
                if c is not None and any(_is_c(x, rec, C) for x in walk(c) if isinstance(x, dict)):
                    keys = set(keys) | {b['id']}

            def on_event(ev, env, ctx):
                wk = _write_kind(ev['e'], rec, C)
                if wk is None:
                    return None
                if wk == '+1':
                    guards.setdefault((name, ev['loc']), set()).add(env.ts.get('g'))
                    if env.ts.get('g') is None:
                        guards.setdefault(('path', name, ev['loc']), ctx.path())
                e = env.copy()
                e.ts['g'] = None
                return [apply_generic(ev, e, R)]

            def on_branch(b, s, env, ctx):
                term = b.get('term') or {}
                c = term.get('cond')
                if c is None or len(b['succ']) != 2:
                    return env
                truth = s == b['succ'][0]
                c = strip(c)
                while isinstance(c, dict) and c.get('k') == 'un' and c.get('op') == '!':
                    c = strip(c['e'])
                    truth = not truth
                if not (isinstance(c, dict) and c.get('k') == 'bin' and c.get('op') in ('==', '!=', '<', '<=', '>', '>=')):
                    return env
                op = c['op']
                if _is_c(c['l'], rec, C) and const_int(c['r']) is not None:
                    K = const_int(c['r'])
                elif _is_c(c['r'], rec, C) and const_int(c['l']) is not None:
                    K = const_int(c['l'])
                    op = {'<': '>', '<=': '>=', '>': '<', '>=': '<=', '==': '==', '!=': '!='}[op]
                else:
                    return env
                if not truth:
                    op = {'==': '!=', '!=': '==', '<': '>=', '<=': '>', '>': '<=', '>=': '<'}[op]
                # what do we know now:  C != K (ne) ; C < K ; C <= K
                g = None
                if op == '!=':
                    g = K          # under the invariant C <= K this is C <= K-1
                elif op == '<':
                    g = K
                elif op == '<=':
                    g = K + 1
                if g is None:
                    return env
                e = env.copy()
                e.ts['g'] = g
                return e
            ctx = solve(f, Env({'g': None}), on_event, None, keys, R, key_fn=lambda e: e.ts.get('g'), on_branch=on_branch)
            run.stats['countcap_solver_steps'] += ctx.steps
        sites = [k for k in guards if k[0] != 'path']
        Ks = set()
        for k in sites:
            Ks |= guards[k]
        Kinv = max([k for k in Ks if k is not None], default=None)
        for (name, loc) in sites:
            gs = guards[(name, loc)]
            ok = None not in gs and Kinv is not None and all(g == Kinv for g in gs) and Kinv <= N - 1
            run.oblige('R-COUNT-CAP', ok, '%s.%s:%s' % (rec, C, name))
            if not ok:
                if None in gs:
                    msg = 'is reached on a path that never compared it with the capacity'
                elif Kinv is not None and Kinv > N - 1:
                    msg = 'is guarded by the constant %d, which exceeds the last index %d of %s[]' % (Kinv, N - 1, A)
                else:
                    msg = 'is guarded by %s while another increment is guarded by %s: the weaker guard lets the count pass the stronger one' % (sorted(g for g in gs if g is not None), Kinv)
                run.violation('R-COUNT-CAP', name, loc, 'increment-unguarded:%s.%s' % (rec, C),
                              'the increment of %s.%s, the persistent count that bounds %s[%d], %s: well-formed peer input can grow it past the array and every later '
                              'indexed access runs out of the object' % (rec, C, A, N, msg), guards.get(('path', name, loc), []))
        for f, ev, wk in writers:
            if isinstance(wk, tuple):
                ok = Kinv is None or wk[1] <= Kinv
                run.oblige('R-COUNT-CAP', ok, '%s.%s:const' % (rec, C))
                if not ok:
                    run.violation('R-COUNT-CAP', f['name'], ev['loc'], 'count-set-above-capacity:%s.%s' % (rec, C),
                                  '%s.%s is set to %d, above the capacity guard %d' % (rec, C, wk[1], Kinv), [])
    run.require(judged >= 1 or run.fixture_mode, 'R-COUNT-CAP: no triple could be judged')
