"""R-STALE-COPY (C02): a local copy of an owned pointer field is not used after a call that may free that field.

  freeable fields : computed. (record, field) pairs for which some library function hands `X->field` to a destructor
                    (coap_free_type, free, coap_delete_pdu, coap_delete_string/binary/bin_const/str_const/optlist).
                    The functions that do so are the field's freers; "may free" = call closure reaches a freer.
  copy            : L = X->field  (plain local L).
  detach          : X->field = <anything> in the same function after the copy: the local took the object over (the safe idiom
                    `p = s->f; s->f = NULL; call(); delete(p)`), no obligation.
  stale           : after a call that may free (record, field) AND is handed X itself as an argument, the copy is stale until L is
                    assigned again (a callee that is not given X is taken not to reach this object: object-insensitive
                    reachability through other structures produced a false alarm on the OSCORE association look-up).
  violation       : a stale L is dereferenced, passed to a function or handed to a destructor.
The received-message path of the stream transports keeps the PDU being assembled in session->partial_pdu while
coap_dispatch() runs; a 7.04 Release / 7.05 Abort makes coap_dispatch() free exactly that field (session disconnect), so the
code re-reads the field afterwards.  Caching it in a local across the dispatch is a use-after-free a peer triggers."""
import collections
from core.prog import strip, walk, ap, short, root_var
from core.psts import Env, solve, relevance, apply_generic

DESTRUCTORS = {'coap_free_type': 1, 'free': 0, 'coap_delete_pdu': 0, 'coap_delete_string': 0, 'coap_delete_binary': 0,
               'coap_delete_bin_const': 0, 'coap_delete_str_const': 0, 'coap_delete_optlist': 0}


def _field_of(x):
    """(record, field) if x is  <ptr>->field  (one arrow, pointer-typed field)"""
    x = strip(x)
    while isinstance(x, dict) and x.get('k') == 'bin' and x.get('op') in ('-', '+'):
        x = strip(x['l'])
    if isinstance(x, dict) and x.get('k') == 'mem' and x.get('arrow') and x.get('rec') and x.get('p'):
        return (x['rec'], x['f'])
    return None


def freeable(P):
    fr = collections.defaultdict(set)       # (rec, field) -> freer functions
    for f in P.lib_funcs():
        for b, ev in P.events(f):
            t = ev['e']
            if t.get('k') == 'call' and t.get('fn') in DESTRUCTORS and len(t.get('a', [])) > DESTRUCTORS[t['fn']]:
                rf = _field_of(t['a'][DESTRUCTORS[t['fn']]])
                if rf:
                    fr[rf].add(f['name'])
    return fr


def run(run, P, only=None):
    run.rule('R-STALE-COPY')
    FR = freeable(P)
    cg = P.callgraph()
    reach_cache = {}

    def may_free(rf):
        if rf in reach_cache:
            return reach_cache[rf]
        r = set(FR[rf])
        ch = True
        while ch:
            ch = False
            for fn, cs in cg.items():
                if fn not in r and any(c in r for c in cs):
                    r.add(fn)
                    ch = True
        reach_cache[rf] = r
        return r
    ncopy = 0
    for f in sorted(P.lib_funcs(), key=lambda f: f['name']):
        if only and f['name'] not in only:
            continue
        name = f['name']
        copies = {}     # local ap -> set of (rec, field)
        for b, ev in P.events(f):
            t = ev['e']
            pairs = []
            if t.get('k') == 'asg' and t.get('op') == '=':
                pairs.append((ap(t['l']), t['r']))
            elif t.get('k') == 'decl':
                for d in t['d']:
                    if 'init' in d:
                        pairs.append(('v%d' % d['id'], d['init']))
            for l, r in pairs:
                rf = _field_of(r) if not (isinstance(strip(r), dict) and strip(r).get('k') == 'bin') else None
                if l and '.' not in l and '>' not in l and rf in FR:
                    copies.setdefault(l, set()).add(rf)
        if not copies:
            continue
        # only functions that also call something that may free one of the copied fields
        dangerous = set()
        for l, rfs in copies.items():
            for rf in rfs:
                dangerous |= may_free(rf)
        if not any(ev['e'].get('k') == 'call' and ev['e'].get('fn') in dangerous for b, ev in P.events(f)):
            continue

        def is_rule_event(ev):
            t = ev['e']
            if t.get('k') == 'call':
                return t.get('fn') in dangerous or any(ap(a) in copies for a in t.get('a', []))
            if t.get('k') in ('asg', 'decl'):
                return True
            if t.get('k') == 'mem' and t.get('arrow') and ap(t['b']) in copies:
                return True
            return False
        keys, R = relevance(f, is_rule_event, set(copies))
        R = set(R) | set(copies)

        def on_event(ev, env, ctx):
            t = ev['e']
            st = dict(env.ts.get('c', ()))
            if t.get('k') in ('asg', 'decl'):
                pairs = []
                if t.get('k') == 'asg':
                    pairs.append((ap(t['l']), t['r'], strip(t['l'])))
                else:
                    for d in t['d']:
                        if 'init' in d:
                            pairs.append(('v%d' % d['id'], d['init'], None))
                changed = False
                for l, r, lnode in pairs:
                    if l in copies:
                        rf = _field_of(r)
                        rs = strip(r)
                        st[l] = ('copy', rf, short(r)[:40], ap(rs['b']) if isinstance(rs, dict) and rs.get('k') == 'mem' else None) \
                            if rf in FR and not (isinstance(rs, dict) and rs.get('k') == 'bin') else None
                        changed = True
                    else:
                        # X->field = ...  detaches copies of that field
                        rf = _field_of(lnode) if lnode is not None else None
                        if rf:
                            for k2, v in list(st.items()):
                                if v and v[1] == rf:
                                    st[k2] = None
                                    changed = True
                if changed:
                    e = apply_generic(ev, env, R).copy()
                    e.ts['c'] = tuple(sorted((k2, v) for k2, v in st.items() if v))
                    return [e]
                return None
            if t.get('k') == 'call':
                # uses first
                for i, a in enumerate(t.get('a', [])):
                    l = ap(a)
                    v = st.get(l)
                    if v and v[0] == 'stale':
                        run.oblige('R-STALE-COPY', False, '%s:%s' % (name, l))
                        run.violation('R-STALE-COPY', name, ev['loc'], 'stale-copy-used:%s.%s' % v[1],
                                      'the local copy of %s (taken before %s(), which may free that field: %s) is handed to %s(): use after free / double free' %
                                      (v[2], v[3], ' <- '.join(sorted(FR[v[1]])[:3]), t.get('fn') or 'a callback'), ctx.path())
                        st[l] = None
                fn = t.get('fn')
                changed = False
                argaps = set(ap(a) for a in t.get('a', []))
                for l, v in list(st.items()):
                    # the call can free the field of THIS object only if it is handed the object the field was read from
                    if v and v[0] == 'copy' and fn in may_free(v[1]) and v[3] is not None and v[3] in argaps:
                        st[l] = ('stale', v[1], v[2], fn)
                        changed = True
                e = apply_generic(ev, env, R).copy()
                e.ts['c'] = tuple(sorted((k2, v) for k2, v in st.items() if v))
                return [e]
            if t.get('k') == 'mem' and t.get('arrow'):
                l = ap(t['b'])
                v = st.get(l)
                if v and v[0] == 'stale':
                    run.oblige('R-STALE-COPY', False, '%s:%s' % (name, l))
                    run.violation('R-STALE-COPY', name, ev['loc'], 'stale-copy-used:%s.%s' % v[1],
                                  'the local copy of %s (taken before %s(), which may free that field) is dereferenced: use after free' % (v[2], v[3]), ctx.path())
            return None
        for l in copies:
            ncopy += 1
        run.instance('R-STALE-COPY', '%s: %d local copies of freeable fields across freeing calls' % (name, len(copies)))
        ctx = solve(f, Env({'c': ()}), on_event, None, keys, R, key_fn=lambda e: e.ts.get('c'), max_envs=512)
        run.stats['stalecopy_solver_steps'] += ctx.steps
        run.oblige('R-STALE-COPY', True, '%s:analysed' % name)
    run.stats['stalecopy_freeable_fields'] = len(FR)
    return ncopy


# ---------------------------------------------------------------------------------------------------------------
def run_scalar(run, P, fields=(('coap_pdu_t', 'max_opt'),), units=('coap_pdu.c', 'coap_option.c'), rule='R-FIXUP'):
    """stale copy of a running codec field: pdu->max_opt is the number of the last option in the buffer and every delta is computed
    against it.  A local copy of it taken before a call that can append / insert an option to the same PDU (call closure contains a
    writer of that field, and the PDU is an argument) no longer is "the last option number": using it afterwards encodes the delta
    against the wrong base and shifts every later option number on the wire."""
    run.rule(rule)
    fields = set(fields)
    writers = collections.defaultdict(set)
    for f in P.lib_funcs():
        for b, ev in P.events(f):
            t = ev['e']
            l = None
            if t.get('k') == 'asg':
                l = strip(t['l'])
            elif t.get('k') == 'un' and t.get('op') in ('++', '--'):
                l = strip(t['e'])
            if isinstance(l, dict) and l.get('k') == 'mem' and (l.get('rec'), l.get('f')) in fields:
                writers[(l['rec'], l['f'])].add(f['name'])
    cg = P.callgraph()
    closure = {}
    for rf, ws in writers.items():
        r = set(ws)
        ch = True
        while ch:
            ch = False
            for fn, cs in cg.items():
                if fn not in r and any(c in r for c in cs):
                    r.add(fn)
                    ch = True
        closure[rf] = r
    n = 0
    for f in sorted(P.lib_funcs(), key=lambda f: f['name']):
        if f['unit'] not in units:
            continue
        name = f['name']
        copies = {}
        for b, ev in P.events(f):
            t = ev['e']
            pairs = []
            if t.get('k') == 'asg' and t.get('op') == '=':
                pairs.append((ap(t['l']), t['r']))
            elif t.get('k') == 'decl':
                for d in t['d']:
                    if 'init' in d:
                        pairs.append(('v%d' % d['id'], d['init']))
            for l, r in pairs:
                r0 = strip(r)
                if l and '.' not in l and '>' not in l and isinstance(r0, dict) and r0.get('k') == 'mem' and (r0.get('rec'), r0.get('f')) in fields:
                    copies.setdefault(l, set()).add(((r0['rec'], r0['f']), ap(r0['b'])))
        if not copies:
            continue
        n += len(copies)
        run.instance(rule, '%s: local copy of %s' % (name, ', '.join(sorted('%s.%s' % rf for c in copies.values() for rf, _b in c))))

        def reads(t, l):
            skip = strip(t['l']) if t.get('k') == 'asg' and t.get('op') == '=' else None
            for x in walk(t):
                if isinstance(x, dict) and x.get('k') == 'var' and ap(x) == l and x is not skip:
                    return True
            return False

        def is_rule_event(ev):
            t = ev['e']
            if not ev.get('top') and t.get('k') not in ('call', 'decl'):
                return False
            if t.get('k') == 'call':
                return True
            return any(reads(t, l) for l in copies) or (t.get('k') in ('asg', 'decl'))
        keys, R = relevance(f, is_rule_event, set(copies))
        for b in f['blocks']:
            c = (b.get('term') or {}).get('cond')
            if c is not None and any(ap(x) in copies for x in walk(c) if isinstance(x, dict)):
                keys = set(keys) | {b['id']}

        def on_event(ev, env, ctx):
            t = ev['e']
            st = dict(env.ts.get('c', ()))
            if t.get('k') == 'call':
                fn = t.get('fn')
                argaps = set(ap(a) for a in t.get('a', []))
                ch = False
                for l, v in list(st.items()):
                    if v and v[0] == 'copy' and fn in closure.get(v[1], ()) and v[2] in argaps:
                        st[l] = ('stale', v[1], v[2], fn)
                        ch = True
                if ch:
                    e = apply_generic(ev, env, R).copy()
                    e.ts['c'] = tuple(sorted((k2, v) for k2, v in st.items() if v))
                    return [e]
                return None
            if not ev.get('top') and t.get('k') != 'decl':
                return None
            # uses
            for l, v in list(st.items()):
                if v and v[0] == 'stale' and reads(t, l):
                    run.oblige(rule, False, '%s:stale-scalar:%s' % (name, l))
                    run.violation(rule, name, ev['loc'], 'stale-field-copy:%s.%s' % v[1],
                                  'the local copy of %s.%s taken before %s() (which can change that field of the same object) is used afterwards (%s): the value is no longer the '
                                  'running base the codec computes against' % (v[1][0], v[1][1], v[3], short(t)[:60]), ctx.path())
                    st[l] = None
            # (re)definitions
            pairs = []
            if t.get('k') == 'asg' and t.get('op') == '=':
                pairs.append((ap(t['l']), t['r']))
            elif t.get('k') == 'decl':
                for d in t['d']:
                    if 'init' in d:
                        pairs.append(('v%d' % d['id'], d['init']))
            for l, r in pairs:
                if l in copies:
                    r0 = strip(r)
                    if isinstance(r0, dict) and r0.get('k') == 'mem' and (r0.get('rec'), r0.get('f')) in fields:
                        st[l] = ('copy', (r0['rec'], r0['f']), ap(r0['b']))
                    else:
                        st[l] = None
            e = apply_generic(ev, env, R).copy()
            e.ts['c'] = tuple(sorted((k2, v) for k2, v in st.items() if v))
            return [e]
        solve(f, Env({'c': ()}), on_event, None, keys, R, key_fn=lambda e: e.ts.get('c'), max_envs=512)
        run.oblige(rule, True, '%s:scalar-analysed' % name)
    return n
