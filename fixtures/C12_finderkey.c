// RUN: rules.fixture_entry.finderkey
#include <stddef.h>
#include <string.h>
typedef struct coap_session_t { int ref; } coap_session_t;
typedef struct tok_t { size_t length; const unsigned char *s; } tok_t;
typedef struct sub_t { struct sub_t *next; coap_session_t *session; tok_t tok; } sub_t;
typedef struct res_t { sub_t *subscribers; } res_t;
static int tok_eq(const tok_t *a, const tok_t *b) { return a->length == b->length && memcmp(a->s, b->s, a->length) == 0; }
sub_t *find_good(res_t *r, coap_session_t *session, const tok_t *token) {
  sub_t *s;
  for (s = r->subscribers; s; s = s->next) {
    if (s->session == session && (!token || tok_eq(token, &s->tok)))
      return s;
  }
  return NULL;
}
sub_t *find_bad(res_t *r, coap_session_t *session, const tok_t *token) {
  sub_t *s;
  for (s = r->subscribers; s; s = s->next) {
    if ((s->session == session && !token) || (token && tok_eq(token, &s->tok)))
      return s;                                                      // EXPECT R-FINDER-KEY
  }
  return NULL;
}
