// RUN: rules.fixture_entry.nullbelief
#include <stddef.h>
typedef struct ctx_t { int no_clear; void (*deleted)(struct ctx_t *); } ctx_t;
typedef struct res_t { ctx_t *context; int n; } res_t;
extern void lock(ctx_t *c);
extern void unlock(ctx_t *c);
static void free_res_bad(res_t *r) {
  if (!r->context->no_clear)
    r->n = 0;
}
static void free_res_good(res_t *r) {
  ctx_t *c = r->context;
  if (c && !c->no_clear)
    r->n = 0;
}
int delete_bad(res_t *r) {
  ctx_t *c = r->context;
  if (c)
    lock(c);
  free_res_bad(r);                                                   // EXPECT R-NULL-BELIEF
  if (c)
    unlock(c);
  return 1;
}
int delete_good(res_t *r) {
  ctx_t *c = r->context;
  if (c)
    lock(c);
  free_res_good(r);
  if (c)
    unlock(c);
  return 1;
}
int delete_checked(res_t *r) {
  if (!r->context)
    return 0;
  free_res_bad(r);
  return 1;
}
