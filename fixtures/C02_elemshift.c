// RUN: rules.fixture_entry.elemshift
#include <string.h>
#include <stdint.h>
typedef struct track_t { uint32_t num; int cont; } track_t;
int insert_good(track_t *a, uint32_t *count, uint32_t max, uint32_t i, uint32_t num) {
  if (*count >= max) return 0;
  memmove(&a[i + 1], &a[i], (*count - i) * sizeof(a[0]));
  a[i].num = num;
  (*count)++;
  return 1;
}
void delete_good(track_t *a, uint32_t *count, uint32_t i) {
  if (*count - i > 1)
    memmove(&a[i], &a[i + 1], (*count - i - 1) * sizeof(a[0]));
  (*count)--;
}
int insert_bytes(track_t *a, uint32_t *count, uint32_t max, uint32_t i, uint32_t num) {
  if (*count >= max) return 0;
  memmove(&a[i + 1], &a[i], *count - i);                             // EXPECT R-ELEM-SHIFT
  a[i].num = num;
  (*count)++;
  return 1;
}
int insert_wrong_way(track_t *a, uint32_t *count, uint32_t max, uint32_t i, uint32_t num) {
  if (*count >= max) return 0;
  memmove(&a[i], &a[i + 1], (*count - i - 1) * sizeof(a[0]));        // EXPECT R-ELEM-SHIFT
  a[i].num = num;
  (*count)++;
  return 1;
}
