// RUN: rules.fixture_entry.realloc_commit
#include <stddef.h>
extern void *coap_realloc_type(int t, void *p, size_t n);
typedef struct list_t { int *items; size_t cnt; size_t cap; } list_t;
/* good: temporary, commit after success */
int good_grow(list_t *l, size_t n) {
  int *tmp = coap_realloc_type(1, l->items, n * sizeof(int));
  if (tmp == NULL) return 0;
  l->items = tmp;
  l->cap = n;
  return 1;
}
/* good: the field is raised early but put back on failure */
int good_restore(list_t *l, size_t n) {
  size_t old = l->cap;
  int *tmp;
  l->cap = n;
  tmp = coap_realloc_type(1, l->items, n * sizeof(int));
  if (!tmp) { l->cap = old; return 0; }
  l->items = tmp;
  return 1;
}
/* bad (a): result overwrites the only pointer to the old block */
int bad_self(list_t *l, size_t n) {
  l->items = coap_realloc_type(1, l->items, n * sizeof(int));       // EXPECT R-REALLOC-COMMIT
  if (l->items == NULL) return 0;
  l->cap = n;
  return 1;
}
/* bad (b): capacity claims memory that was never obtained */
int bad_early(list_t *l, size_t n) {
  int *tmp;
  l->cap = n;                                                        // EXPECT R-REALLOC-COMMIT
  tmp = coap_realloc_type(1, l->items, n * sizeof(int));
  if (tmp == NULL) return 0;
  l->items = tmp;
  return 1;
}
extern void *realloc(void *, size_t);
int more1(list_t *l) { int *t = realloc(l->items, 8); if (!t) return 0; l->items = t; return 1; }
int more2(list_t *l) { int *t = realloc(l->items, 16); if (!t) return 0; l->items = t; return 1; }
