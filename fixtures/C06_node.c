// RUN: rules.fixture_entry.node
#include <stddef.h>
typedef enum { COAP_MESSAGE_CON, COAP_MESSAGE_NON } coap_pdu_type_t;
typedef struct coap_pdu_t { coap_pdu_type_t type; int mid; } coap_pdu_t;
typedef struct coap_session_t { unsigned max_retransmit; struct coap_queue_t *delayqueue; int state; } coap_session_t;
typedef struct coap_queue_t { struct coap_queue_t *next; coap_session_t *session; coap_pdu_t *pdu; unsigned char retransmit_cnt; int id; int is_mcast; } coap_queue_t;
typedef struct coap_context_t { coap_queue_t *sendqueue; } coap_context_t;
#define COAP_PDU_DELAYED -3
coap_queue_t *coap_new_node(void);
coap_queue_t *coap_pop_next(coap_context_t *c);
int coap_insert_node(coap_queue_t **q, coap_queue_t *n);
int coap_wait_ack(coap_context_t *c, coap_session_t *s, coap_queue_t *n);
int coap_delete_node_lkd(coap_queue_t *n);
int coap_remove_from_queue(coap_queue_t **q, coap_session_t *s, int id, coap_queue_t **node);
long coap_send_pdu(coap_session_t *s, coap_pdu_t *p, coap_queue_t *n);
void coap_handle_nack(coap_session_t *s, coap_pdu_t *p, int reason, int id);
int uses(long x) { return x == COAP_PDU_DELAYED; }
int coap_retransmit(coap_context_t *context, coap_queue_t *node) {
  if (!context || !node) return -1;
  if (node->retransmit_cnt < node->session->max_retransmit) {
    long n;
    node->retransmit_cnt++;
    coap_insert_node(&context->sendqueue, node);
    n = coap_send_pdu(node->session, node->pdu, node);
    if (node->is_mcast) { coap_delete_node_lkd(node); return -1; }          // EXPECT R-OWN-NODE
    if (n == COAP_PDU_DELAYED) return node->id;
    return node->id;
  }
  if (node->pdu->type == COAP_MESSAGE_CON) { }
  coap_delete_node_lkd(node);                                                // EXPECT R-RETRANS
  return -1;
}
void good_queue(coap_context_t *c, coap_session_t *s) { coap_queue_t *n = coap_new_node(); if (!n) return; coap_wait_ack(c, s, n); }
void good_ack(coap_context_t *c, coap_session_t *s, int mid) { coap_queue_t *sent = NULL; coap_remove_from_queue(&c->sendqueue, s, mid, &sent); if (sent) coap_delete_node_lkd(sent); }
void good_flush(coap_session_t *s) { while (s->delayqueue) { coap_queue_t *q = s->delayqueue; s->delayqueue = q->next; coap_delete_node_lkd(q); } }
void bad_leak(coap_context_t *c, coap_session_t *s, int mid) {                // EXPECT R-OWN-NODE
  coap_queue_t *sent = NULL;
  coap_remove_from_queue(&c->sendqueue, s, mid, &sent);
  if (sent && sent->pdu->type == COAP_MESSAGE_CON) coap_delete_node_lkd(sent);
}
void bad_uaf(coap_session_t *s) {
  coap_queue_t *q = s->delayqueue;
  s->delayqueue = q->next;
  coap_delete_node_lkd(q);
  s->state = q->id;                                                            // EXPECT R-OWN-NODE
}
void bad_double(coap_context_t *c) { coap_queue_t *n = coap_pop_next(c); if (!n) return; coap_delete_node_lkd(n); coap_delete_node_lkd(n); }   // EXPECT R-OWN-NODE
