// RUN: rules.fixture_entry.dangfield
#include <stddef.h>
extern void coap_free_type(int t, void *p);
typedef struct bin_t { size_t length; unsigned char *s; } bin_t;
typedef struct xfer_t { bin_t *body; int etag; struct xfer_t *next; } xfer_t;
void delete_bin(bin_t *b) { if (b) coap_free_type(1, b); }
void good_restart(xfer_t *x, int etag) {
  if (x->etag != etag) {
    delete_bin(x->body);
    x->body = NULL;
    x->etag = etag;
  }
}
void good_holder_goes(xfer_t *x) {
  delete_bin(x->body);
  coap_free_type(2, x);
}
void bad_restart(xfer_t *x, int etag) {
  if (x->etag != etag) {
    delete_bin(x->body);                                             // EXPECT R-DANGLING-FIELD
    x->etag = etag;
  }
}
