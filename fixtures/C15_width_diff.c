// RUN: rules.fixture_entry.width_diff
#include <stdint.h>
typedef struct ctx_t { uint64_t last_seq; uint64_t window; uint32_t size; } ctx_t;
int good(ctx_t *c, uint64_t in) {
  uint64_t shift = c->last_seq - in - 1;
  if (shift > c->size || shift > 63) return 0;
  return (c->window >> shift) & 1;
}
int good_guarded(ctx_t *c, uint64_t in) {
  if (c->last_seq - in > 64) return 0;
  uint32_t shift = c->last_seq - in;
  if (shift > c->size) return 0;
  return 1;
}
int good_explicit_unjudged(ctx_t *c, uint64_t in) {
  uint32_t low = c->last_seq - in;
  return (int)(low & 1);
}
int bad(ctx_t *c, uint64_t in) {
  uint32_t shift = c->last_seq - in - 1;                              // EXPECT R-WIDTH
  if (shift > c->size || shift > 63) return 0;
  return (c->window >> shift) & 1;
}
