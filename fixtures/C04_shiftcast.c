// RUN: rules.fixture_entry.width_shiftcast
#include <stdint.h>
void good(uint8_t *o, unsigned delta) {
  o[0] = (uint8_t)((delta - 269) >> 8);
  o[1] = (uint8_t)((delta - 269) & 0xff);
}
unsigned good_wide(uint32_t v) { return (uint16_t)v >> 8; }
void bad(uint8_t *o, unsigned delta) {
  o[0] = (uint8_t)(delta - 269) >> 8;                                  // EXPECT R-WIDTH
  o[1] = (uint8_t)((delta - 269) & 0xff);
}
