// RUN: rules.fixture_entry.outbound
#include <stddef.h>
#define PRINT_WITH_OFFSET(Buf,Offset,Char) if ((Offset) == 0) { (*(Buf)++) = (Char); } else { (Offset)--; }
#define PRINT_COND_WITH_OFFSET(Buf,Bufend,Offset,Char,Result) { if ((Buf) < (Bufend)) { PRINT_WITH_OFFSET(Buf,Offset,Char); } (Result)++; }
typedef struct r { const char *s; size_t n; int obs; } res_t;
unsigned coap_print_link(const res_t *resource, unsigned char *buf, size_t *len, size_t *offset) {
  unsigned char *p = buf;
  const unsigned char *bufend = buf + *len;
  size_t i;
  *len = 0;
  PRINT_COND_WITH_OFFSET(p, bufend, *offset, '<', *len);
  for (i = 0; i < resource->n; i++) { PRINT_COND_WITH_OFFSET(p, bufend, *offset, resource->s[i], *len); }
  if (resource->obs) { *p++ = ';'; (*len)++; }                       // EXPECT R-OUT-BOUND
  if (p <= bufend) { *p++ = '>'; }                                    // EXPECT R-OUT-BOUND
  return (unsigned)(p - buf);
}
unsigned coap_print_wellknown_lkd(const res_t *rs, int n, unsigned char *buf, size_t *buflen, size_t offset) {
  unsigned char *p = buf;
  const unsigned char *bufend = buf + *buflen;
  size_t left, written = 0;
  int i;
  for (i = 0; i < n; i++) {
    if (i) PRINT_COND_WITH_OFFSET(p, bufend, offset, ',', written);
    left = bufend - p;
    p += coap_print_link(&rs[i], p, &left, &offset);
    written += left;
  }
  left = bufend - buf;
  p += coap_print_link(&rs[0], p, &left, &offset);                    // EXPECT R-OUT-BOUND
  *buflen = written;
  return (unsigned)(p - buf);
}
