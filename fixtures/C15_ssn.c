// RUN: rules.fixture_entry.ssn
#include <stdint.h>
#include <stdlib.h>
typedef struct { uint64_t seq; uint64_t next_seq; } snd_t;
typedef struct { snd_t *sender_context; uint32_t ssn_freq; int (*save_seq_num_func)(uint64_t, void *); void *p; } osc_t;
extern int encode(unsigned char *b, uint64_t v);
extern void *mk(void);
static int step(osc_t *c) { c->sender_context->seq++; return c->sender_context->seq < 1000; }
typedef struct { uint64_t start_seq_num; uint32_t ssn_freq; } conf_t;
snd_t *build(conf_t *cf) { snd_t *s = malloc(sizeof(*s)); if (!s) return 0; s->next_seq = cf->start_seq_num - cf->start_seq_num % cf->ssn_freq; s->seq = cf->start_seq_num; return s; }
snd_t *build_rounded(conf_t *cf) { snd_t *s = malloc(sizeof(*s)); if (!s) return 0; s->next_seq = cf->start_seq_num - cf->start_seq_num % cf->ssn_freq;
  s->seq = s->next_seq;                                              // EXPECT R-SSN-ORDER
  return s; }
void reset(osc_t *c) { c->sender_context->seq = 0; }                 // EXPECT R-SSN-ORDER
void *good(osc_t *c, int req) {
  unsigned char b[8];
  void *out = mk();
  if (!out) return 0;
  if (req) encode(b, c->sender_context->seq);
  if (req) {
    if (!step(c)) return 0;
    if (c->save_seq_num_func) {
      if (c->sender_context->seq > c->sender_context->next_seq) {
        c->sender_context->next_seq += c->ssn_freq;
        c->save_seq_num_func(c->sender_context->next_seq, c->p);
      }
    }
  }
  return out;
}
void *good_pre(osc_t *c) {
  unsigned char b[8];
  void *out = mk();
  if (!out) return 0;
  encode(b, c->sender_context->seq);
  if (c->save_seq_num_func && c->sender_context->seq >= c->sender_context->next_seq) {
    c->sender_context->next_seq += c->ssn_freq;
    c->save_seq_num_func(c->sender_context->next_seq, c->p);
  }
  if (!step(c)) return 0;
  return out;
}
void *late_step(osc_t *c) {
  unsigned char b[8];
  void *out = mk();
  if (!out) return 0;
  encode(b, c->sender_context->seq);
  if (c->save_seq_num_func) {
    if (c->sender_context->seq > c->sender_context->next_seq) {
      c->sender_context->next_seq += c->ssn_freq;
      c->save_seq_num_func(c->sender_context->next_seq, c->p);
    }
  }
  if (!step(c)) return 0;
  return out;                                                        // EXPECT R-SSN-ORDER
}
void *no_step(osc_t *c) {
  unsigned char b[8];
  void *out = mk();
  if (!out) return 0;
  encode(b, c->sender_context->seq);
  if (c->save_seq_num_func) return 0;
  return out;                                                        // EXPECT R-SSN-ORDER
}
void *save_old(osc_t *c) {
  unsigned char b[8];
  void *out = mk();
  if (!out) return 0;
  encode(b, c->sender_context->seq);
  if (!step(c)) return 0;
  if (c->save_seq_num_func) {
    if (c->sender_context->seq > c->sender_context->next_seq) {
      c->save_seq_num_func(c->sender_context->next_seq, c->p);       // EXPECT R-SSN-ORDER
      c->sender_context->next_seq += c->ssn_freq;
    }
  }
  return out;
}
