// RUN: rules.r_file.run
#include <stdio.h>
#include <string.h>
int rd(FILE *fp, char *b) { return fread(b, 1, 4, fp) == 4; }
int wr(FILE *fp, const char *b) { return fwrite(b, 1, 4, fp) == 4; }

int load(const char *name) {
  char b[4];
  FILE *fp = fopen(name, "r");
  if (!fp) return 0;
  while (rd(fp, b)) ;
  fclose(fp);
  return 1;
}
int upd(const char *name, char *tmp) {
  char b[4];
  FILE *o = fopen(name, "a+");
  FILE *n = NULL;
  if (!o) return 0;
  n = fopen(tmp, "w+");
  if (n == NULL) goto fail;
  while (1) {
    if (!rd(o, b)) break;
    if (!wr(n, b)) goto fail;
  }
  if (!wr(n, "abcd")) goto fail;
  if (fflush(n) == EOF) goto fail;
  fclose(n);
  if (o) fclose(o);
  (void)rename(tmp, name);
  return 1;
fail:
  if (n) fclose(n);
  if (o) fclose(o);
  remove(tmp);
  return 0;
}
/* close result tested instead of flush */
int upd2(const char *name, char *tmp) {
  FILE *n = fopen(tmp, "w");
  if (!n) return 0;
  fprintf(n, "%s %d\n", "x", 1);
  if (fclose(n) != 0) { remove(tmp); return 0; }
  rename(tmp, name);
  return 1;
}
