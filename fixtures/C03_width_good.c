// RUN: rules.fixture_entry.width
#include <stdint.h>
#include <stddef.h>
typedef struct { uint16_t delta; size_t length; const uint8_t *value; } coap_option_t;
typedef struct { uint32_t e_token_length; uint16_t mid; } pdu_t;
size_t coap_opt_parse(const uint8_t *opt, size_t length, coap_option_t *result) {
  if (length < 3) return 0;
  result->delta = (*opt & 0xf0) >> 4;
  switch (result->delta) {
  case 15: return 0;
  case 14:
    opt++;
    result->delta = ((*opt & 0xff) << 8) + 269;
    if (result->delta < 269) return 0;
  /* fall through */
  case 13:
    opt++;
    if ((uint32_t)result->delta + (*opt & 0xff) > UINT16_MAX) return 0;
    result->delta += *opt & 0xff;
    break;
  default: ;
  }
  return 3;
}
static size_t next_option_safe(uint8_t **optp, size_t *length, uint16_t *max_opt) {
  coap_option_t option;
  size_t optsize = coap_opt_parse(*optp, *length, &option);
  if (optsize) {
    if (*max_opt + option.delta > 65535) return 0;
    *max_opt += option.delta;
    *optp += optsize;
  }
  return optsize;
}
size_t use(uint8_t **o, size_t *l, uint16_t *m) { return next_option_safe(o, l, m); }
void narrow_ok(pdu_t *p, size_t len, size_t bias, const uint8_t *h) {
  if (len < 200 && bias <= 2) p->e_token_length = (uint8_t)(len + bias);   /* proven to fit */
  p->e_token_length = (uint32_t)(len + bias);
  p->mid = (uint16_t)h[2] << 8 | h[3];
}
