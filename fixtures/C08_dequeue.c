// RUN: rules.fixture_entry.cntdeq
#include <stddef.h>
enum { COAP_MESSAGE_CON = 0, COAP_MESSAGE_NON = 1, COAP_MESSAGE_ACK = 2, COAP_MESSAGE_RST = 3 };
typedef struct pdu { int type; int mid; int code; } pdu_t;
typedef struct coap_session_t { unsigned con_active; int state; } coap_session_t;
typedef struct coap_queue_t { struct coap_queue_t *next; pdu_t *pdu; coap_session_t *session; int id; } coap_queue_t;
typedef struct ctx { coap_queue_t *sendqueue; } ctx_t;
extern int coap_remove_from_queue(coap_queue_t **q, coap_session_t *s, int id, coap_queue_t **node);
extern void coap_delete_node_lkd(coap_queue_t *n);
extern void flush(coap_session_t *s);
extern int bad_code(pdu_t *p);
void dispatch(ctx_t *c, coap_session_t *session, pdu_t *pdu) {
  coap_queue_t *sent = NULL;
  if (bad_code(pdu)) {
    coap_remove_from_queue(&c->sendqueue, session, pdu->mid, &sent);              // EXPECT R-CNT-CON
    goto cleanup;
  }
  switch (pdu->type) {
  case COAP_MESSAGE_ACK:
    coap_remove_from_queue(&c->sendqueue, session, pdu->mid, &sent);
    if (sent && session->con_active) { session->con_active--; flush(session); }
    break;
  case COAP_MESSAGE_RST:
    coap_remove_from_queue(&c->sendqueue, session, pdu->mid, &sent);
    if (sent && sent->pdu->type == COAP_MESSAGE_CON && session->con_active) { session->con_active--; flush(session); }
    break;
  case COAP_MESSAGE_NON:
    coap_remove_from_queue(&c->sendqueue, session, pdu->mid, &sent);              // EXPECT R-CNT-CON
    break;
  default:
    break;
  }
cleanup:
  coap_delete_node_lkd(sent);
}
void other(ctx_t *c, coap_session_t *session, int mid) {
  coap_queue_t *removed = NULL;
  coap_remove_from_queue(&c->sendqueue, session, mid, &removed);
  if (removed) {
    if (session->con_active) session->con_active--;
    coap_delete_node_lkd(removed);
  }
}
