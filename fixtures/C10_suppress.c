// RUN: rules.fixture_entry.suppress
#include <stddef.h>
#define COAP_RESOURCE_FLAGS_LIB_ENA_MCAST_SUPPRESS_2_05 0x20
#define COAP_RESOURCE_FLAGS_LIB_ENA_MCAST_SUPPRESS_2_XX 0x40
#define COAP_RESOURCE_FLAGS_LIB_DIS_MCAST_SUPPRESS_4_XX 0x80
#define COAP_RESOURCE_FLAGS_LIB_DIS_MCAST_SUPPRESS_5_XX 0x100
#define COAP_RESPONSE_CLASS(C) (((C) >> 5) & 0xFF)
#define COAP_RESPONSE_CODE(N) (((N)/100 << 5) | (N)%100)
enum respond_t { RESPONSE_DEFAULT, RESPONSE_DROP, RESPONSE_SEND };
typedef struct { unsigned code; unsigned char *data; } pdu_t;
typedef struct { int flags; } res_t;
enum respond_t no_response(pdu_t *response, res_t *resource, unsigned val, int nores) {
  if (nores) {
    if (((1 << (COAP_RESPONSE_CLASS(response->code) - 2)) & val) > 0)   // EXPECT R-SUPPRESS-TAB
      return RESPONSE_DROP;
    return RESPONSE_SEND;
  }
  if ((resource->flags & COAP_RESOURCE_FLAGS_LIB_ENA_MCAST_SUPPRESS_2_XX) && COAP_RESPONSE_CLASS(response->code) == 2) {
    return RESPONSE_DROP;
  } else if ((resource->flags & COAP_RESOURCE_FLAGS_LIB_ENA_MCAST_SUPPRESS_2_05) && response->code == COAP_RESPONSE_CODE(205)) {
    if (response->data == NULL) return RESPONSE_DROP;
  } else if ((resource->flags & COAP_RESOURCE_FLAGS_LIB_DIS_MCAST_SUPPRESS_4_XX) == 0 && COAP_RESPONSE_CLASS(response->code) == 4) {
    return RESPONSE_DROP;
  } else if ((resource->flags & COAP_RESOURCE_FLAGS_LIB_DIS_MCAST_SUPPRESS_4_XX) == 0 && COAP_RESPONSE_CLASS(response->code) == 5) {   // EXPECT R-SUPPRESS-TAB
    return RESPONSE_DROP;
  } else if (COAP_RESPONSE_CLASS(response->code) == 5 && (resource->flags & COAP_RESOURCE_FLAGS_LIB_DIS_MCAST_SUPPRESS_5_XX)) {   // EXPECT R-SUPPRESS-TAB
    return RESPONSE_DROP;
  }
  return RESPONSE_DEFAULT;
}
