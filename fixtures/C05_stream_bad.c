// RUN: rules.fixture_entry.stream
#include <stdint.h>
#include <stddef.h>
#include <string.h>
#include <sys/types.h>
typedef struct coap_session_t coap_session_t;
typedef struct { ssize_t (*l_read)(coap_session_t *, uint8_t *, size_t); } lfunc_t;
typedef struct coap_ws_state_t { uint8_t http_hdr[80]; uint32_t http_ofs; uint8_t rd_header[14]; int hdr_ofs; size_t data_ofs, data_size; int up; } coap_ws_state_t;
struct coap_session_t { uint8_t read_header[8]; size_t partial_read; lfunc_t lfunc[2]; coap_ws_state_t *ws; void *partial_pdu; };
void coap_session_disconnected_lkd(coap_session_t *s, int r);
void coap_ws_close(coap_session_t *s);
size_t coap_pdu_parse_size(int proto, const uint8_t *d, size_t n);
int coap_pdu_resize(void *pdu, size_t n);
#define MAXSZ 65808UL
void coap_read_session(coap_session_t *session, const uint8_t *p, ssize_t bytes_read, size_t len) {
  while (bytes_read > 0) {
    size_t n = len < (size_t)bytes_read ? len : (size_t)bytes_read;
    memcpy(session->read_header + session->partial_read, p, n);
    p += n;
    bytes_read -= n;
    if (n == len) {
      size_t size = coap_pdu_parse_size(1, session->read_header, len);
      if (!coap_pdu_resize(session->partial_pdu, size)) { bytes_read = -1; break; }      // EXPECT R-STREAM-CAP
      session->partial_read = len;
    } else {
      session->partial_read += bytes_read;                                                 // EXPECT R-STREAM-ADV
    }
  }
  if (bytes_read < 0) coap_session_disconnected_lkd(session, 1);
}
ssize_t coap_ws_read(coap_session_t *session, uint8_t *data, size_t datalen) {
  ssize_t ret;
  ssize_t bytes_size = 0;
  ret = session->lfunc[1].l_read(session, &session->ws->rd_header[session->ws->hdr_ofs], sizeof(session->ws->rd_header) - session->ws->hdr_ofs);   // EXPECT R-STREAM-ADV
  if (ret < 0) return ret;
  if (session->ws->hdr_ofs < 2) return 0;
  bytes_size = session->ws->rd_header[1] & 0x7f;
  if (bytes_size == 126) bytes_size = (session->ws->rd_header[2] << 8) + session->ws->rd_header[3];
  session->ws->data_size = bytes_size;
  if ((size_t)bytes_size > datalen) {                                                      // EXPECT R-STREAM-CAP
    return 0;
  }
  memcpy(data, &session->ws->rd_header[4], bytes_size);
  return bytes_size;
}
static int coap_ws_rd_http_header(coap_session_t *session) {                               // EXPECT R-STREAM-CAP
  coap_ws_state_t *ws = session->ws;
  ssize_t bytes;
  size_t rem = ws->http_ofs > 60 ? sizeof(ws->http_hdr) - ws->http_ofs : 14;
  bytes = session->lfunc[1].l_read(session, &ws->http_hdr[ws->http_ofs], rem);
  if (bytes < 0) return 0;
  if (bytes == 0) return 1;
  ws->http_ofs += (uint32_t)bytes;
  return 1;
}
int use(coap_session_t *s) { return coap_ws_rd_http_header(s); }
