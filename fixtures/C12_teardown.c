// RUN: rules.fixture_entry.teardown
#include <stddef.h>
typedef struct coap_session_t { int ref; struct coap_session_t *next; } coap_session_t;
typedef struct coap_async_t { coap_session_t *session; struct coap_async_t *next; } coap_async_t;
typedef struct coap_queue_t { coap_session_t *session; struct coap_queue_t *next; } coap_queue_t;
typedef struct coap_endpoint_t { coap_session_t *sessions; struct coap_endpoint_t *next; } coap_endpoint_t;
typedef struct coap_context_t { coap_async_t *async_state; coap_queue_t *sendqueue; coap_endpoint_t *endpoint; } coap_context_t;
extern coap_session_t *coap_session_reference_lkd(coap_session_t *s);
extern void coap_session_release_lkd(coap_session_t *s);
extern void coap_session_free(coap_session_t *s);
extern void coap_free_type(int t, void *p);
extern void *coap_malloc_type(int t, size_t n);
coap_async_t *reg(coap_session_t *s) { coap_async_t *a = coap_malloc_type(1, sizeof(*a)); if (!a) return NULL; a->session = coap_session_reference_lkd(s); return a; }
coap_queue_t *node(coap_session_t *s) { coap_queue_t *a = coap_malloc_type(1, sizeof(*a)); if (!a) return NULL; a->session = coap_session_reference_lkd(s); return a; }
static void free_async(coap_async_t *a) { coap_session_release_lkd(a->session); coap_free_type(1, a); }
void coap_delete_all_async(coap_context_t *c) { coap_async_t *a, *n; for (a = c->async_state; a; a = n) { n = a->next; free_async(a); } c->async_state = NULL; }
void coap_delete_all(coap_queue_t *q) { coap_queue_t *n; for (; q; q = n) { n = q->next; coap_session_release_lkd(q->session); coap_free_type(1, q); } }
void coap_free_endpoint_lkd(coap_endpoint_t *ep) {
  coap_session_t *s, *n;
  for (s = ep->sessions; s; s = n) { n = s->next; if (s->ref == 0) coap_session_free(s); }
  coap_free_type(2, ep);
}
void coap_free_context_lkd(coap_context_t *c) {
  coap_endpoint_t *ep, *n;
  coap_delete_all(c->sendqueue);
  for (ep = c->endpoint; ep; ep = n) { n = ep->next; coap_free_endpoint_lkd(ep); }
  coap_delete_all_async(c);                                          // EXPECT R-TEARDOWN
  coap_free_type(3, c);
}
