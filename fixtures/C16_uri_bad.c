// RUN: rules.fixture_entry.uri
#include <stdint.h>
#include <stddef.h>
#include <ctype.h>
static int check_segment(const uint8_t *s, size_t length, size_t *segment_size) {
  size_t n = 0;
  while (length) {
    if (*s == '%') {
      if (length < 2 || !(isxdigit(s[1]) && isxdigit(s[2])))     // EXPECT R-LEN-READ
        return -1;
      s += 2; length -= 2;
    }
    ++s; ++n; --length;
  }
  *segment_size = n;
  return 0;
}
static const uint8_t *strnchr(const uint8_t *s, size_t len, unsigned char c) {
  while (*s++ != c && len)                                          // EXPECT R-LEN-READ
    --len;
  return len ? s : NULL;
}
static int is_unescaped_in_path(const uint8_t c) { return (c >= 'a' && c <= 'z') || c == '-' || c == '/'; }   // EXPECT R-URI-CLASS
void coap_get_uri_path(const uint8_t *seg, size_t n, uint8_t *s, int first) {
  size_t i;
  if (!first) *s++ = '/';
  for (i = 0; i < n; i++) { if (is_unescaped_in_path(seg[i])) *s++ = seg[i]; else { *s++ = '%'; *s++ = 'X'; *s++ = 'X'; } }
}
int use(const uint8_t *s, size_t n, size_t *o) { return check_segment(s, n, o) + (strnchr(s, n, '/') != NULL); }
