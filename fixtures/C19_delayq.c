// RUN: rules.fixture_entry.delayq
#include <stddef.h>
typedef struct coap_pdu_t { int type; int mid; } coap_pdu_t;
typedef struct coap_queue_t { struct coap_queue_t *next; coap_pdu_t *pdu; int id; } coap_queue_t;
typedef struct coap_session_t { coap_queue_t *delayqueue; int state; int proto; } coap_session_t;
extern void coap_handle_nack(coap_session_t *s, coap_pdu_t *p, int reason, int id);
extern long coap_session_send_pdu(coap_session_t *s, coap_pdu_t *p);
extern void coap_delete_node_lkd(coap_queue_t *q);
extern void logit(const char *f, int v);
#define CON 0
/* good: NACK for Confirmables, then delete; the second drain only after the first */
void good_disconnect(coap_session_t *s, int reason) {
  coap_queue_t *q;
  if (reason != 4) {
    while (s->delayqueue) {
      q = s->delayqueue; s->delayqueue = q->next; q->next = NULL;
      if (q->pdu->type == CON) coap_handle_nack(s, q->pdu, reason, q->id);
      coap_delete_node_lkd(q);
    }
  }
  if (reason == 4) return;
  while (s->delayqueue) {
    q = s->delayqueue; s->delayqueue = q->next;
    coap_delete_node_lkd(q);
  }
}
/* good: transmitted, then deleted */
void good_flush(coap_session_t *s) {
  while (s->delayqueue && s->state == 4) {
    coap_queue_t *q = s->delayqueue;
    s->delayqueue = q->next;
    logit("mid", q->pdu->mid);
    if (coap_session_send_pdu(s, q->pdu) < 0) { coap_delete_node_lkd(q); break; }
    coap_delete_node_lkd(q);
  }
}
/* bad: the early return no longer covers every reason that skipped the reporting loop */
void bad_disconnect(coap_session_t *s, int reason) {
  coap_queue_t *q;
  if (reason != 4) {
    while (s->delayqueue) {
      q = s->delayqueue; s->delayqueue = q->next; q->next = NULL;
      if (q->pdu->type == CON) coap_handle_nack(s, q->pdu, reason, q->id);
      coap_delete_node_lkd(q);
    }
  }
  if (reason == 4 && s->state != 2) return;
  while (s->delayqueue) {
    q = s->delayqueue; s->delayqueue = q->next;
    coap_delete_node_lkd(q);                                         // EXPECT R-DELAYQ-NACK
  }
}
/* bad: only the log line sees the PDU */
void bad_free(coap_session_t *s) {
  coap_queue_t *q, *tmp;
  for (q = s->delayqueue; q && (tmp = q->next, 1); q = tmp) {
    logit("mid", q->pdu->mid);
    coap_delete_node_lkd(q);                                         // EXPECT R-DELAYQ-NACK
  }
}
