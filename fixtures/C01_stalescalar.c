// RUN: rules.fixture_entry.stalescalar
#include <stddef.h>
#include <stdint.h>
typedef struct coap_pdu_t { uint16_t max_opt; size_t used_size; uint8_t *token; int code; } coap_pdu_t;
extern size_t encode(uint8_t *p, unsigned delta, size_t len);
extern int is_request(const coap_pdu_t *p);
static size_t add_internal(coap_pdu_t *pdu, unsigned number, size_t len) {
  size_t n = encode(pdu->token + pdu->used_size, number - pdu->max_opt, len);
  pdu->used_size += n;
  pdu->max_opt = (uint16_t)number;
  return n;
}
size_t add_bad(coap_pdu_t *pdu, unsigned number, size_t len) {
  unsigned prev = pdu->max_opt;
  size_t n;
  if (number == 35 && is_request(pdu))
    add_internal(pdu, 16, 1);              /* implicit Hop-Limit */
  n = encode(pdu->token + pdu->used_size, number - prev, len);        // EXPECT R-FIXUP
  pdu->used_size += n;
  pdu->max_opt = (uint16_t)number;
  return n;
}
size_t add_good(coap_pdu_t *pdu, unsigned number, size_t len) {
  unsigned prev;
  size_t n;
  if (number == 35 && is_request(pdu))
    add_internal(pdu, 16, 1);
  prev = pdu->max_opt;
  n = encode(pdu->token + pdu->used_size, number - prev, len);
  pdu->used_size += n;
  pdu->max_opt = (uint16_t)number;
  return n;
}
