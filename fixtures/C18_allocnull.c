// RUN: rules.r_allocnull.run
#include <stdlib.h>
#include <string.h>
typedef struct s { int a; char *buf; struct s *next; } s_t;
void *coap_malloc_type(int t, size_t n) { return malloc(n); }
s_t *new_s(void) {                       /* a computed constructor */
  s_t *s = coap_malloc_type(1, sizeof(s_t));
  if (!s) return NULL;
  s->a = 0; s->buf = NULL; s->next = NULL;
  return s;
}
void touches(s_t *s) { s->a++; }         /* dereferences its parameter before any test */
void tolerant(s_t *s) { if (!s) return; s->a++; }
int bad_direct(void) { s_t *s = new_s(); s->a = 1; return 0; }                 // EXPECT R-ALLOC-NULL
int bad_memcpy(const char *src, size_t n) { char *p = coap_malloc_type(1, n); memcpy(p, src, n); free(p); return 1; } // EXPECT R-ALLOC-NULL
int bad_callee(void) { s_t *s = new_s(); touches(s); return 0; }               // EXPECT R-ALLOC-NULL
int bad_one_path(int c) {
  s_t *s = new_s();
  if (c) { if (!s) return 0; }
  s->a = 2;                                                                     // EXPECT R-ALLOC-NULL
  return 1;
}
int bad_field(s_t *o, size_t n) { o->buf = coap_malloc_type(1, n); o->buf[0] = 0; return 1; } // EXPECT R-ALLOC-NULL
int bad_copy(void) { s_t *s = new_s(); s_t *t = s; return t->a; }               // EXPECT R-ALLOC-NULL
/* good ones */
int good_test(void) { s_t *s = new_s(); if (!s) return 0; s->a = 1; return 1; }
int good_test2(void) { s_t *s; if ((s = new_s()) == NULL) return 0; s->a = 1; return 1; }
int good_test3(void) { s_t *s = new_s(); if (s) { s->a = 1; touches(s); } return 1; }
int good_tolerant(void) { s_t *s = new_s(); tolerant(s); return 0; }
int good_goto(size_t n) { char *p = coap_malloc_type(1, n); if (p == NULL) goto fail; memset(p, 0, n); free(p); return 1; fail: return 0; }
int good_field(s_t *o, size_t n) { o->buf = coap_malloc_type(1, n); if (!o->buf) return 0; touches(o); o->buf[0] = 0; return 1; }
s_t *good_return(void) { return new_s(); }
int good_and(size_t n) { char *p = coap_malloc_type(1, n); char *q = coap_malloc_type(1, n); if (!p || !q) { free(p); free(q); return 0; } p[0] = q[0] = 0; return 1; }
int good_loop(int k) { s_t *h = NULL; while (k--) { s_t *s = new_s(); if (!s) break; s->next = h; h = s; } return h != NULL; }
