// RUN: rules.r_ownlocal.run
#include <stdlib.h>
#include <string.h>
typedef struct coap_string_t { size_t length; unsigned char *s; } coap_string_t;
typedef struct res { coap_string_t *name; } res_t;
void *coap_malloc_type(int t, size_t n) { return malloc(n); }
void coap_free_type(int t, void *p) { free(p); }
coap_string_t *coap_new_string(size_t size) {
  coap_string_t *s = (coap_string_t *)coap_malloc_type(1, sizeof(coap_string_t) + size + 1);
  if (!s) return NULL;
  memset(s, 0, sizeof(coap_string_t));
  s->s = ((unsigned char *)s) + sizeof(coap_string_t);
  s->length = size;
  return s;
}
void coap_delete_string(coap_string_t *s) { coap_free_type(1, s); }
int reads(const coap_string_t *s) { return (int)s->length; }
void keeps(res_t *r, coap_string_t *s) { r->name = s; }
void release_cb(void *app) { coap_delete_string(app); }
int hand_over(void *app, void (*rel)(void *));

int good(int n) { coap_string_t *q = coap_new_string(n); if (!q) return 0; n = reads(q); coap_delete_string(q); return n; }
int good_keep(res_t *r) { coap_string_t *q = coap_new_string(3); if (!q) return 0; keeps(r, q); return 1; }
int good_handover(void) { coap_string_t *q = coap_new_string(3); if (!q) return 0; return hand_over(q, release_cb); }
coap_string_t *good_ret(void) { coap_string_t *q = coap_new_string(3); return q; }
int good_loop(int n) { int i, t = 0; for (i = 0; i < n; i++) { coap_string_t *q = coap_new_string(i); if (!q) continue; t += reads(q); coap_delete_string(q); } return t; }
int bad_early(int n) {                                                  // EXPECT R-OWN-LOCAL
  coap_string_t *q = coap_new_string(n);
  if (!q) return 0;
  if (reads(q) > 5) return -1;
  coap_delete_string(q);
  return 1;
}
int bad_loop(int n) {
  int i, t = 0;
  coap_string_t *q = NULL;
  for (i = 0; i < n; i++) {
    q = coap_new_string(i);                                             // EXPECT R-OWN-LOCAL
    t += q ? reads(q) : 0;
  }
  coap_delete_string(q);
  return t;
}
