// RUN: rules.fixture_entry.hashed
#include <stddef.h>
typedef struct coap_session_t { int ref; int proto; void *tls; struct coap_session_t *hh_next; } coap_session_t;
typedef struct coap_endpoint_t { coap_session_t *sessions; } coap_endpoint_t;
extern coap_session_t *coap_make_session(int proto, int type, coap_endpoint_t *ep);
extern void coap_session_free(coap_session_t *s);
extern void coap_session_release_lkd(coap_session_t *s);
extern int setup(coap_session_t *s);
extern void hash_add(coap_session_t **head, coap_session_t *s);
#define SESSIONS_ADD(e, obj) hash_add(&(e), (obj))
coap_session_t *good_new(coap_endpoint_t *ep) {
  coap_session_t *session = coap_make_session(1, 2, ep);
  if (!session) goto error;
  if (!setup(session)) goto error;
  SESSIONS_ADD(ep->sessions, session);
  return session;
error:
  if (session) {
    SESSIONS_ADD(ep->sessions, session);
    coap_session_free(session);
  }
  return NULL;
}
coap_session_t *bad_new(coap_endpoint_t *ep) {
  coap_session_t *session = NULL;
  session = coap_make_session(1, 2, ep);
  if (!session) return NULL;
  if (!setup(session)) {
    coap_session_release_lkd(session);                               // EXPECT R-SESS-HASHED
    return NULL;
  }
  SESSIONS_ADD(ep->sessions, session);
  return session;
}
