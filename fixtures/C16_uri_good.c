// RUN: rules.fixture_entry.uri
#include <stdint.h>
#include <stddef.h>
#include <ctype.h>
static int check_segment(const uint8_t *s, size_t length, size_t *segment_size) {
  size_t n = 0;
  while (length) {
    if (*s == '%') {
      if (length < 3 || !(isxdigit(s[1]) && isxdigit(s[2])))
        return -1;
      s += 2; length -= 2;
    }
    ++s; ++n; --length;
  }
  *segment_size = n;
  return 0;
}
static const uint8_t *strnchr(const uint8_t *s, size_t len, unsigned char c) {
  while (len && *s++ != c)
    --len;
  return len ? s : NULL;
}
static int dots(const uint8_t *s, size_t len) {
  uint8_t p;
  if (!len) return 0;
  p = *s;
  if (p == '%' && len >= 3) { if (s[1] == '2' && (s[2] == 'E' || s[2] == 'e')) { s += 2; len -= 2; p = '.'; } }
  if (p != '.') return 0;
  if (len == 1) return 1;
  s++; len--;
  p = *s;
  return p == '.' && len == 1 ? 2 : 0;
}
static int is_unescaped_in_path(const uint8_t c) { return (c >= 'a' && c <= 'z') || c == '-' || c == '&'; }
static int is_unescaped_in_query(const uint8_t c) { return (is_unescaped_in_path(c) && c != '&') || c == '/'; }
void coap_get_uri_path(const uint8_t *seg, size_t n, uint8_t *s, int first) {
  size_t i;
  if (!first) *s++ = '/';
  for (i = 0; i < n; i++) { if (is_unescaped_in_path(seg[i])) *s++ = seg[i]; else { *s++ = '%'; *s++ = 'X'; *s++ = 'X'; } }
}
void coap_get_query(const uint8_t *seg, size_t n, uint8_t *s, int first) {
  size_t i;
  if (!first) *s++ = '&';
  for (i = 0; i < n; i++) { if (is_unescaped_in_query(seg[i])) *s++ = seg[i]; else { *s++ = '%'; *s++ = 'X'; *s++ = 'X'; } }
}
int use(const uint8_t *s, size_t n, size_t *o) { return check_segment(s, n, o) + (strnchr(s, n, '/') != NULL) + dots(s, n); }
