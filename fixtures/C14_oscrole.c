// RUN: rules.fixture_entry.oscrole
#include <stddef.h>
#include <stdint.h>
typedef struct coap_bin_const_t { size_t length; const uint8_t *s; } coap_bin_const_t;
typedef struct cose_encrypt0_t { int alg; coap_bin_const_t partial_iv, key_id, nonce, external_aad, aad; } cose_encrypt0_t;
typedef struct oscore_association_t { coap_bin_const_t *token, *aad, *nonce, *partial_iv; } oscore_association_t;
extern coap_bin_const_t *coap_new_bin_const(const uint8_t *s, size_t n);
extern void *coap_malloc_type(int t, size_t n);
void cose_encrypt0_set_aad(cose_encrypt0_t *p, coap_bin_const_t *aad) { p->aad = *aad; }
void cose_encrypt0_set_nonce(cose_encrypt0_t *p, coap_bin_const_t *nonce) { p->nonce = *nonce; }
int new_assoc(oscore_association_t **out, coap_bin_const_t *aad, coap_bin_const_t *nonce, coap_bin_const_t *partial_iv) {
  oscore_association_t *a = coap_malloc_type(1, sizeof(*a));
  if (!a) return 0;
  a->aad = coap_new_bin_const(aad->s, aad->length);
  a->nonce = coap_new_bin_const(nonce->s, nonce->length);
  a->partial_iv = coap_new_bin_const(partial_iv->s, partial_iv->length);
  *out = a;
  return 1;
}
void refresh(oscore_association_t *a, cose_encrypt0_t *cose) {
  a->nonce = coap_new_bin_const(cose->nonce.s, cose->nonce.length);
  a->aad = coap_new_bin_const(cose->external_aad.s, cose->external_aad.length);     // EXPECT R-OSC-ROLE
  a->partial_iv = coap_new_bin_const(cose->partial_iv.s, cose->nonce.length);      // EXPECT R-OSC-ROLE
}
void respond(oscore_association_t *a, cose_encrypt0_t *cose, oscore_association_t **o) {
  cose_encrypt0_set_aad(cose, a->aad);
  cose_encrypt0_set_nonce(cose, a->partial_iv);                                    // EXPECT R-OSC-ROLE
  new_assoc(o, &cose->aad, &cose->nonce, &cose->partial_iv);
}
