// RUN: rules.r_file.run
#include <stdio.h>
#include <string.h>
int rd(FILE *fp, char *b) { return fread(b, 1, 4, fp) == 4; }
int wr(FILE *fp, const char *b) { return fwrite(b, 1, 4, fp) == 4; }

int append_then_read(const char *name) {
  char b[4];
  FILE *fp = fopen(name, "a");
  if (!fp) return 0;
  rd(fp, b);                           // EXPECT R-FILE-MODE
  fclose(fp);
  return 1;
}
int write_readonly(const char *name) {
  FILE *fp = fopen(name, "r");
  if (!fp) return 0;
  fputs("x", fp);                      // EXPECT R-FILE-MODE
  fclose(fp);
  return 1;
}
/* updater that truncates the real file */
int upd_trunc(const char *name, char *tmp) {
  char b[4];
  FILE *o = fopen(name, "w+");         // EXPECT R-PERSIST
  FILE *n = fopen(tmp, "w+");
  if (!o || !n) return 0;
  while (rd(o, b)) wr(n, b);
  if (fflush(n) == EOF) return 0;
  fclose(n); fclose(o);
  rename(tmp, name);
  return 1;
}
/* updater that ignores the flush result */
int upd_noflushtest(const char *name, char *tmp) {
  char b[4];
  FILE *o = fopen(name, "r");
  FILE *n = fopen(tmp, "w+");
  if (!o || !n) return 0;
  while (rd(o, b)) wr(n, b);
  fflush(n);
  fclose(n); fclose(o);
  rename(tmp, name);                   // EXPECT R-PERSIST
  return 1;
}
/* updater that renames with buffered data */
int upd_dirty(const char *name, char *tmp) {
  char b[4];
  FILE *o = fopen(name, "r");
  FILE *n = fopen(tmp, "w+");
  if (!o || !n) return 0;
  while (rd(o, b)) wr(n, b);
  rename(tmp, name);                   // EXPECT R-PERSIST
  fclose(n); fclose(o);
  return 1;
}
/* updater writing the real file */
int upd_inplace(const char *name, char *tmp) {
  FILE *o = fopen(name, "r+");
  FILE *n = fopen(tmp, "w+");
  if (!o || !n) return 0;
  wr(o, "abcd");                       // EXPECT R-PERSIST
  wr(n, "abcd");
  if (fflush(n) == EOF) return 0;
  fclose(n); fclose(o);
  rename(tmp, name);
  return 1;
}
/* failure arm of the flush test falls into the rename */
int upd_failarm(const char *name, char *tmp) {
  FILE *n = fopen(tmp, "w+");
  int bad = 0;
  if (!n) return 0;
  wr(n, "abcd");
  if (fflush(n) == EOF) bad = 1;
  fclose(n);
  rename(tmp, name);                   // EXPECT R-PERSIST
  return !bad;
}
