// RUN: rules.fixture_entry.replay
#include <stdint.h>
#include <stddef.h>
typedef struct oscore_recipient_ctx_t { uint64_t last_seq, sliding_window, rollback_last_seq, rollback_sliding_window; uint8_t initial_state, rollback_initial_state; } oscore_recipient_ctx_t;
typedef struct { int rfc8613_b_1_2; } osc_t;
typedef struct { uint64_t piv; } cose_encrypt0_t;
typedef struct pdu { int code; } coap_pdu_t;
uint8_t oscore_validate_sender_seq(oscore_recipient_ctx_t *ctx, cose_encrypt0_t *cose) {
  uint64_t incoming_seq = cose->piv;
  ctx->rollback_last_seq = ctx->last_seq;
  ctx->rollback_sliding_window = ctx->sliding_window;
  ctx->rollback_initial_state = ctx->initial_state;
  if (ctx->initial_state == 1) {
    ctx->initial_state = 0;
    ctx->sliding_window = 1;
    ctx->last_seq = incoming_seq;
  } else if (incoming_seq > ctx->last_seq) {
    uint64_t shift = incoming_seq - ctx->last_seq;
    ctx->sliding_window = shift > 63 ? 0 : ctx->sliding_window << shift;
    ctx->sliding_window |= 1;
    ctx->last_seq = incoming_seq;
  } else {
    uint64_t shift = ctx->last_seq - incoming_seq;
    if (shift > 63) return 0;
    if (ctx->sliding_window & (1ULL << shift)) return 0;
    ctx->sliding_window |= 1ULL << shift;
  }
  return 1;
}
void oscore_roll_back_seq(oscore_recipient_ctx_t *ctx) {
  ctx->sliding_window = ctx->rollback_sliding_window;
  ctx->last_seq = ctx->rollback_last_seq;
  ctx->initial_state = ctx->rollback_initial_state;
}
void oscore_add_recipient(oscore_recipient_ctx_t *r) { r->initial_state = 1; }
int cose_encrypt0_decrypt(cose_encrypt0_t *c, uint8_t *out, size_t n);
coap_pdu_t *coap_oscore_decrypt_pdu(oscore_recipient_ctx_t *rcp_ctx, osc_t *osc_ctx, cose_encrypt0_t *cose, coap_pdu_t *pdu, int coap_request) {
  int n;
  if (coap_request) {
    if (!oscore_validate_sender_seq(rcp_ctx, cose)) goto error;
  }
  n = cose_encrypt0_decrypt(cose, NULL, 0);
  if (n <= 0) { if (coap_request) oscore_roll_back_seq(rcp_ctx); goto error; }
  return pdu;
error:
  return NULL;
}
