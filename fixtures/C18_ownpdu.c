// RUN: rules.r_ownpdu.run
#include <stdlib.h>
typedef struct coap_pdu_t { int mid; int type; } coap_pdu_t;
typedef struct coap_queue_t { struct coap_queue_t *next; coap_pdu_t *pdu; int id; } coap_queue_t;
typedef struct coap_session_t { coap_queue_t *delayqueue; coap_pdu_t *partial_pdu; int state; } coap_session_t;
#define COAP_PDU_DELAYED -3
#define COAP_INVALID_MID -1
typedef enum { COAP_SEND_SKIP_PDU, COAP_SEND_INC_PDU } coap_send_pdu_t;
coap_pdu_t *coap_pdu_init(int type, int code, int mid, size_t size) { return calloc(1, sizeof(coap_pdu_t)); }
void coap_delete_pdu(coap_pdu_t *pdu) { free(pdu); }
int coap_add_option(coap_pdu_t *pdu, int n) { pdu->type = n; return n > 0; }
long coap_session_delay_pdu(coap_session_t *s, coap_pdu_t *pdu, coap_queue_t *node) {
  node = calloc(1, sizeof(*node));
  if (!node) return COAP_INVALID_MID;
  node->pdu = pdu; node->next = s->delayqueue; s->delayqueue = node;
  return COAP_PDU_DELAYED;
}
long net_write(coap_session_t *s, const coap_pdu_t *pdu);
long coap_send_pdu(coap_session_t *s, coap_pdu_t *pdu, coap_queue_t *node) {
  if (s->state != 4) return coap_session_delay_pdu(s, pdu, node);
  return net_write(s, pdu);
}
int coap_send_internal(coap_session_t *s, coap_pdu_t *pdu) {
  long n = coap_send_pdu(s, pdu, NULL);
  if (n == COAP_PDU_DELAYED) return pdu->mid;
  if (n < 0) goto error;
  { int id = pdu->mid; coap_delete_pdu(pdu); return id; }
error:
  coap_delete_pdu(pdu);
  return COAP_INVALID_MID;
}
/* a creator (computed) */
coap_pdu_t *make_reply(int mid) { coap_pdu_t *p = coap_pdu_init(2, 0, mid, 0); if (!p) return NULL; if (!coap_add_option(p, 1)) { coap_delete_pdu(p); return NULL; } return p; }

int good_send(coap_session_t *s) { coap_pdu_t *p = make_reply(1); if (!p) return 0; return coap_send_internal(s, p); }
int good_err(coap_session_t *s, int k) {
  coap_pdu_t *p = coap_pdu_init(0, 0, 0, 0);
  if (!p) return 0;
  if (!coap_add_option(p, k)) goto fail;
  if (coap_send_internal(s, p) == COAP_INVALID_MID) return 0;
  return 1;
fail:
  coap_delete_pdu(p);
  return 0;
}
void good_store(coap_session_t *s) { coap_pdu_t *p = coap_pdu_init(0, 0, 0, 0); s->partial_pdu = p; }
int good_alias(coap_session_t *s, int enc) {
  coap_pdu_t *p = coap_pdu_init(0, 0, 0, 0), *q;
  if (!p) return 0;
  if (enc) { q = make_reply(2); if (!q) goto error; coap_delete_pdu(p); p = q; }
  return coap_send_internal(s, p);
error:
  coap_delete_pdu(p);
  return -1;
}
int good_cond(coap_session_t *s, coap_pdu_t *resp, int n) {
  coap_pdu_t *out = resp; int i;
  for (i = 0; i < n; i++) {
    if (i + 1 < n) { out = coap_pdu_init(0, 0, 0, 0); if (!out) goto bad; } else out = resp;
    if (!coap_add_option(out, i)) goto bad;
    if (i + 1 < n) { coap_send_internal(s, out); out = resp; }
  }
  return 1;
bad:
  if (out != resp) coap_delete_pdu(out);
  return 0;
}
int bad_leak(coap_session_t *s, int k) {                                     // EXPECT R-OWN-PDU
  coap_pdu_t *p = coap_pdu_init(0, 0, 0, 0);
  if (!p) return 0;
  if (!coap_add_option(p, k)) return 0;
  return coap_send_internal(s, p);
}
int bad_double(coap_session_t *s) {
  coap_pdu_t *p = make_reply(1);
  if (!p) return 0;
  if (coap_send_internal(s, p) == COAP_INVALID_MID)
    coap_delete_pdu(p);                                                        // EXPECT R-OWN-PDU
  return 1;
}
int bad_uaf(coap_session_t *s) {
  coap_pdu_t *p = make_reply(1);
  if (!p) return 0;
  coap_delete_pdu(p);
  return p->mid;                                                               // EXPECT R-OWN-PDU
}
int bad_overwrite(void) {
  coap_pdu_t *p = coap_pdu_init(0, 0, 0, 0);
  if (!p) return 0;
  p = coap_pdu_init(1, 0, 0, 0);                                               // EXPECT R-OWN-PDU
  coap_delete_pdu(p);
  return 1;
}
int bad_delayed_then_free(coap_session_t *s) {
  coap_pdu_t *p = make_reply(1);
  if (!p) return 0;
  if (coap_send_pdu(s, p, NULL) == COAP_PDU_DELAYED) {
    coap_delete_pdu(p);                                                        // EXPECT R-OWN-PDU
    return 0;
  }
  coap_delete_pdu(p);
  return 1;
}
