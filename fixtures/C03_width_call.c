// RUN: rules.fixture_entry.width_call
#include <stdint.h>
#include <stddef.h>
typedef struct pdu_t { uint16_t max_opt; } pdu_t;
static int limit16(pdu_t *p, uint16_t len) { return p->max_opt == 4 ? len <= 8 : 1; }
static int limit32(pdu_t *p, uint32_t len) { return p->max_opt == 4 ? len <= 8 : 1; }
extern uint32_t opt_length(const uint8_t *o);
int good(pdu_t *p, const uint8_t *o) {
  const uint32_t len = opt_length(o);
  return limit32(p, len);
}
int good_clamped(pdu_t *p, const uint8_t *o) {
  uint32_t len = opt_length(o);
  if (len > 65535) return 0;
  return limit16(p, len);
}
int bad(pdu_t *p, const uint8_t *o) {
  const uint32_t len = opt_length(o);
  return limit16(p, len);                                            // EXPECT R-WIDTH
}
