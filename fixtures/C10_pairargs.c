// RUN: rules.fixture_entry.pairargs
#include <stddef.h>
#include <string.h>
typedef struct coap_bin_const_t { size_t length; const unsigned char *s; } coap_bin_const_t;
typedef struct pdu_t { coap_bin_const_t actual_token; unsigned char *token; } pdu_t;
extern int add_token(pdu_t *p, size_t len, const unsigned char *data);
extern void *alloc(size_t n);
extern void logit(const char *fmt, size_t a, size_t b);
int good(pdu_t *rsp, const pdu_t *req) { return add_token(rsp, req->actual_token.length, req->actual_token.s); }
int good_cmp(const coap_bin_const_t *a, const coap_bin_const_t *b) { return a->length == b->length && memcmp(a->s, b->s, a->length) == 0; }
void *good_alloc(const coap_bin_const_t *a) { logit("len %zu max %zu", a->length, 8); return alloc(a->length); }
int good_alias(pdu_t *rsp) { unsigned char buf[8]; coap_bin_const_t t; t.s = buf; t.length = 4; return add_token(rsp, t.length, buf); }
int bad(pdu_t *rsp, const pdu_t *req) {
  return add_token(rsp, req->actual_token.length, req->token);       // EXPECT R-PAIR-ARGS
}
int bad_cmp(const coap_bin_const_t *a, const coap_bin_const_t *b, const unsigned char *raw) {
  (void)b;
  return memcmp(raw, raw + 1, a->length);                            // EXPECT R-PAIR-ARGS
}
