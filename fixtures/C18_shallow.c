// RUN: rules.fixture_entry.shallow
#include <stddef.h>
#include <string.h>
#include <stdint.h>
typedef struct pdu { uint8_t *token; uint8_t *data; size_t used, hdr; } pdu_t;
typedef struct holder { pdu_t pdu; uint8_t *app; } holder_t;
extern void *coap_malloc_type(int t, size_t n);
extern void coap_free_type(int t, void *p);
void holder_delete(holder_t *h) {
  if (!h) return;
  if (h->pdu.token) coap_free_type(1, h->pdu.token - h->pdu.hdr);
  coap_free_type(1, h->app);
  coap_free_type(2, h);
}
holder_t *good(const pdu_t *pdu) {
  holder_t *h = coap_malloc_type(2, sizeof(*h));
  if (!h) return NULL;
  memset(h, 0, sizeof(*h));
  memcpy(&h->pdu, pdu, sizeof(h->pdu));
  h->pdu.token = coap_malloc_type(1, pdu->used + pdu->hdr);
  if (!h->pdu.token) { holder_delete(h); return NULL; }
  h->pdu.token += h->pdu.hdr;
  h->app = coap_malloc_type(1, 8);
  if (!h->app) { holder_delete(h); return NULL; }
  return h;
}
holder_t *bad(const pdu_t *pdu) {
  holder_t *h = coap_malloc_type(2, sizeof(*h));
  if (!h) return NULL;
  memset(h, 0, sizeof(*h));
  memcpy(&h->pdu, pdu, sizeof(h->pdu));
  h->app = coap_malloc_type(1, 8);
  if (!h->app) { holder_delete(h); return NULL; }                        // EXPECT R-SHALLOW-ALIAS
  h->pdu.token = coap_malloc_type(1, pdu->used + pdu->hdr);
  if (!h->pdu.token) { holder_delete(h); return NULL; }
  return h;
}
