// RUN: rules.fixture_entry.replay
#include <stdint.h>
#include <stddef.h>
typedef struct oscore_recipient_ctx_t { uint64_t last_seq, sliding_window, rollback_last_seq, rollback_sliding_window; uint8_t initial_state; } oscore_recipient_ctx_t;
typedef struct { int rfc8613_b_1_2; } osc_t;
typedef struct { uint64_t piv; } cose_encrypt0_t;
typedef struct pdu { int code; } coap_pdu_t;
uint8_t oscore_validate_sender_seq(oscore_recipient_ctx_t *ctx, cose_encrypt0_t *cose) {
  uint64_t incoming_seq = cose->piv;
  ctx->rollback_last_seq = ctx->last_seq;
  if (ctx->initial_state == 1) {
    ctx->initial_state = 0;                              // EXPECT R-REPLAY-RB
    ctx->sliding_window = 1;                             // EXPECT R-REPLAY-RB
    ctx->last_seq = incoming_seq;
  } else if (incoming_seq > ctx->last_seq) {
    uint64_t shift = incoming_seq - ctx->last_seq;
    ctx->sliding_window = ctx->sliding_window << shift;  // EXPECT R-REPLAY-RB EXPECT R-RANGE
    ctx->last_seq = incoming_seq;
  } else return 0;
  return 1;
}
void oscore_roll_back_seq(oscore_recipient_ctx_t *ctx) {   // EXPECT R-REPLAY-RB
  if (ctx->rollback_last_seq != 0) { ctx->last_seq = ctx->rollback_last_seq; ctx->rollback_last_seq = 0; }
}
void oscore_add_recipient(oscore_recipient_ctx_t *r) { r->initial_state = 1; }
int cose_encrypt0_decrypt(cose_encrypt0_t *c, uint8_t *out, size_t n);
coap_pdu_t *coap_oscore_decrypt_pdu(oscore_recipient_ctx_t *rcp_ctx, osc_t *osc_ctx, cose_encrypt0_t *cose, coap_pdu_t *pdu, int coap_request) {
  int n;
  if (coap_request) {
    if (rcp_ctx->initial_state == 0 && !oscore_validate_sender_seq(rcp_ctx, cose)) goto error;
    rcp_ctx->last_seq = cose->piv;                        // EXPECT R-REPLAY-OWN
  }
  n = cose_encrypt0_decrypt(cose, NULL, 0);
  if (n <= 0) goto error;                                 /* no roll back */
  return pdu;                                             // EXPECT R-REPLAY-MUST
error:
  return NULL;                                            // EXPECT R-REPLAY-RB
}
