// RUN: rules.fixture_entry.lockowner
#include <pthread.h>
typedef struct { pthread_mutex_t mutex; pthread_t pid; unsigned in_callback; volatile unsigned lock_count; } coap_lock_t;
coap_lock_t global_lock;
#ifdef BAD
#endif
void coap_lock_unlock_func(void) {
  if (global_lock.in_callback) {
    global_lock.lock_count--;
  } else {
    pthread_mutex_unlock(&global_lock.mutex);
    global_lock.pid = 0;                                             // EXPECT R-LOCK-OWNER
  }
}
int coap_lock_lock_func(void) {
  if (global_lock.in_callback && pthread_self() == global_lock.pid) {
    global_lock.lock_count++;
    return 1;
  }
  if (global_lock.in_callback) {
    global_lock.lock_count++;                                        // EXPECT R-LOCK-OWNER
  }
  if (pthread_mutex_trylock(&global_lock.mutex)) {
    global_lock.in_callback = 0;                                     // EXPECT R-LOCK-OWNER
    pthread_mutex_lock(&global_lock.mutex);
  }
  global_lock.pid = pthread_self();
  return 1;
}
