// RUN: rules.fixture_entry.codec
#include <stdint.h>
#include <stddef.h>
typedef uint8_t coap_opt_t;
size_t coap_opt_setheader(coap_opt_t *opt, size_t maxlen, uint16_t delta, size_t length) {   // EXPECT R-CODEC-TAB
  size_t skip = 0;
  if (delta < 13) opt[0] = (coap_opt_t)(delta << 4);
  else if (delta <= 269) { opt[0] = 0xd0; opt[++skip] = (coap_opt_t)(delta - 13); }
  else { opt[0] = 0xe0; opt[++skip] = ((delta - 269) >> 8) & 0xff; opt[++skip] = (delta - 269) & 0xff; }   // EXPECT R-CODEC-TAB
  if (length < 13) opt[0] |= length & 0x0f;
  else if (length < 269) { opt[0] |= 0x0d; opt[++skip] = (coap_opt_t)(length - 14); }   // EXPECT R-CODEC-TAB
  else { opt[0] |= 0x0e; opt[++skip] = ((length - 269) >> 8) & 0xff; opt[++skip] = (length - 269) & 0xff; }
  return skip + 1;
}
uint32_t coap_opt_length(const coap_opt_t *opt) {
  uint32_t length = *opt & 0x0f;
  ++opt;
  switch (length) {
  case 0x0f: return 0;
  case 0x0e: length = (*opt++ << 8) + 13;   // EXPECT R-CODEC-TAB
  /* fall through */
  case 0x0d: length += *opt++; break;
  default: ;
  }
  return length;
}
