// RUN: rules.fixture_entry.parsegate
#include <stdint.h>
#include <stddef.h>
typedef struct { uint16_t delta; size_t length; const uint8_t *value; } coap_option_t;
typedef struct coap_pdu_t { uint8_t *token; uint32_t e_token_length; size_t alloc_size, used_size; uint8_t hdr_size, code; } coap_pdu_t;
int coap_pdu_parse(int proto, const uint8_t *data, size_t length, coap_pdu_t *pdu);
int coap_pdu_parse_opt(coap_pdu_t *pdu);
void coap_dispatch(void *ctx, void *session, coap_pdu_t *pdu);
size_t coap_opt_parse(const uint8_t *opt, size_t length, coap_option_t *result) {
  if (length < 1) return 0;
  result->delta = (*opt & 0xf0) >> 4;
  result->length = *opt & 0x0f;   // EXPECT R-PARSE-GATE
  switch (result->delta) {
  case 15: return 0;
  default: ;
  }
  switch (result->length) {
  case 15: break;                                   // EXPECT R-PARSE-GATE
  default: ;
  }
  if (length < result->length) return 0;
  return 1 + result->length;
}
int coap_pdu_parse_header(coap_pdu_t *pdu, int proto) {  // EXPECT R-PARSE-GATE
  uint8_t *hdr = pdu->token - pdu->hdr_size;
  uint8_t e_token_length = hdr[0] & 0x0f;   // EXPECT R-PARSE-GATE
  pdu->e_token_length = e_token_length;
  if (pdu->e_token_length > pdu->alloc_size) { pdu->e_token_length = 0; return 0; }
  return 1;
}
void rx(void *ctx, void *s, coap_pdu_t *pdu, const uint8_t *m, size_t n) {
  if (!coap_pdu_parse(1, m, n, pdu)) { /* log only */ }
  coap_dispatch(ctx, s, pdu);                        // EXPECT R-PARSE-GATE
}
void rx2(void *ctx, void *s, coap_pdu_t *pdu) {
  if (coap_pdu_parse_header(pdu, 1)) { coap_pdu_parse_opt(pdu); coap_dispatch(ctx, s, pdu); }  // EXPECT R-PARSE-GATE
}
