// RUN: rules.fixture_entry.reply
typedef struct pdu { int type, code; } coap_pdu_t;
typedef struct s coap_session_t;
int coap_send_internal(coap_session_t *s, coap_pdu_t *p);
int coap_send_rst_lkd(coap_session_t *s, const coap_pdu_t *p);
int coap_send_ack_lkd(coap_session_t *s, const coap_pdu_t *p);
coap_pdu_t *mk(const coap_pdu_t *req, int code);
void handle_request(void *ctx, coap_session_t *session, coap_pdu_t *pdu) {
  coap_pdu_t *response = mk(pdu, 205);
  if (pdu->type == 0 && pdu->code == 99) coap_send_ack_lkd(session, pdu);     /* early empty ACK */
  if (!response) return;
  coap_send_internal(session, response);
  if (pdu->code == 7) coap_send_rst_lkd(session, pdu);                          // EXPECT R-REPLY-ONCE
}
void coap_dispatch(void *ctx, coap_session_t *session, coap_pdu_t *pdu) {
  if (pdu->code > 200) {
    coap_pdu_t *r = mk(pdu, 402);
    if (r) coap_send_internal(session, r);
    if (pdu->type == 1) goto cleanup;
  }
  handle_request(ctx, session, pdu);                                            // EXPECT R-REPLY-ONCE
cleanup:
  return;
}
