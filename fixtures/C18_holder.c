// RUN: rules.fixture_entry.holder
#include <stddef.h>
typedef struct coap_bin_const_t { size_t length; const unsigned char *s; } coap_bin_const_t;
typedef struct snd { coap_bin_const_t *sender_key; } snd_t;
typedef struct ctxt { snd_t *sender_context; coap_bin_const_t *common_iv; coap_bin_const_t *borrowed; } ctxt_t;
extern void *coap_malloc_type(int t, size_t n);
extern void coap_free_type(int t, void *p);
extern coap_bin_const_t *coap_new_bin_const(const unsigned char *s, size_t n);
extern void coap_delete_bin_const(coap_bin_const_t *b);
extern void enter(ctxt_t *c);
static coap_bin_const_t *build_key(int n) { return coap_new_bin_const((const unsigned char *)"k", (size_t)n); }
ctxt_t *derive_bad(coap_bin_const_t *conf_id) {
  ctxt_t *c = coap_malloc_type(1, sizeof(*c));
  snd_t *s = NULL;
  if (!c) goto error;
  s = coap_malloc_type(2, sizeof(*s));
  if (!s) goto error;
  c->sender_context = s;
  c->borrowed = conf_id;
  s->sender_key = build_key(16);
  if (!s->sender_key) goto error;
  c->common_iv = build_key(13);
  if (!c->common_iv) goto error;
  enter(c);
  return c;
error:
  coap_free_type(1, c);
  coap_free_type(2, s);                                                   // EXPECT R-HOLDER-LEAK
  return NULL;
}
ctxt_t *derive_good(coap_bin_const_t *conf_id) {
  ctxt_t *c = coap_malloc_type(1, sizeof(*c));
  snd_t *s = NULL;
  if (!c) goto error;
  s = coap_malloc_type(2, sizeof(*s));
  if (!s) goto error;
  c->sender_context = s;
  c->borrowed = conf_id;
  s->sender_key = build_key(16);
  if (!s->sender_key) goto error;
  c->common_iv = build_key(13);
  if (!c->common_iv) goto error;
  return c;
error:
  if (c) coap_delete_bin_const(c->common_iv);
  if (s) coap_delete_bin_const(s->sender_key);
  coap_free_type(1, c);
  coap_free_type(2, s);
  return NULL;
}
