// RUN: rules.r_lock.run
#include <assert.h>
#include <pthread.h>
#include <sys/select.h>
#include <stddef.h>
#define COAP_API __attribute__((deprecated))
typedef struct { pthread_mutex_t mutex; pthread_t pid; unsigned in_callback; unsigned lock_count; } coap_lock_t;
coap_lock_t global_lock;
int coap_lock_lock_func(void) { return 1; }
void coap_lock_unlock_func(void) { }
#define coap_lock_lock(c,failed) do { if (!coap_lock_lock_func()) { failed; } } while (0)
#define coap_lock_unlock(c) do { assert(c); coap_lock_unlock_func(); } while (0)
#define coap_lock_check_locked(c) do { assert(pthread_self() == global_lock.pid); } while (0)
#define coap_lock_callback(c,func) do { coap_lock_check_locked(c); global_lock.in_callback++; func; global_lock.in_callback--; } while (0)
#define coap_lock_callback_bad(c,func) do { coap_lock_check_locked(c); global_lock.in_callback++; global_lock.in_callback++; func; global_lock.in_callback--; } while (0)
#define coap_lock_callback_release(c,func,failed) do { coap_lock_check_locked(c); coap_lock_unlock(c); func; coap_lock_lock(c,failed); } while (0)
typedef struct ctx { void (*nack_handler)(int); void (*response_handler)(int); int x; } ctx_t;

void work_lkd(ctx_t *c) { coap_lock_check_locked(c); c->x++; }       // EXPECT R-LOCK-CALL

COAP_API void good_api(ctx_t *c) { coap_lock_lock(c, return); work_lkd(c); coap_lock_unlock(c); }

COAP_API void leaks_lock(ctx_t *c) {                                    // EXPECT R-LOCK-BAL
  coap_lock_lock(c, return);
  if (c->x) return;
  work_lkd(c);
  coap_lock_unlock(c);
}
COAP_API void unlocked_call(ctx_t *c) {
  work_lkd(c);
  coap_lock_lock(c, return);
  coap_lock_unlock(c);
}
void cb_unbalanced_lkd(ctx_t *c) {                                      // EXPECT R-LOCK-CB
  coap_lock_callback_bad(c, c->nack_handler(1));
}
void cb_direct_lkd(ctx_t *c) {
  coap_lock_check_locked(c);
  c->response_handler(1);                                                // EXPECT R-LOCK-CB
}
void calls_wrapper_lkd(ctx_t *c) {
  coap_lock_check_locked(c);
  good_api(c);                                                           // EXPECT R-LOCK-CALL
}
void waits_lkd(ctx_t *c, struct timeval *tv) {
  coap_lock_check_locked(c);
  select(1, NULL, NULL, NULL, tv);                                       // EXPECT R-LOCK-WAIT
}
COAP_API void api_cb(ctx_t *c) { coap_lock_lock(c, return); cb_unbalanced_lkd(c); cb_direct_lkd(c); calls_wrapper_lkd(c); waits_lkd(c, NULL); coap_lock_unlock(c); }
COAP_API void double_unlock(ctx_t *c) {
  coap_lock_lock(c, return);
  coap_lock_unlock(c);
  coap_lock_unlock(c);                                                   // EXPECT R-LOCK-BAL
}
