// RUN: rules.fixture_entry.countcap
#include <stdint.h>
#include <string.h>
#define CNT 4
typedef struct { uint32_t used; struct { uint32_t begin, end; } range[CNT]; } rblock_t;
typedef struct { uint32_t n; uint32_t slot[8]; } tab_t;
int add_good(rblock_t *r, uint32_t num) {
  uint32_t i;
  for (i = 0; i < r->used; i++) {
    if (num < r->range[i].begin) {
      if (r->used == CNT - 1) return 0;
      memmove(&r->range[i + 1], &r->range[i], (r->used - i) * sizeof(r->range[0]));
      r->range[i].begin = r->range[i].end = num;
      r->used++;
      return 1;
    }
  }
  if (r->used == CNT - 1) return 0;
  r->range[i].begin = r->range[i].end = num;
  r->used++;
  return 1;
}
int put(tab_t *t, uint32_t v) {
  uint32_t i;
  for (i = 0; i < t->n; i++) if (t->slot[i] == v) return 1;
  t->slot[t->n] = v;
  t->n++;                                                                // EXPECT R-COUNT-CAP
  return 1;
}
void reset(tab_t *t) { t->n = 0; }
