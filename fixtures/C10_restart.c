// RUN: rules.fixture_entry.restart
#include <stddef.h>
typedef struct it_t { int number; int bad; } it_t;
typedef struct pdu_t { size_t used_size; } pdu_t;
extern void opt_iterator_init(pdu_t *p, it_t *it, int f);
extern int opt_next(it_t *it);
extern int fix(pdu_t *p, int number);
int good(pdu_t *p) {
  it_t it;
  int last = -1;
  opt_iterator_init(p, &it, 0);
  while (opt_next(&it)) {
    if (it.number == last) return 0;
    last = it.number;
    if (fix(p, it.number)) {
      opt_iterator_init(p, &it, 0);
      last = -1;
      continue;
    }
  }
  return 1;
}
int bad(pdu_t *p) {
  it_t it;
  int last = -1;
  opt_iterator_init(p, &it, 0);
  while (opt_next(&it)) {
    if (it.number == last) return 0;
    last = it.number;
    if (fix(p, it.number)) {
      opt_iterator_init(p, &it, 0);                                  // EXPECT R-RESTART-STATE
      continue;
    }
  }
  return 1;
}
