// RUN: rules.fixture_entry.fixup
#include <stdint.h>
#include <stddef.h>
#include <string.h>
typedef uint8_t coap_opt_t;
typedef struct coap_pdu_t { uint8_t *token; uint8_t *data; size_t used_size, alloc_size; uint32_t e_token_length; } coap_pdu_t;
typedef struct { size_t length; coap_opt_t *next_option; } coap_opt_iterator_t;
int coap_pdu_resize(coap_pdu_t *pdu, size_t n);
int coap_pdu_check_resize(coap_pdu_t *pdu, size_t n) { if (n > pdu->alloc_size) return coap_pdu_resize(pdu, n); return 1; }
coap_opt_t *coap_check_option(const coap_pdu_t *pdu, int number, coap_opt_iterator_t *oi);
size_t coap_opt_encode(coap_opt_t *opt, size_t n, int delta, const uint8_t *v, size_t len);
size_t coap_update_option(coap_pdu_t *pdu, int number, size_t len, const uint8_t *data) {
  coap_opt_iterator_t oi;
  coap_opt_t *option = coap_check_option(pdu, number, &oi);
  size_t new_length = len + 1, old_length = 2;
  if (!option) return 0;
  if (new_length > old_length) {
    if (!coap_pdu_check_resize(pdu, pdu->used_size + new_length - old_length)) return 0;
  }
  if (new_length != old_length)
    memmove(&option[new_length], &option[old_length], pdu->used_size - (option - pdu->token) - old_length);   // EXPECT R-FIXUP
  if (new_length >= old_length) {
    pdu->used_size += new_length - old_length;
    if (pdu->data) pdu->data += new_length - old_length;
  } else {
    pdu->used_size -= old_length - new_length;       // EXPECT R-FIXUP
  }
  return 1;
}
int coap_remove_option(coap_pdu_t *pdu, int number) {
  coap_opt_iterator_t oi;
  coap_opt_t *option = coap_check_option(pdu, number, &oi), *next_option;
  if (!option) return 0;
  next_option = option + 3;
  memmove(option, next_option, pdu->used_size - (next_option - pdu->token));
  pdu->used_size -= next_option - option;
  if (pdu->data) pdu->data -= 3;                      // EXPECT R-FIXUP
  return 1;
}
