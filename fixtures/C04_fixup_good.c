// RUN: rules.fixture_entry.fixup
#include <stdint.h>
#include <stddef.h>
#include <string.h>
typedef uint8_t coap_opt_t;
typedef struct coap_pdu_t { uint8_t *token; uint8_t *data; size_t used_size, alloc_size; uint32_t e_token_length; } coap_pdu_t;
typedef struct { size_t length; coap_opt_t *next_option; } coap_opt_iterator_t;
int coap_pdu_resize(coap_pdu_t *pdu, size_t n);
int coap_pdu_check_resize(coap_pdu_t *pdu, size_t n) { if (n > pdu->alloc_size) return coap_pdu_resize(pdu, n); return 1; }
coap_opt_t *coap_check_option(const coap_pdu_t *pdu, int number, coap_opt_iterator_t *oi);
size_t coap_update_option(coap_pdu_t *pdu, int number, size_t len, const uint8_t *data) {
  coap_opt_iterator_t oi;
  coap_opt_t *option = coap_check_option(pdu, number, &oi);
  size_t new_length = len + 1, old_length = 2;
  if (!option) return 0;
  if (new_length > old_length) {
    if (!coap_pdu_check_resize(pdu, pdu->used_size + new_length - old_length)) return 0;
    option = coap_check_option(pdu, number, &oi);
  }
  if (new_length != old_length)
    memmove(&option[new_length], &option[old_length], pdu->used_size - (option - pdu->token) - old_length);
  if (new_length >= old_length) {
    pdu->used_size += new_length - old_length;
    if (pdu->data) pdu->data += new_length - old_length;
  } else {
    pdu->used_size -= old_length - new_length;
    if (pdu->data) pdu->data -= old_length - new_length;
  }
  return 1;
}
int coap_update_token(coap_pdu_t *pdu, size_t len, const uint8_t *data) {
  size_t bias = len < 13 ? 0 : 1;
  if ((len + bias) > pdu->e_token_length) {
    if (!coap_pdu_check_resize(pdu, pdu->used_size + (len + bias) - pdu->e_token_length)) return 0;
    memmove(&pdu->token[(len + bias) - pdu->e_token_length], pdu->token, pdu->used_size);
    pdu->used_size += len + bias - pdu->e_token_length;
    if (pdu->data) { pdu->data += (len + bias) - pdu->e_token_length; }
  }
  pdu->e_token_length = (uint32_t)(len + bias);
  return 1;
}
/* pointer into another PDU is not invalidated */
int other(coap_pdu_t *a, coap_pdu_t *b) {
  coap_opt_iterator_t oi;
  coap_opt_t *o = coap_check_option(a, 6, &oi);
  if (!coap_pdu_check_resize(b, 100)) return 0;
  return o ? *o : 0;
}
