// RUN: rules.fixture_entry.sizefill
#include <stddef.h>
extern unsigned char *new_string(size_t n);
static int plain(const unsigned char c) { return (c >= 'a' && c <= 'z') || c == '-'; }
static const unsigned char hex[] = "0123456789ABCDEF";
unsigned char *good(const unsigned char *seg, size_t n) {
  size_t len = 0, i; unsigned char *out, *s;
  for (i = 0; i < n; i++) { if (plain(seg[i])) len += 1; else len += 3; }
  out = s = new_string(len);
  if (!out) return NULL;
  for (i = 0; i < n; i++) {
    if ((seg[i] >= 'a' && seg[i] <= 'z') || seg[i] == '-') { *s++ = seg[i]; }
    else { *s++ = '%'; *s++ = hex[seg[i] >> 4]; *s++ = hex[seg[i] & 15]; }
  }
  return out;
}
unsigned char *bad(const unsigned char *seg, size_t n) {
  size_t len = 0, i; unsigned char *out, *s;
  for (i = 0; i < n; i++) { if (plain(seg[i])) len += 1; else len += 3; }
  out = s = new_string(len);
  if (!out) return NULL;
  for (i = 0; i < n; i++) {                                          // EXPECT R-SIZE-FILL
    if (plain(seg[i]) && seg[i] != '-') { *s++ = seg[i]; }
    else { *s++ = '%'; *s++ = hex[seg[i] >> 4]; *s++ = hex[seg[i] & 15]; }
  }
  return out;
}
