// RUN: rules.fixture_entry.writecap
#include <stddef.h>
#include <string.h>
typedef struct { size_t length; const unsigned char *s; } bin_t;
typedef struct { bin_t piv; bin_t ctx; bin_t kid; } cose_t;
/* good: total computed and compared before anything is written */
size_t good_total(unsigned char *buf, size_t buf_len, const cose_t *c) {
  size_t need = 1 + c->piv.length + c->ctx.length;
  size_t off = 1;
  if (need > buf_len) return 0;
  memcpy(&buf[off], c->piv.s, c->piv.length); off += c->piv.length;
  memcpy(&buf[off], c->ctx.s, c->ctx.length); off += c->ctx.length;
  return off;
}
/* good: clamp */
size_t good_clamp(unsigned char *buf, size_t len, const bin_t *b) {
  size_t n = b->length;
  if (n > len) n = len;
  memcpy(buf, b->s, n);
  return n;
}
/* good: size is a min() against the capacity */
size_t good_min(unsigned char *buf, size_t len, const bin_t *b) {
  memcpy(buf, b->s, b->length < len ? b->length : len);
  return len;
}
/* bad: the capacity only feeds a remaining-space counter nobody reads */
size_t bad_counter(unsigned char *buf, size_t buf_len, const cose_t *c) {
  size_t rem = buf_len, off = 1;
  if (c->piv.length > 5) return 0;
  memcpy(&buf[off], c->piv.s, c->piv.length);                        // EXPECT R-WRITE-CAP
  off += c->piv.length; rem -= c->piv.length;
  memcpy(&buf[off], c->kid.s, c->kid.length);                        // EXPECT R-WRITE-CAP
  rem -= c->kid.length;
  return off + c->kid.length;
}
/* bad: one of two strings is compared, the other is not */
size_t bad_partial(unsigned char *buf, size_t buf_len, const cose_t *c) {
  if (c->piv.length > buf_len) return 0;
  memcpy(buf, c->piv.s, c->piv.length);
  memcpy(buf + c->piv.length, c->kid.s, c->kid.length);              // EXPECT R-WRITE-CAP
  return 1;
}
void user(const cose_t *c, const bin_t *b) {
  unsigned char a[48], d[16], e[16], g[48], h[48];
  good_total(a, sizeof(a), c);
  good_clamp(d, sizeof(d), b);
  good_min(e, sizeof(e), b);
  bad_counter(g, sizeof(g), c);
  bad_partial(h, sizeof(h), c);
}
