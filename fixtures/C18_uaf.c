// RUN: rules.fixture_entry.uaf
#include <stddef.h>
typedef struct xmit { struct xmit *next; void *data; } xmit_t;
extern void coap_free_type(int t, void *p);
extern xmit_t *find(int k);
extern int fill(xmit_t **out);
extern int step(int k);
void delete_xmit(int unused, xmit_t *x) { if (!x) return; coap_free_type(1, x->data); coap_free_type(2, x); }
void release_ref(xmit_t *x) { if (x && x->next == NULL) coap_free_type(2, x); }     /* conditional: not a destructor */
int bad(int k) {
  xmit_t *x = find(k);
  if (x) {
    delete_xmit(0, x);
  }
  if (!step(k)) goto fail;
  return 1;
fail:
  if (x) delete_xmit(0, x);                                             // EXPECT R-USE-AFTER-DESTROY
  return 0;
}
int good(int k) {
  xmit_t *x = find(k);
  if (x) {
    delete_xmit(0, x);
    x = NULL;
  }
  if (!step(k)) goto fail;
  return 1;
fail:
  if (x) delete_xmit(0, x);
  return 0;
}
int loop_good(void) {
  xmit_t *x = NULL;
  while (fill(&x)) {
    step(1);
    delete_xmit(0, x);
  }
  return 0;
}
int ref_good(xmit_t *y) {
  release_ref(y);
  return y->data != NULL;
}
