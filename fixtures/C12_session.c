// RUN: rules.r_session_fixture.run
#include <stdlib.h>
typedef struct coap_context_t coap_context_t;
typedef struct coap_session_t { int ref; int type; coap_context_t *context; } coap_session_t;
typedef struct coap_queue_t { struct coap_queue_t *next; coap_session_t *session; int id; } coap_queue_t;
typedef enum { COAP_EVENT_SERVER_SESSION_NEW = 0x2001, COAP_EVENT_SERVER_SESSION_DEL = 0x2002 } coap_event_t;
typedef enum { COAP_SESSION_TYPE_NONE, COAP_SESSION_TYPE_CLIENT, COAP_SESSION_TYPE_SERVER } coap_session_type_t;
enum { COAP_NODE = 1 };
void *coap_malloc_type(int t, size_t n) { return malloc(n); }
void coap_free_type(int t, void *p) { free(p); }
coap_session_t *coap_session_reference_lkd(coap_session_t *s) { ++s->ref; return s; }
void coap_session_free(coap_session_t *s);
void coap_session_release_lkd(coap_session_t *s) { if (s) { --s->ref; if (s->ref == 0 && s->type == COAP_SESSION_TYPE_CLIENT) coap_session_free(s); } }
int coap_handle_event_lkd(coap_context_t *c, coap_event_t e, coap_session_t *s);
coap_session_t *coap_make_session(int proto);
void work(coap_session_t *s);
int uses_consts(int x) { return x == COAP_EVENT_SERVER_SESSION_NEW || x == COAP_EVENT_SERVER_SESSION_DEL || x == COAP_SESSION_TYPE_CLIENT; }

void good_tmp(coap_session_t *s) { coap_session_reference_lkd(s); work(s); coap_session_release_lkd(s); }
void good_tmp2(coap_session_t *s, int c) { coap_session_reference_lkd(s); if (c) { coap_session_release_lkd(s); return; } work(s); coap_session_release_lkd(s); }
void bad_tmp(coap_session_t *s, int c) {
  coap_session_reference_lkd(s);                                      // EXPECT R-REF-TMP
  if (c) return;
  work(s);
  coap_session_release_lkd(s);
}
coap_queue_t *hold(coap_session_t *s) {
  coap_queue_t *n = coap_malloc_type(COAP_NODE, sizeof(*n));
  if (!n) return NULL;
  if (s->ref > 100) { coap_free_type(COAP_NODE, n); return NULL; }     /* fresh, no reference yet */
  n->session = coap_session_reference_lkd(s);
  return n;
}
void good_free(coap_queue_t *n) { if (n->session) coap_session_release_lkd(n->session); coap_free_type(COAP_NODE, n); }
void raw_free(coap_queue_t *n) { coap_free_type(COAP_NODE, n); }
void good_via_helper(coap_queue_t *n) { coap_session_release_lkd(n->session); raw_free(n); }
void bad_via_helper(coap_queue_t *q) {
  coap_queue_t *n = q->next;
  raw_free(n);                                                          // EXPECT R-REF-HOLD
}
void bad_clear(coap_queue_t *n) {
  n->session = NULL;                                                    // EXPECT R-REF-HOLD
}
void good_clear(coap_queue_t *n) { coap_session_release_lkd(n->session); n->session = NULL; }
void good_evt(coap_context_t *c, coap_session_t *s) { coap_handle_event_lkd(c, COAP_EVENT_SERVER_SESSION_DEL, s); coap_session_free(s); }
void good_fresh(coap_context_t *c) { coap_session_t *s = coap_make_session(1); if (!s) return; if (s->ref) { coap_session_free(s); return; } coap_handle_event_lkd(c, COAP_EVENT_SERVER_SESSION_NEW, s); }
void good_client(coap_session_t *s) { if (s->type == COAP_SESSION_TYPE_CLIENT) coap_session_free(s); }
void bad_evt(coap_context_t *c, coap_session_t *s, int k) {
  if (k) coap_handle_event_lkd(c, COAP_EVENT_SERVER_SESSION_DEL, s);
  coap_session_free(s);                                                 // EXPECT R-SESS-EVT
}
void bad_fresh(coap_context_t *c) {
  coap_session_t *s = coap_make_session(1);
  if (!s) return;
  coap_handle_event_lkd(c, COAP_EVENT_SERVER_SESSION_NEW, s);
  if (s->ref) coap_session_free(s);                                     // EXPECT R-SESS-EVT
}
