// RUN: rules.fixture_entry.relonce
#include <stddef.h>
typedef struct coap_session_t coap_session_t;
typedef void (*coap_release_large_data_t)(coap_session_t *session, void *app_ptr);
typedef struct coap_lg_xmit_t { struct coap_lg_xmit_t *next; coap_release_large_data_t release_func; void *app_ptr; } coap_lg_xmit_t;
struct coap_session_t { coap_lg_xmit_t *lg_xmit; };
#define LL_PREPEND(head,add) do { (add)->next = (head); (head) = (add); } while (0)
void *coap_malloc_type(int t, size_t n);
void coap_free_type(int t, void *p);
int add(void *pdu, size_t n, const void *d);
void coap_block_delete_lg_xmit(coap_session_t *session, coap_lg_xmit_t *lg_xmit) {
  if (lg_xmit == NULL) return;
  if (lg_xmit->release_func) lg_xmit->release_func(session, lg_xmit->app_ptr);
  coap_free_type(1, lg_xmit);
}
int internal_good(coap_session_t *session, void *pdu, size_t length, const void *data, coap_release_large_data_t release_func, void *app_ptr) {
  coap_lg_xmit_t *lg_xmit = NULL;
  if (length > 100) {
    lg_xmit = coap_malloc_type(1, sizeof(*lg_xmit));
    if (!lg_xmit) goto fail;
    lg_xmit->release_func = release_func;
    lg_xmit->app_ptr = app_ptr;
    if (!add(pdu, 100, data)) goto fail;
    LL_PREPEND(session->lg_xmit, lg_xmit);
  } else {
    if (!add(pdu, length, data)) goto fail;
    if (release_func) release_func(session, app_ptr);
  }
  return 1;
fail:
  if (lg_xmit) coap_block_delete_lg_xmit(session, lg_xmit);
  else if (release_func) release_func(session, app_ptr);
  return 0;
}
int wrapper_good(coap_session_t *s, void *pdu, size_t n, const void *d, coap_release_large_data_t release_func, void *app_ptr) {
  if (!pdu) { if (release_func) release_func(s, app_ptr); return 0; }
  return internal_good(s, pdu, n, d, release_func, app_ptr);
}
int internal_bad(coap_session_t *session, void *pdu, size_t length, const void *data, coap_release_large_data_t release_func, void *app_ptr) {
  coap_lg_xmit_t *lg_xmit = NULL;
  if (length > 100) {
    lg_xmit = coap_malloc_type(1, sizeof(*lg_xmit));
    if (!lg_xmit) return 0;                                  // EXPECT R-RELEASE-ONCE
    lg_xmit->release_func = release_func;
    if (!add(pdu, 100, data)) goto fail;
    return 1;                                                // EXPECT R-RELEASE-ONCE
  }
  if (release_func) release_func(session, app_ptr);
  if (!add(pdu, length, data)) goto fail;
  return 1;
fail:
  if (lg_xmit) coap_block_delete_lg_xmit(session, lg_xmit);
  if (release_func) release_func(session, app_ptr);          // EXPECT R-RELEASE-ONCE
  return 0;
}
