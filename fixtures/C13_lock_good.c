// RUN: rules.r_lock.run
#include <assert.h>
#include <pthread.h>
#include <sys/select.h>
#include <stddef.h>
#define COAP_API __attribute__((deprecated))
typedef struct { pthread_mutex_t mutex; pthread_t pid; unsigned in_callback; unsigned lock_count; } coap_lock_t;
coap_lock_t global_lock;
int coap_lock_lock_func(void) { return 1; }
void coap_lock_unlock_func(void) { }
#define coap_lock_lock(c,failed) do { if (!coap_lock_lock_func()) { failed; } } while (0)
#define coap_lock_unlock(c) do { assert(c); coap_lock_unlock_func(); } while (0)
#define coap_lock_check_locked(c) do { assert(pthread_self() == global_lock.pid); } while (0)
#define coap_lock_callback(c,func) do { coap_lock_check_locked(c); global_lock.in_callback++; func; global_lock.in_callback--; } while (0)
#define coap_lock_callback_ret(r,c,func) do { coap_lock_check_locked(c); global_lock.in_callback++; (r) = func; global_lock.in_callback--; } while (0)
#define coap_lock_callback_release(c,func,failed) do { coap_lock_check_locked(c); coap_lock_unlock(c); func; coap_lock_lock(c,failed); } while (0)
typedef struct ctx { void (*nack_handler)(int); int (*response_handler)(int); int x; struct ctx *owner; } ctx_t;

void work_lkd(ctx_t *c) { coap_lock_check_locked(c); c->x++; }
/* conditional precondition: only needs the lock when attached */
void detach_lkd(ctx_t *r) { ctx_t *c = r->owner; if (c) { coap_lock_check_locked(c); } r->x = 0; }
COAP_API void detach(ctx_t *r) {
  ctx_t *c = r->owner;
  if (c) { coap_lock_lock(c, return); }
  detach_lkd(r);
  if (c) { coap_lock_unlock(c); }
}
COAP_API void detach2(ctx_t *r) {
  ctx_t *c = r->owner;
  if (c) { coap_lock_lock(c, return); detach_lkd(r); coap_lock_unlock(c); } else { detach_lkd(r); }
}
void cbs_lkd(ctx_t *c) {
  int r;
  coap_lock_callback(c, c->nack_handler(1));
  coap_lock_callback_ret(r, c, c->response_handler(1));
  coap_lock_callback_release(c, c->nack_handler(r), return);
}
int io_lkd(ctx_t *c, struct timeval *tvp) {
  struct timeval tv;
  int n;
  coap_lock_check_locked(c);
  tv.tv_sec = 0; tv.tv_usec = 1000;
  select(1, NULL, NULL, NULL, &tv);         /* bounded poll while locked */
  coap_lock_unlock(c);
  n = select(1, NULL, NULL, NULL, tvp);
  coap_lock_lock(c, return -1);
  return n;
}
COAP_API int api(ctx_t *c) { int n; coap_lock_lock(c, return 0); work_lkd(c); cbs_lkd(c); n = io_lkd(c, NULL); coap_lock_unlock(c); return n; }
/* public function that needs no lock */
int getter(const ctx_t *c) { return c->x; }
