// RUN: rules.fixture_entry.psk
#include <stddef.h>
typedef struct { size_t length; const unsigned char *s; } bin_t;
typedef struct setup { const bin_t *(*validate_id_call_back)(bin_t *id, void *sess, void *arg); void *arg; bin_t key; } setup_t;
typedef struct { unsigned char *data; unsigned size; } datum_t;
extern const bin_t *session_key(void *sess);
extern void refresh(void *sess, const bin_t *k);
extern void *gmalloc(size_t);
int server_good(setup_t *sd, void *sess, bin_t *id, datum_t *key) {
  const bin_t *psk_key;
  if (sd->validate_id_call_back) { psk_key = sd->validate_id_call_back(id, sess, sd->arg); refresh(sess, psk_key); }
  else { psk_key = session_key(sess); }
  if (psk_key == NULL) return -1;
  key->data = gmalloc(psk_key->length);
  if (!key->data) return -1;
  key->size = psk_key->length;
  return 0;
}
int server_overwrite(setup_t *sd, void *sess, bin_t *id, datum_t *key) {
  const bin_t *psk_key;
  if (sd->validate_id_call_back) { psk_key = sd->validate_id_call_back(id, sess, sd->arg); refresh(sess, psk_key); }
  psk_key = session_key(sess);                                           // EXPECT R-PSK-VERDICT
  if (psk_key == NULL) return -1;
  key->size = psk_key->length;
  return 0;
}
int server_null_accepted(setup_t *sd, void *sess, bin_t *id, datum_t *key) {
  const bin_t *psk_key = NULL;
  if (sd->validate_id_call_back) psk_key = sd->validate_id_call_back(id, sess, sd->arg);
  key->size = psk_key ? psk_key->length : 0;
  return 0;                                                              // EXPECT R-PSK-VERDICT
}
