// RUN: rules.fixture_entry.ownraw
#include <stddef.h>
extern void *coap_malloc_type(int t, size_t n);
extern void coap_free_type(int t, void *p);
extern int work(int *scratch, int n);
typedef struct holder_t { int *list; } holder_t;
int good(int n) {
  int *s = coap_malloc_type(1, n * sizeof(int));
  int r;
  if (!s) return 0;
  r = work(s, n);
  coap_free_type(1, s);
  return r;
}
int good_store(holder_t *h, int n) {
  int *s = coap_malloc_type(1, n * sizeof(int));
  if (!s) return 0;
  if (work(s, n) < 0) { coap_free_type(1, s); return 0; }
  h->list = s;
  return 1;
}
int bad(int n, int etag, int want) {
  int *s = coap_malloc_type(1, n * sizeof(int));
  int r;
  if (!s) return 0;
  if (etag != want)
    return 0;                                                        // EXPECT R-OWN-RAW
  r = work(s, n);
  coap_free_type(1, s);
  return r;
}
#define MK(N) int more##N(int n) { int *s = coap_malloc_type(1, n); int r; if (!s) return 0; r = work(s, n); coap_free_type(1, s); return r; }
MK(1) MK(2) MK(3) MK(4) MK(5) MK(6) MK(7) MK(8)
