// RUN: rules.fixture_entry.blkmore
#include <stddef.h>
typedef struct coap_block_b_t { unsigned num; unsigned m; unsigned szx; unsigned chunk_size; } coap_block_b_t;
typedef struct xmit_t { size_t offset; size_t length; } xmit_t;
void good_sum(coap_block_b_t *b, xmit_t *x, size_t chunk) { b->m = x->offset + chunk < x->length; }
void good_rem(coap_block_b_t *b, xmit_t *x, size_t chunk) { b->m = (x->length - x->offset) > chunk; }
void good_num(coap_block_b_t *b, xmit_t *x, size_t chunk) { b->m = (b->num + 1) * chunk < x->length; }
void bad_ge(coap_block_b_t *b, xmit_t *x, size_t chunk) {
  b->m = (x->length - x->offset) >= chunk;                           // EXPECT R-BLK-MORE
}
void bad_num(coap_block_b_t *b, xmit_t *x, size_t chunk) {
  b->m = b->num * chunk < x->length;                                 // EXPECT R-BLK-MORE
}
