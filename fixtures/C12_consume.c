// RUN: rules.fixture_entry.consume
#include <stddef.h>
typedef struct coap_bin_const_t { size_t length; const unsigned char *s; } coap_bin_const_t;
typedef struct rcp_t { coap_bin_const_t *id; struct rcp_t *next; } rcp_t;
typedef struct ctx_t { rcp_t *chain; } ctx_t;
extern void coap_delete_bin_const(coap_bin_const_t *b);
extern void *coap_malloc_type(int t, size_t n);
/* good: every failure path leaves the id to the caller */
rcp_t *good_add(ctx_t *c, coap_bin_const_t *id) {
  rcp_t *r;
  if (id->length > 7) return NULL;
  r = coap_malloc_type(1, sizeof(*r));
  if (!r) return NULL;
  r->id = id; r->next = c->chain; c->chain = r;
  return r;
}
/* good: every failure path consumes it */
rcp_t *good_add2(ctx_t *c, coap_bin_const_t *id) {
  rcp_t *r;
  if (id->length > 7) { coap_delete_bin_const(id); return NULL; }
  r = coap_malloc_type(1, sizeof(*r));
  if (!r) { coap_delete_bin_const(id); return NULL; }
  r->id = id; r->next = c->chain; c->chain = r;
  return r;
}
/* bad: one failure path deletes, the other does not */
rcp_t *bad_add(ctx_t *c, coap_bin_const_t *id) {
  rcp_t *r;
  if (id->length > 7) return NULL;
  for (r = c->chain; r; r = r->next)
    if (r->id->length == id->length) {
      coap_delete_bin_const(id);                                     // EXPECT R-CONSUME-AGREE
      return NULL;
    }
  r = coap_malloc_type(1, sizeof(*r));
  if (!r) return NULL;
  r->id = id; r->next = c->chain; c->chain = r;
  return r;
}
