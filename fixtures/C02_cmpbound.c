// RUN: rules.fixture_entry.cmpbound
#include <stddef.h>
#include <string.h>
#include <stdint.h>
typedef struct coap_str_const_t { size_t length; const uint8_t *s; } coap_str_const_t;
typedef struct holder { uint8_t rtag[8]; size_t rtag_length; struct holder *next; } holder;
int eq_good(const coap_str_const_t *a, const coap_str_const_t *b) {
  return a->length == b->length && memcmp(a->s, b->s, a->length) == 0;
}
int eq_bad(const coap_str_const_t *a, const coap_str_const_t *b) {
  return a->length != 0 && memcmp(a->s, b->s, a->length) == 0;          // EXPECT R-CMP-BOUND
}
int prefix_good(const coap_str_const_t *text, const coap_str_const_t *pat) {
  if (text->length < pat->length) return 0;
  return memcmp(text->s, pat->s, pat->length) == 0;
}
holder *find_good(holder *h, const uint8_t *rtag, size_t rtag_length) {
  for (; h; h = h->next) {
    if (h->rtag_length != rtag_length || memcmp(h->rtag, rtag, rtag_length) != 0) continue;
    return h;
  }
  return NULL;
}
holder *find_bad(holder *h, const uint8_t *rtag, size_t rtag_length) {
  for (; h; h = h->next) {
    if (h->rtag_length != rtag_length && memcmp(h->rtag, rtag, rtag_length) != 0) continue;   // EXPECT R-CMP-BOUND
    return h;
  }
  return NULL;
}
int tokens(const coap_str_const_t *text, const coap_str_const_t *pattern, int match_prefix) {
  const uint8_t *next_token = text->s;
  size_t remaining_length = text->length;
  while (remaining_length) {
    size_t token_length;
    const uint8_t *token = next_token;
    next_token = memchr(token, ' ', remaining_length);
    if (next_token) { token_length = next_token - token; remaining_length -= (token_length + 1); next_token++; }
    else { token_length = remaining_length; remaining_length = 0; }
    if ((match_prefix || pattern->length == token_length) &&
        memcmp(token, pattern->s, pattern->length) == 0)                 // EXPECT R-CMP-BOUND
      return 1;
  }
  return 0;
}
int tokens_wrong_len(const coap_str_const_t *text, const coap_str_const_t *pattern, int match_prefix, int sub) {
  const uint8_t *next_token = text->s;
  if (text->length < pattern->length) return 0;
  if (!sub) return (match_prefix || pattern->length == text->length) && memcmp(text->s, pattern->s, pattern->length) == 0;
  size_t remaining_length = text->length;
  while (remaining_length) {
    size_t token_length;
    const uint8_t *token = next_token;
    next_token = memchr(token, ' ', remaining_length);
    if (next_token) { token_length = next_token - token; remaining_length -= (token_length + 1); next_token++; }
    else { token_length = remaining_length; remaining_length = 0; }
    if (pattern->length <= token_length && (match_prefix || pattern->length == text->length) &&
        memcmp(token, pattern->s, pattern->length) == 0)                 // EXPECT R-CMP-BOUND
      return 1;
  }
  return 0;
}
int host_strip(const coap_str_const_t *host, const char *addr) {
  size_t n = host->length;
  for (size_t i = 0; i < n; i++) { if (host->s[i] == '%') { n = i; break; } }
  return strlen(addr) == n && memcmp(addr, host->s, n) == 0;
}
