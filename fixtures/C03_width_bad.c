// RUN: rules.fixture_entry.width
#include <stdint.h>
#include <stddef.h>
typedef struct { uint16_t delta; size_t length; const uint8_t *value; } coap_option_t;
typedef struct { uint32_t e_token_length; uint8_t small; } pdu_t;
size_t coap_opt_parse(const uint8_t *opt, size_t length, coap_option_t *result) {
  if (length < 3) return 0;
  result->delta = (*opt & 0xf0) >> 4;
  switch (result->delta) {
  case 15: return 0;
  case 14:
    opt++;
    result->delta = ((*opt & 0xff) << 8) + 269;
    if (result->delta < 269) return 0;
  /* fall through */
  case 13:
    opt++;
    result->delta += *opt & 0xff;             // EXPECT R-WIDTH
    break;
  default: ;
  }
  return 3;
}
void narrow(pdu_t *p, size_t len, size_t bias) {
  if (len > 4096) return;
  p->e_token_length = (uint8_t)(len + bias);  // EXPECT R-WIDTH
  p->small = (uint8_t)len;                    /* same width: not this rule's business */
}
