// RUN: rules.fixture_entry.cnt
#include <stddef.h>
typedef enum { COAP_MESSAGE_CON, COAP_MESSAGE_NON } coap_pdu_type_t;
typedef struct coap_pdu_t { coap_pdu_type_t type; } coap_pdu_t;
typedef struct coap_session_t { unsigned con_active, nstart; int state; struct coap_queue_t *delayqueue; } coap_session_t;
typedef struct coap_queue_t { struct coap_queue_t *next; coap_session_t *session; coap_pdu_t *pdu; } coap_queue_t;
long coap_session_send_pdu(coap_session_t *s, coap_pdu_t *p);
long delay(coap_session_t *s, coap_pdu_t *p);
int coap_remove_from_queue(coap_queue_t **q, coap_session_t *s, int id, coap_queue_t **node);
int is_con(coap_pdu_t *p) { return p->type == COAP_MESSAGE_CON; }
static long coap_send_pdu(coap_session_t *session, coap_pdu_t *pdu) {
  long n;
  if (session->state != 4 || (pdu->type == COAP_MESSAGE_CON && session->con_active >= session->nstart)) return delay(session, pdu);
  n = coap_session_send_pdu(session, pdu);
  if (n >= 0 && pdu->type == COAP_MESSAGE_CON) session->con_active++;
  return n;
}
void coap_session_connected(coap_session_t *session) {
  while (session->delayqueue) {
    coap_queue_t *q = session->delayqueue;
    if (q->pdu->type == COAP_MESSAGE_CON) {
      session->con_active++;                                   // EXPECT R-CNT-CON
    }
    session->delayqueue = q->next;
    coap_session_send_pdu(session, q->pdu);
  }
}
void ack(coap_queue_t **sq, coap_session_t *session, int mid) {
  coap_queue_t *sent = NULL;
  coap_remove_from_queue(sq, session, mid, &sent);
  if (sent && session->con_active) session->con_active--;
}
void rst(coap_queue_t **sq, coap_session_t *session, int mid) {
  coap_queue_t *sent = NULL;
  if (session->con_active) session->con_active--;             // EXPECT R-CNT-CON
  coap_remove_from_queue(sq, session, mid, &sent);
}
void giveup(coap_queue_t *node) { if (node->session->con_active) node->session->con_active--; }
void reset(coap_session_t *s) { s->con_active = 0; }
void bad_set(coap_session_t *s) { s->con_active = 3; }        // EXPECT R-CNT-CON
long use(coap_session_t *s, coap_pdu_t *p) { return coap_send_pdu(s, p); }
