// RUN: rules.fixture_entry.width_call64
#include <stdint.h>
#include <stddef.h>
typedef struct snd_t { uint64_t seq; } snd_t;
static unsigned encode32(uint8_t *buf, size_t n, unsigned int v) { buf[0] = (uint8_t)v; return n ? 1 : 0; }
static unsigned encode64(uint8_t *buf, size_t n, uint64_t v) { buf[0] = (uint8_t)v; return n ? 1 : 0; }
unsigned good(snd_t *s, uint8_t *b) { return encode64(b, 8, s->seq); }
unsigned good_small(snd_t *s, uint8_t *b) {
  if (s->seq > 0xffffffffu) return 0;
  return encode32(b, 8, s->seq);
}
unsigned bad(snd_t *s, uint8_t *b) {
  return encode32(b, 8, s->seq);                                    // EXPECT R-WIDTH
}
