"""IVL - non-relational interval evaluator over the extracted expression trees.
eval(expr, env) -> (lo, hi) as Python ints / +-INF, using type ranges, bit-field widths, masks,
shifts, + - * / %, casts, conditional expressions, and the facts the solver holds (env.intf)."""
from .prog import strip, ap, const_int, INF


def type_range(node):
    """range of the node's static integer type"""
    if not isinstance(node, dict):
        return (-INF, INF)
    w = node.get('bf') or node.get('w')
    if not w:
        return (-INF, INF)
    if node.get('s') and not node.get('bf'):
        return (-(1 << (w - 1)), (1 << (w - 1)) - 1)
    if node.get('s') and node.get('bf'):
        return (-(1 << (w - 1)), (1 << (w - 1)) - 1)
    return (0, (1 << w) - 1)


def fits(r, t):
    return r[0] >= t[0] and r[1] <= t[1]


def _hull(a, b):
    return (min(a[0], b[0]), max(a[1], b[1]))


def _clip(r, t):
    """value of type range t computed as r: if it does not fit it wraps -> whole type"""
    if fits(r, t):
        return r
    return t


def eval_raw(x, env=None, summ=None, depth=0):
    """mathematical (pre-conversion) range of the expression's value, operands already converted"""
    if not isinstance(x, dict) or depth > 50:
        return (-INF, INF)
    k = x.get('k')
    if k == 'int':
        v = const_int(x)
        return (v, v) if v is not None else type_range(x)
    if k == 'nullptr':
        return (0, 0)
    if k in ('var', 'mem', 'sub') or (k == 'un' and x.get('op') == '*'):
        tr = type_range(x)
        a = ap(x)
        if env is not None and a:
            lo, hi, ex = env.intf(a)
            r = (max(lo, tr[0]), min(hi, tr[1]))
            if r[0] <= r[1]:
                return r
        return tr
    if k == 'cast':
        inner = eval_raw(x['e'], env, summ, depth + 1)
        tr = type_range(x)
        if tr == (-INF, INF):
            return inner
        return _clip(inner, tr)
    if k == 'cond':
        xr = eval_raw(x['x'], env, summ, depth + 1)
        yr = eval_raw(x['y'], env, summ, depth + 1)
        # min / max idiom: (a < b ? a : b), (a > b ? a : b)
        c = strip(x['c'])
        if isinstance(c, dict) and c.get('k') == 'bin' and c.get('op') in ('<', '<=', '>', '>='):
            from .prog import key as _key
            kl, kr, kx, ky = _key(c['l']), _key(c['r']), _key(x['x']), _key(x['y'])
            if (kl, kr) == (kx, ky) or (kl, kr) == (ky, kx):
                less_first = c['op'] in ('<', '<=')
                picks_left = (kl, kr) == (kx, ky)
                is_min = less_first == picks_left
                if is_min:
                    return (min(xr[0], yr[0]), min(xr[1], yr[1]))
                return (max(xr[0], yr[0]), max(xr[1], yr[1]))
        return _hull(xr, yr)
    if k == 'un':
        op = x.get('op')
        e = eval_raw(x['e'], env, summ, depth + 1)
        if op == '-':
            return (-e[1], -e[0])
        if op == '!':
            return (0, 1)
        if op == '+':
            return e
        if op in ('++', '--'):
            d = 1 if op == '++' else -1
            if x.get('post'):
                return e
            return (e[0] + d, e[1] + d)
        return type_range(x)
    if k == 'call':
        if summ and x.get('fn') in summ:
            return summ[x['fn']]
        return type_range(x)
    if k == 'asg':
        if x.get('op') == '=':
            return _clip(eval_raw(x['r'], env, summ, depth + 1), type_range(x))
        return type_range(x)
    if k == 'bin':
        op = x.get('op')
        if op in ('==', '!=', '<', '<=', '>', '>=', '&&', '||'):
            return (0, 1)
        if op == ',':
            return eval_raw(x['r'], env, summ, depth + 1)
        l = eval_raw(x['l'], env, summ, depth + 1)
        r = eval_raw(x['r'], env, summ, depth + 1)
        tr = type_range(x)
        if op == '+':
            return _clip((l[0] + r[0], l[1] + r[1]), tr)
        if op == '-':
            return _clip((l[0] - r[1], l[1] - r[0]), tr)
        if op == '*':
            if INF in (abs(l[0]), abs(l[1]), abs(r[0]), abs(r[1])):
                if l[0] >= 0 and r[0] >= 0:
                    return (l[0] * r[0] if INF not in (l[0], r[0]) else 0, INF)
                return (-INF, INF)
            c = [l[0] * r[0], l[0] * r[1], l[1] * r[0], l[1] * r[1]]
            return _clip((min(c), max(c)), tr)
        if op == '/':
            if r[0] > 0 and l[0] >= 0:
                return (l[0] // r[1] if r[1] != INF else 0, l[1] // r[0] if l[1] != INF else INF)
            return type_range(x)
        if op == '%':
            if r[0] > 0 and r[1] != INF and l[0] >= 0:
                return (0, min(l[1], r[1] - 1))
            return type_range(x)
        if op == '&':
            if r[0] >= 0 and r[1] != INF and l[0] >= 0:
                return (0, min(l[1], r[1]))
            if r[0] >= 0 and r[1] != INF:
                return (0, r[1])
            if l[0] >= 0 and l[1] != INF:
                return (0, l[1])
            return type_range(x)
        if op in ('|', '^'):
            if l[0] >= 0 and r[0] >= 0 and l[1] != INF and r[1] != INF:
                m = max(l[1], r[1])
                return (0, (1 << m.bit_length()) - 1)
            return type_range(x)
        if op == '<<':
            if l[0] >= 0 and r[0] >= 0 and r[1] != INF and l[1] != INF and r[1] <= 128:
                return _clip((l[0] << r[0], l[1] << r[1]), tr)
            return type_range(x)
        if op == '>>':
            if l[0] >= 0 and r[0] >= 0 and r[1] != INF:
                return (l[0] >> r[1] if l[0] != INF else 0, (l[1] >> r[0]) if l[1] != INF else INF)
            return type_range(x)
    return type_range(x)


def eval_typed(x, env=None, summ=None):
    """range of the value as an object of its static type (wraps if the raw range does not fit)"""
    raw = eval_raw(x, env, summ)
    tr = type_range(x)
    if tr == (-INF, INF):
        return raw
    return _clip(raw, tr)


def fmt(r):
    def f(v):
        return '-inf' if v == -INF else 'inf' if v == INF else str(v)
    return '[%s, %s]' % (f(r[0]), f(r[1]))
