"""Run context shared by the rules of one property check: lazily loaded programs,
violation / known-finding bookkeeping, evidence writing, exit discipline."""
import os, sys, json, time, re, collections, tempfile, shutil
from . import facts
from .facts import AnalysisBroken, VERIF
from .prog import Prog

KNOWN_FILE = os.path.join(VERIF, 'known_findings.txt')


def load_known():
    """known_findings.txt: 'finding: property=<id> rule=<rule> func=<function> inst=<key> -- text'
    and 'fixed: property=<id> <commit> <what>' (fixed entries suppress nothing)"""
    out = []
    if not os.path.exists(KNOWN_FILE):
        return out
    for line in open(KNOWN_FILE):
        line = line.strip()
        if not line.startswith('finding:'):
            continue
        m = re.match(r'finding:\s+property=(\S+)\s+rule=(\S+)\s+func=(\S+)\s+inst=(\S+)\s*(?:--\s*(.*))?$', line)
        if m:
            out.append({'property': m.group(1), 'rule': m.group(2), 'func': m.group(3), 'inst': m.group(4), 'text': m.group(5) or ''})
    return out


class Run:
    def __init__(self, prop, tier='quick', cfgs=None):
        self.prop = prop
        self.tier = tier
        self.t0 = time.time()
        self.seed = int(os.environ.get('VERIF_SEED', '0') or 0)
        self._progs = {}
        self._roots = {}
        self.violations = []
        self.known_hits = []
        self.known = [k for k in load_known() if k['property'] == prop]
        self.instances = collections.Counter()      # rule -> instances analysed
        self.obligations = collections.Counter()    # rule -> obligations checked
        self.discharged = collections.Counter()
        self.distinct = set()
        self.samples = collections.defaultdict(list)
        self.stats = collections.Counter()
        self.notes = []
        self.assumptions = []
        self.rules = []
        self.variants = set()
        self.cfg = 'base'
        self.fixture_results = []
        self.fixture_mode = False
        self._inst_seen = set()
        self.shortfalls = []
        self.defer = False          # thorough tier: finish() is called once after all configurations
        self._explanation = None

    # ---------------------------------------------------------------- programs
    def prog(self, mode='rel', cfg=None):
        cfg = cfg or self.cfg
        k = (cfg, mode)
        if k not in self._progs:
            d, root = facts.ensure(cfg, (mode,))
            self._roots[cfg] = root
            self._progs[k] = Prog(d[mode])
            self.variants.add('%s.%s' % (cfg, mode))
            p = self._progs[k]
            self.stats['units[%s.%s]' % k] = len(p.units)
            self.stats['functions[%s.%s]' % k] = len(p.funcs)
            self.stats['cfg_blocks[%s.%s]' % k] = sum(len(f['blocks']) for f in p.funcs.values())
        return self._progs[k]

    def generated(self, cfg=None):
        cfg = cfg or self.cfg
        if cfg not in self._roots:
            d, root = facts.ensure(cfg, ('rel',))
            self._roots[cfg] = root
        return json.load(open(os.path.join(self._roots[cfg], 'generated.json')))

    # ---------------------------------------------------------------- bookkeeping
    def rule(self, rid):
        if rid not in self.rules:
            self.rules.append(rid)

    def instance(self, rule, desc=None, n=1):
        """one analysed instance of a rule (distinct by description)"""
        if desc is not None:
            if (rule, desc) in self._inst_seen:
                return
            self._inst_seen.add((rule, desc))
            if len(self.samples[rule]) < 6:
                self.samples[rule].append(desc)
        self.instances[rule] += n

    def oblige(self, rule, ok, what=None):
        """one obligation checked; 'what' identifies it (for the distinct count)"""
        self.obligations[rule] += 1
        if ok:
            self.discharged[rule] += 1
        if what is not None:
            self.distinct.add((rule, what))

    def require(self, cond, msg):
        if not cond:
            raise AnalysisBroken(msg)

    def require_count(self, cond, msg):
        """an instance-count threshold: judged when the run finishes, BEHIND the violations -- a change that restructures the code a rule
        counts may be caught by another rule of the same check, and then the violation is what has to be reported (exit 1), not the count"""
        if not cond:
            self.shortfalls.append(msg)

    def min_instances(self, rule, n):
        if self.fixture_mode:
            return
        if self.instances[rule] < n:
            self.shortfalls.append('rule %s matched %d instances, fewer than the %d confirmed by hand' % (rule, self.instances[rule], n))

    def violation(self, rule, func, loc, inst, msg, path=None, extra=None):
        """inst: stable instance key without line numbers"""
        v = {'property': self.prop, 'rule': rule, 'function': func, 'loc': loc, 'inst': inst, 'msg': msg}
        if self.cfg != 'base':
            v['cfg'] = self.cfg
        if path:
            v['path'] = path
        if extra:
            v.update(extra)
        for k in self.known:
            if k['rule'] == rule and k['func'] == func and k['inst'] == inst:
                if not any(h['rule'] == rule and h['function'] == func and h['inst'] == inst for h in self.known_hits):
                    self.known_hits.append(v)
                return
        if not any(o['rule'] == rule and o['function'] == func and o['inst'] == inst and o['loc'] == loc for o in self.violations):
            self.violations.append(v)

    # ---------------------------------------------------------------- finishing
    def finish(self, explanation, level='other'):
        if self.defer:
            self._explanation = explanation
            return None
        wall = time.time() - self.t0
        # developer tools (seed / mutant regressions on scratch worktrees) redirect the evidence so that a registered
        # check's evidence file is only ever written from /repo itself
        evdir = os.environ.get('VERIF_EVIDENCE_DIR') or os.path.join(VERIF, 'evidence')
        os.makedirs(evdir, exist_ok=True)
        total_inst = sum(self.instances.values())
        samples = []
        for r in self.rules:
            for s in self.samples.get(r, [])[:4]:
                samples.append({'rule': r, 'instance': s})
        cov = {
            'explanation': explanation,
            'evaluations': max(1, sum(self.obligations.values())),
            'distinct_nontrivial': len(self.distinct),
            'rule': 'one evaluation = one obligation of a rule checked at one instance (call site, path exit, field, '
                    'table row) of the current source; distinct = distinct (rule, instance key) pairs; an obligation is '
                    'non-trivial when it names a concrete construct of /repo that the rule had to discharge',
            'samples': samples or [{'note': 'no instance'}],
            'obligations': sum(self.obligations.values()),
            'discharged': sum(self.discharged.values()),
            'rules': self.rules,
            'instances_per_rule': dict(self.instances),
            'obligations_per_rule': dict(self.obligations),
            'variants': sorted(self.variants),
            'stats': dict(self.stats),
            'fixtures': self.fixture_results,
            'known_findings_reobserved': [{'rule': h['rule'], 'function': h['function'], 'inst': h['inst']} for h in self.known_hits],
            'notes': self.notes,
            'exhaustive': False,
        }
        ev = {
            'property_id': self.prop, 'tier': self.tier, 'seed': self.seed, 'level': level,
            'coverage': cov, 'assumptions': self.assumptions, 'wall_s': round(wall, 2),
            'violations': len(self.violations),
        }
        with open(os.path.join(evdir, self.prop + '.json'), 'w') as fh:
            json.dump(ev, fh, indent=1, default=str)
        print('%s tier=%s rules=%s variants=%s' % (self.prop, self.tier, ','.join(self.rules), ','.join(sorted(self.variants))))
        for r in self.rules:
            print('  %-16s instances=%-5d obligations=%-5d discharged=%d' % (r, self.instances[r], self.obligations[r], self.discharged[r]))
        for k, v in sorted(self.stats.items()):
            print('  stat %s=%s' % (k, v))
        for h in self.known_hits:
            print('KNOWN-FINDING: property=%s rule=%s %s %s: %s' % (self.prop, h['rule'], h['function'], h['loc'], h['msg']))
        if self.violations:
            rdir = os.path.join(evdir, 'replay')
            os.makedirs(rdir, exist_ok=True)
            for i, v in enumerate(self.violations):
                p = os.path.join(rdir, '%s_%d.json' % (self.prop, i))
                with open(p, 'w') as fh:
                    json.dump(v, fh, indent=1, default=str)
                print('  %s %s %s: %s [%s]' % (v['rule'], v['function'], v['loc'], v['msg'], v['inst']))
                print('VIOLATION property=%s replay=%s' % (self.prop, p))
            return 1
        if self.shortfalls:
            for sf in self.shortfalls:
                print('ANALYSIS-BROKEN property=%s: %s' % (self.prop, sf))
            return 2
        print('OK %s: %d obligations over %d instances in %.1fs' % (self.prop, sum(self.obligations.values()), total_inst, wall))
        return 0
