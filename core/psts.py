"""PSTS - path-sensitive typestate solver (property simulation in the style of ESP).

Per CFG block one environment per distinct typestate key; environments arriving
with the same key are joined by intersecting their facts.  Facts come from branch
conditions (nullness, integer ranges / excluded values, call-result constraints,
opaque side-effect-free atoms) and from simple assignments.  Only conditions in
`relevant` blocks are interpreted (see relevance()).
"""
import collections
from .prog import (strip, walk, ap, key, short, const_int, is_null_const, has_side_effect,
                   aps_of, postdoms, branches, succs, control_deps, INF)
from .facts import AnalysisBroken


class Budget(AnalysisBroken):
    pass


class Env:
    """path state.
    ts    : rule typestate (dict, small hashable values)
    null  : access path -> 'Z' (NULL) / 'N' (non-NULL)
    ints  : access path -> (lo, hi, frozenset(excluded))
    atoms : structural key of a side-effect free condition -> bool
    ret   : key of a call expression -> ('eq'|'ne'|'nz'|'lt'|'ge'.., K) constraint on its result
    alias : local access path -> access path it was copied from
    """
    __slots__ = ('ts', 'null', 'ints', 'atoms', 'ret', 'alias')

    def __init__(s, ts=None, null=None, ints=None, atoms=None, ret=None, alias=None):
        s.ts = ts or {}
        s.null = null or {}
        s.ints = ints or {}
        s.atoms = atoms or {}
        s.ret = ret or {}
        s.alias = alias or {}

    def copy(s):
        return Env(dict(s.ts), dict(s.null), dict(s.ints), dict(s.atoms), dict(s.ret), dict(s.alias))

    def freeze(s):
        return (tuple(sorted(s.ts.items(), key=repr)), tuple(sorted(s.null.items())),
                tuple(sorted((k, (v[0], v[1], tuple(sorted(v[2])))) for k, v in s.ints.items())),
                tuple(sorted(s.atoms.items())), tuple(sorted(s.ret.items())), tuple(sorted(s.alias.items())))

    def kill(s, a):
        """a was written: drop facts on a and on paths through a"""
        def hit(k):
            return (k == a or k.startswith(a + '->') or k.startswith(a + '.') or k.startswith(a + '[')
                    or k == '*' + a or k.startswith('*' + a + '.') or k.startswith('*' + a + '->'))
        for d in (s.null, s.ints):
            for k in [k for k in d if hit(k)]:
                del d[k]
        for k in [k for k in s.atoms if a in k]:
            del s.atoms[k]
        for k in [k for k in s.ret if a in k]:
            del s.ret[k]
        for k in [k for k, v in s.alias.items() if hit(k) or hit(v)]:
            del s.alias[k]

    def kill_reach(s, a):
        """a callee may have written anything reachable from pointer a (a itself unchanged)"""
        pre = (a + '->', '*' + a, a + '[')
        for d in (s.null, s.ints):
            for k in [k for k in d if k.startswith(pre)]:
                del d[k]
        for k in [k for k in s.atoms if (a + '->') in k or ('*' + a) in k or (a + '[') in k]:
            del s.atoms[k]
        for k in [k for k, v in s.alias.items() if v.startswith(pre)]:
            del s.alias[k]

    def canon(s, a):
        if not a:
            return a
        seen = 0
        while a in s.alias and seen < 4:
            a = s.alias[a]
            seen += 1
        # prefix aliasing: x = p->f ; x->g  ==> p->f->g
        if a not in s.alias:
            for sep in ('->', '.', '['):
                i = a.find(sep)
                if i > 0 and a[:i] in s.alias:
                    return s.alias[a[:i]] + a[i:]
        return a

    def intf(s, a):
        v = s.ints.get(a)
        if v is None and a in s.alias:
            v = s.ints.get(s.canon(a))
        return v if v is not None else (-INF, INF, frozenset())

    def nullf(s, a):
        v = s.null.get(a)
        if v is None and a is not None:
            c = s.canon(a)
            if c != a:
                v = s.null.get(c)
        return v

    def set_null(s, a, v):
        s.null[a] = v
        c = s.canon(a)
        if c != a:
            s.null[c] = v

    def set_int(s, a, v):
        s.ints[a] = v
        c = s.canon(a)
        if c != a:
            s.ints[c] = v

    def is_null(s, a):
        return s.nullf(a) == 'Z'

    def is_nonnull(s, a):
        return s.nullf(a) == 'N'


NEG = {'==': '!=', '!=': '==', '<': '>=', '<=': '>', '>': '<=', '>=': '<'}
SWAP = {'<': '>', '<=': '>=', '>': '<', '>=': '<=', '==': '==', '!=': '!='}


def _ret_consistent(rc, op, K):
    """is constraint rc on a value consistent with (value op K)?  returns True/False/None(unknown)"""
    kind, v = rc
    if kind == 'eq':
        return {'==': v == K, '!=': v != K, '<': v < K, '<=': v <= K, '>': v > K, '>=': v >= K}[op]
    if kind == 'ne' and v == K:
        if op == '==':
            return False
        if op == '!=':
            return True
    if kind == 'nz' and K == 0:
        if op == '==':
            return False
        if op == '!=':
            return True
    if kind == 'rng':
        lo, hi = v
        if op == '==':
            return None if lo <= K <= hi else False
        if op == '!=':
            return False if lo == hi == K else None
        if op == '<':
            return True if hi < K else (False if lo >= K else None)
        if op == '<=':
            return True if hi <= K else (False if lo > K else None)
        if op == '>':
            return True if lo > K else (False if hi <= K else None)
        if op == '>=':
            return True if lo >= K else (False if hi < K else None)
    return None


def assume(cond, truth, env):
    """refine env by cond == truth; returns an env (possibly the same object) or None if infeasible"""
    c = strip(cond)
    if not isinstance(c, dict):
        return env
    k = c.get('k')
    if k == 'un' and c.get('op') == '!':
        return assume(c['e'], not truth, env)
    if k == 'asg' and c.get('op') == '=':
        return assume(c['l'], truth, env)
    if k == 'int':
        v = const_int(c)
        return env if ((v != 0) == truth) else None
    if k == 'nullptr':
        return env if not truth else None
    if k == 'bin' and c.get('op') == ',':
        return assume(c['r'], truth, env)
    if k == 'bin' and c.get('op') == '&&':
        if truth:
            e = assume(c['l'], True, env)
            return None if e is None else assume(c['r'], True, e)
        # l && r is false: if one operand is known true on this path the other one is false
        if not has_side_effect(c):
            lf = assume(c['l'], False, env)
            rf = assume(c['r'], False, env)
            if lf is None and rf is None:
                return None
            if lf is None:
                return rf
            if rf is None:
                return lf
        return env
    if k == 'bin' and c.get('op') == '||':
        if not truth:
            e = assume(c['l'], False, env)
            return None if e is None else assume(c['r'], False, e)
        if not has_side_effect(c):
            lt = assume(c['l'], True, env)
            rt = assume(c['r'], True, env)
            if lt is None and rt is None:
                return None
            if lt is None:
                return rt
            if rt is None:
                return lt
        return env
    if k == 'call':
        kk = key(c)
        rc = env.ret.get(kk)
        if rc:
            r = _ret_consistent(rc, '!=', 0)
            if r is not None:
                return env if r == truth else None
        e = env.copy()
        e.ret[kk] = ('nz', 0) if truth else ('eq', 0)
        return e
    a = ap(c)
    if a is not None and k in ('var', 'mem', 'sub', 'un'):
        if c.get('p'):
            cur = env.nullf(a)
            want = 'N' if truth else 'Z'
            if cur and cur != want:
                return None
            if cur == want:
                return env
            e = env.copy()
            e.set_null(a, want)
            return e
        lo, hi, ex = env.intf(a)
        if truth:
            if lo == 0 and hi == 0:
                return None
            if lo > 0 or hi < 0 or 0 in ex:
                return env
            e = env.copy()
            if lo == 0:
                e.set_int(a, (1, hi, ex))
            elif hi == 0:
                e.set_int(a, (lo, -1, ex))
            else:
                e.set_int(a, (lo, hi, frozenset(ex | {0})))
            return e
        else:
            if lo > 0 or hi < 0 or 0 in ex:
                return None
            e = env.copy()
            e.set_int(a, (0, 0, frozenset()))
            return e
    if k == 'bin' and c.get('op') in NEG:
        op = c['op']
        l, r = strip(c['l']), strip(c['r'])
        if not truth:
            op = NEG[op]
        # pointer vs NULL
        for x, y in ((l, r), (r, l)):
            if not isinstance(x, dict):
                continue
            a = ap(x)
            if a is not None and is_null_const(y) and x.get('p') and op in ('==', '!='):
                want = 'Z' if op == '==' else 'N'
                cur = env.nullf(a)
                if cur and cur != want:
                    return None
                if cur == want:
                    return env
                e = env.copy()
                e.set_null(a, want)
                return e
            if isinstance(x, dict) and x.get('k') == 'asg' and x.get('op') == '=' and is_null_const(y) and op in ('==', '!='):
                a = ap(x['l'])
                if a is not None:
                    want = 'Z' if op == '==' else 'N'
                    cur = env.nullf(a)
                    if cur and cur != want:
                        return None
                    e = env.copy()
                    e.set_null(a, want)
                    return e
        for x, y, o in ((l, r, op), (r, l, SWAP[op])):
            K = const_int(y)
            if K is None or not isinstance(x, dict):
                continue
            if x.get('k') == 'asg' and x.get('op') == '=':
                x = strip(x['l'])
            if x.get('k') == 'call':
                kk = key(x)
                rc = env.ret.get(kk)
                if rc:
                    ok = _ret_consistent(rc, o, K)
                    if ok is not None:
                        return env if ok else None
                e = env.copy()
                if o == '==':
                    e.ret[kk] = ('eq', K)
                elif o == '!=':
                    if not rc:
                        e.ret[kk] = ('ne', K)
                else:
                    lo, hi = (rc[1] if rc and rc[0] == 'rng' else (-INF, INF))
                    if o == '<':
                        hi = min(hi, K - 1)
                    elif o == '<=':
                        hi = min(hi, K)
                    elif o == '>':
                        lo = max(lo, K + 1)
                    elif o == '>=':
                        lo = max(lo, K)
                    if lo > hi:
                        return None
                    e.ret[kk] = ('eq', lo) if lo == hi else ('rng', (lo, hi))
                return e
            # the unsigned range idiom `(size_t)v - K1 < K`: the subtraction wraps for v < K1, so the comparison holds exactly for
            # K1 <= v < K1 + K (the false arm is a union of two ranges and is not represented)
            if x.get('k') == 'bin' and x.get('op') == '-' and x.get('s') == 0 and o in ('<', '<=') and K >= 0:
                K1 = const_int(x['r'])
                inner = strip(x['l'])
                a1 = ap(inner)
                if K1 is not None and K1 >= 0 and a1 is not None and not inner.get('p'):
                    lo, hi, ex = env.intf(a1)
                    nlo = max(lo, K1)
                    nhi = min(hi, K1 + K - (1 if o == '<' else 0))
                    if nlo > nhi:
                        return None
                    e = env.copy()
                    e.set_int(a1, (nlo, nhi, frozenset(v for v in ex if nlo <= v <= nhi)))
                    return e
            a = ap(x)
            if a is None:
                continue
            lo, hi, ex = env.intf(a)
            if o == '==':
                if K < lo or K > hi or K in ex:
                    return None
                lo = hi = K
                ex = frozenset()
            elif o == '!=':
                if lo == hi == K:
                    return None
                if K == lo:
                    lo += 1
                elif K == hi:
                    hi -= 1
                elif lo < K < hi:
                    ex = frozenset(ex | {K})
            elif o == '<':
                hi = min(hi, K - 1)
            elif o == '<=':
                hi = min(hi, K)
            elif o == '>':
                lo = max(lo, K + 1)
            elif o == '>=':
                lo = max(lo, K)
            if lo > hi:
                return None
            while lo in ex and lo <= hi:
                lo += 1
            while hi in ex and hi >= lo:
                hi -= 1
            if lo > hi:
                return None
            if (lo, hi, ex) == env.intf(a):
                return env
            e = env.copy()
            e.set_int(a, (lo, hi, frozenset(x_ for x_ in ex if lo < x_ < hi)))
            return e
    if k == 'bin' and c.get('op') == '&':
        # flag test: (x & MASK)
        K = const_int(c['r'])
        a = env.canon(ap(c['l']))
        if K is not None and a is not None:
            kk = 'flag:%s&%d' % (a, K)
            cur = env.atoms.get(kk)
            if cur is not None:
                return env if cur == truth else None
            e = env.copy()
            e.atoms[kk] = truth
            return e
    if not has_side_effect(c):
        kk = key(c)
        cur = env.atoms.get(kk)
        if cur is not None:
            return env if cur == truth else None
        e = env.copy()
        e.atoms[kk] = truth
        return e
    return env


def join_env(a, b):
    """ESP merge: same typestate key; keep only facts common to both"""
    e = Env(dict(a.ts))
    e.null = {k: v for k, v in a.null.items() if b.null.get(k) == v}
    for k, v in a.ints.items():
        w = b.ints.get(k)
        if w is None:
            continue
        lo, hi = min(v[0], w[0]), max(v[1], w[1])
        ex = frozenset((v[2] & w[2]) | {x for x in v[2] if x < w[0] or x > w[1]} | {x for x in w[2] if x < v[0] or x > v[1]})
        if lo == -INF and hi == INF and not ex:
            continue
        e.ints[k] = (lo, hi, ex)
    e.atoms = {k: v for k, v in a.atoms.items() if b.atoms.get(k) == v}
    e.ret = {k: v for k, v in a.ret.items() if b.ret.get(k) == v}
    e.alias = {k: v for k, v in a.alias.items() if b.alias.get(k) == v}
    return e


class Ctx:
    """what a rule's event handler may ask the solver"""
    def __init__(self, f):
        self.f = f
        self.block = None
        self.cur_key = None
        self.pred = {}
        self.steps = 0

    def path(self, limit=60):
        """a witness: sequence of (block id, first line of block) leading to the current block"""
        out = []
        node = (self.block['id'], self.cur_key)
        seen = set()
        while node is not None and node not in seen and len(out) < limit:
            seen.add(node)
            b = self.f['B'][node[0]]
            loc = None
            if b['elems']:
                loc = b['elems'][0]['loc']
            elif b.get('term'):
                loc = b['term']['loc']
            out.append({'block': node[0], 'loc': loc})
            node = self.pred.get(node)
        out.reverse()
        return out


PURE_CALLS = {'coap_log_impl', 'coap_get_log_level', '__assert_fail', 'memcmp', 'strlen', 'strcmp', 'strncmp',
              'coap_ticks', 'coap_address_equals', 'coap_string_equal_internal', 'coap_binary_equal_internal'}


CONST_PARAMS = {}      # function name -> indexes of parameters declared `const T *` (filled by Prog)


def apply_generic(ev, env, R=None):
    """generic transfer for assignments / ++ / -- / declarations / calls: kills, constants, aliases.
    R: if given, the set of access paths worth recording facts for (others are only killed)."""
    t = ev['e']
    k = t.get('k')
    if k == 'asg':
        tgt = ap(t['l'])
        if not tgt:
            return env
        e = env.copy()
        ctgt = env.canon(tgt)
        e.kill(tgt)
        if ctgt != tgt and not _plain_local(tgt):
            e.kill(ctgt)
        if t.get('op') != '=':
            K = const_int(t['r']) if t.get('op') in ('-=', '+=') else None
            if K is not None and K > 0 and (R is None or tgt in R or ctgt in R):
                lo, hi, ex = env.intf(tgt)
                unsigned = isinstance(strip(t['l']), dict) and strip(t['l']).get('s') == 0
                if t['op'] == '-=' and unsigned and lo != -INF and lo >= K:
                    # an unsigned value known to be at least K is lowered by K without wrapping
                    e.ints[tgt] = (lo - K, hi - K if hi != INF else hi, frozenset(x - K for x in ex if x - K >= 0))
            return e
        if R is not None and tgt not in R and ctgt not in R:
            # still record aliases for plain locals: they are cheap and needed for canon()
            r = strip(t['r'])
            ra = ap(r)
            if ra and _plain_local(tgt) and not ra.startswith(tgt) and isinstance(r, dict) and r.get('k') != 'un':
                e.alias[tgt] = env.canon(ra)
            return e
        _record_value(e, env, tgt, t['l'], t['r'])
        return e
    if k == 'un' and t.get('op') in ('++', '--'):
        tgt = ap(t['e'])
        if not tgt:
            return env
        e = env.copy()
        ctgt = env.canon(tgt)
        lo, hi, ex = env.intf(tgt)
        e.kill(tgt)
        if ctgt != tgt and not _plain_local(tgt):
            e.kill(ctgt)
        if lo == hi and lo not in (-INF, INF) and (R is None or tgt in R or ctgt in R):
            d = 1 if t['op'] == '++' else -1
            e.ints[tgt] = (lo + d, hi + d, frozenset())
        elif t['op'] == '--' and (R is None or tgt in R or ctgt in R) and isinstance(strip(t['e']), dict) and strip(t['e']).get('s') == 0 \
                and (lo >= 1 or 0 in ex) and (lo != -INF or hi != INF or ex):
            # an unsigned value known non-zero is stepped down without wrapping: the interval and the excluded values move with it
            # (`if (!len) return; if (len == 1) return; len--;` leaves len known non-zero)
            nex = frozenset(x - 1 for x in ex if x - 1 >= 0)
            e.ints[tgt] = (lo - 1 if lo != -INF else lo, hi - 1 if hi != INF else hi, nex)
        return e
    if k == 'decl':
        e = env
        for d in t['d']:
            a = 'v%d' % d['id']
            e = e.copy()
            e.kill(a)
            if 'init' in d:
                if R is not None and a not in R:
                    r = strip(d['init'])
                    ra = ap(r)
                    if ra and isinstance(r, dict) and r.get('k') != 'un':
                        e.alias[a] = env.canon(ra)
                    continue
                _record_value(e, env, a, d, d['init'])
        return e
    if k == 'call':
        fn = t.get('fn')
        if fn in PURE_CALLS:
            return env
        e = None
        cpar = CONST_PARAMS.get(fn, ())
        for ai, arg in enumerate(t.get('a', [])):
            x = strip(arg)
            if not isinstance(x, dict):
                continue
            if ai in cpar:
                continue          # handed to a `const T *` parameter: the callee cannot write through it
            if x.get('k') == 'un' and x.get('op') == '&':
                a = ap(x['e'])
                if a:
                    e = e or env.copy()
                    e.kill(env.canon(a))
                    e.kill(a)
            elif x.get('p') and not x.get('pc'):
                a = ap(x)
                if a:
                    e = e or env.copy()
                    e.kill_reach(env.canon(a))
                    if env.canon(a) != a:
                        e.kill_reach(a)
        # globals may change in any non-pure call
        gk = [kk for kk in env.ints if kk.startswith('g:')] + [kk for kk in env.null if kk.startswith('g:')]
        if gk:
            e = e or env.copy()
            for kk in gk:
                e.ints.pop(kk, None)
                e.null.pop(kk, None)
        return e or env
    return env


def _plain_local(a):
    return a.startswith('v') and '->' not in a and '.' not in a and '[' not in a and '*' not in a


def _record_value(e, env, tgt, lnode, rnode):
    r = strip(rnode)
    if not isinstance(r, dict):
        return
    ctgt = tgt
    K = const_int(r)
    ra = ap(r)
    if is_null_const(r) and lnode.get('p'):
        e.null[ctgt] = 'Z'
    elif K is not None:
        e.ints[ctgt] = (K, K, frozenset())
    elif r.get('k') == 'un' and r.get('op') == '&':
        e.null[ctgt] = 'N'
    elif r.get('k') in ('str', 'fn'):
        e.null[ctgt] = 'N'
    elif ra and not ra.startswith(tgt):
        cra = env.canon(ra)
        nv = env.nullf(ra)
        if nv:
            e.null[ctgt] = nv
        iv = env.intf(ra)
        if iv != (-INF, INF, frozenset()):
            e.ints[ctgt] = iv
        if _plain_local(tgt) and not cra.startswith(tgt):
            e.alias[tgt] = cra
    elif r.get('k') == 'call':
        rc = env.ret.get(key(r))
        if rc:
            if rc[0] == 'eq':
                if lnode.get('p'):
                    if rc[1] == 0:
                        e.null[ctgt] = 'Z'
                else:
                    e.ints[ctgt] = (rc[1], rc[1], frozenset())
            elif rc[0] == 'ne':
                if lnode.get('p') and rc[1] == 0:
                    e.null[ctgt] = 'N'
                elif not lnode.get('p'):
                    e.ints[ctgt] = (-INF, INF, frozenset({rc[1]}))
            elif rc[0] == 'nz':
                if lnode.get('p'):
                    e.null[ctgt] = 'N'
                else:
                    e.ints[ctgt] = (-INF, INF, frozenset({0}))
            elif rc[0] == 'rng':
                e.ints[ctgt] = (rc[1][0], rc[1][1], frozenset())
    elif r.get('k') == 'cond':
        # x = c ? K1 : K2
        k1, k2 = const_int(r['x']), const_int(r['y'])
        if k1 is not None and k2 is not None:
            e.ints[ctgt] = (min(k1, k2), max(k1, k2), frozenset())
        elif not lnode.get('p'):
            from . import ivl
            rng = ivl.eval_raw(rnode, env)
            tr = ivl.type_range(lnode) if (lnode.get('w') or lnode.get('bf')) else (-INF, INF)
            if rng[0] != -INF and rng[1] != INF and ivl.fits(rng, tr) and rng != tr:
                e.ints[ctgt] = (rng[0], rng[1], frozenset())
    elif r.get('k') == 'bin' and r.get('op') in ('&', '>>', '%', '+', '-', '<<', '*', '/') and not lnode.get('p'):
        # masks / shifts / small arithmetic: keep the interval when it is finite and not the whole type
        from . import ivl
        rng = ivl.eval_raw(rnode, env)
        tr = ivl.type_range(lnode) if (lnode.get('w') or lnode.get('bf')) else (-INF, INF)
        if rng[0] != -INF and rng[1] != INF and ivl.fits(rng, tr) and rng != tr:
            e.ints[ctgt] = (rng[0], rng[1], frozenset())


def solve(f, inits, on_event, on_exit=None, relevant=None, R=None, key_fn=None,
          max_steps=200000, max_envs=256, on_branch=None):
    """Run the property simulation on function f.
    inits     : Env or list of Env at function entry
    on_event  : (ev, env, ctx) -> None (generic transfer applies) | list of Env (taken as is)
    on_exit   : (env, ctx, kind) called once per distinct environment reaching an exit
                (kind 'return' for the exit block)
    relevant  : set of block ids whose branch condition is interpreted (None = all)
    R         : access paths for which value facts are recorded (None = all)
    key_fn    : env -> hashable typestate key (default: env.ts items)
    returns the Ctx (steps etc.)
    """
    B = f['B']
    IN = collections.defaultdict(dict)
    dirty = collections.defaultdict(list)
    ctx = Ctx(f)
    if key_fn is None:
        def key_fn(e):
            return tuple(sorted(e.ts.items(), key=repr))

    def push(bid, e, frm):
        k = key_fn(e)
        cur = IN[bid].get(k)
        if cur is None:
            if len(IN[bid]) >= max_envs:
                raise Budget('%s: more than %d environments at block %d' % (f['name'], max_envs, bid))
            IN[bid][k] = e
            ctx.pred[(bid, k)] = frm
            if k not in dirty[bid]:
                dirty[bid].append(k)
            return True
        if cur is e:
            return False
        j = join_env(cur, e)
        if not (j.null == cur.null and j.ints == cur.ints and j.atoms == cur.atoms and j.ret == cur.ret
                and j.alias == cur.alias and j.ts == cur.ts):
            IN[bid][k] = j
            if k not in dirty[bid]:
                dirty[bid].append(k)
            return True
        return False

    if isinstance(inits, Env):
        inits = [inits]
    for e in inits:
        push(f['entry'], e, None)
    work = [f['entry']]
    exits = {}
    while work:
        bid = work.pop()
        ks = dirty[bid]
        dirty[bid] = []
        b = B[bid]
        for k in ks:
            env = IN[bid].get(k)
            if env is None:
                continue
            ctx.steps += 1
            if ctx.steps > max_steps:
                raise Budget('%s: more than %d block visits' % (f['name'], max_steps))
            ctx.block = b
            ctx.cur_key = k
            envs = [env]
            for ev in b['elems']:
                nxt = []
                for e in envs:
                    r = on_event(ev, e, ctx)
                    if r is None:
                        nxt.append(apply_generic(ev, e, R))
                    else:
                        nxt.extend(r)
                envs = nxt
                if not envs:
                    break
            if not envs or b.get('noret'):
                continue
            succ = b['succ']
            if bid == f['exit'] or not succs(b):
                for e in envs:
                    fk = e.freeze()
                    if fk not in exits:
                        exits[fk] = (e, (bid, k))
                continue
            term = b.get('term')
            out = []
            track = (relevant is None) or (bid in relevant)
            for e in envs:
                if term and term.get('c') == 'SwitchStmt' and term.get('cond') is not None:
                    a = ap(term['cond']) if track else None
                    cases = [B[s]['label']['lo'] for s in succ if s is not None and (B[s].get('label') or {}).get('k') == 'case' and 'hi' not in B[s]['label']]
                    for s in succ:
                        if s is None:
                            continue
                        lab = B[s].get('label')
                        e2 = e
                        if a:
                            lo, hi, ex = e.intf(a)
                            if lab and lab.get('k') == 'case' and 'hi' not in lab:
                                v = lab['lo']
                                if v < lo or v > hi or v in ex:
                                    continue
                                e2 = e.copy()
                                e2.set_int(a, (v, v, frozenset()))
                            elif not lab or lab.get('k') in ('default', 'label'):
                                # default arm (explicit or implicit): none of the case values
                                if lo == hi and lo in cases:
                                    continue
                                e2 = e.copy()
                                e2.set_int(a, (lo, hi, frozenset(ex | set(c for c in cases if lo <= c <= hi))))
                        if on_branch:
                            e2 = on_branch(b, s, e2, ctx)
                            if e2 is None:
                                continue
                        out.append((s, e2))
                elif term and term.get('cond') is not None and len(succ) == 2:
                    cond = term['cond']
                    for s, truth in ((succ[0], True), (succ[1], False)):
                        if s is None:
                            continue
                        if track:
                            e2 = assume(cond, truth, e)
                            if e2 is None:
                                continue
                        else:
                            e2 = e
                        if on_branch:
                            e2 = on_branch(b, s, e2, ctx)
                            if e2 is None:
                                continue
                        out.append((s, e2))
                else:
                    for s in succ:
                        if s is not None:
                            out.append((s, e))
            for s, e2 in out:
                if push(s, e2, (bid, k)) and s not in work:
                    work.append(s)
    if on_exit:
        for e, node in exits.values():
            ctx.block = B[node[0]]
            ctx.cur_key = node[1]
            on_exit(e, ctx)
    ctx.nstates = sum(len(v) for v in IN.values())
    return ctx


# ------------------------------------------------------------------ relevance (ESP-style)
def relevance(f, is_rule_event, extra_aps=()):
    """returns (relevant branch block ids, relevant access paths):
    transitive control dependence of rule events, conditions that test the result of a
    rule-event call, and conditions sharing an access path with either"""
    B = f['B']
    cd = control_deps(f)
    br = branches(f)
    evb = set(b['id'] for b in f['blocks'] if any(is_rule_event(ev) for ev in b['elems']))
    ctrl = set()
    work = list(evb)
    seen = set()
    while work:
        e = work.pop()
        if e in seen:
            continue
        seen.add(e)
        for (c, _i) in cd.get(e, ()):
            if c not in ctrl:
                ctrl.add(c)
                work.append(c)
    for b in br:
        if any(is_rule_event(ev) and ev['e'].get('k') == 'call' for ev in b['elems']):
            cond = b['term']['cond']
            if any(isinstance(y, dict) and y.get('k') == 'call' for y in walk(cond)):
                ctrl.add(b['id'])
    R = set(extra_aps)
    for i in ctrl:
        R |= aps_of(B[i]['term']['cond'])
    # close R under simple copies (x = y where x in R  =>  y in R)
    changed = True
    n = 0
    while changed and n < 4:
        changed = False
        n += 1
        for b in f['blocks']:
            for ev in b['elems']:
                t = ev['e']
                if t.get('k') == 'asg' and t.get('op') == '=':
                    l, r = ap(t['l']), ap(t['r'])
                    if l in R and r and r not in R:
                        R.add(r)
                        changed = True
                elif t.get('k') == 'decl':
                    for d in t['d']:
                        if 'init' in d and ('v%d' % d['id']) in R:
                            r = ap(d['init'])
                            if r and r not in R:
                                R.add(r)
                                changed = True
    keys = set()
    for b in br:
        if b['id'] in ctrl or (aps_of(b['term']['cond']) & R):
            keys.add(b['id'])
    return keys, R
