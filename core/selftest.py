"""Fixture self-tests: every fixtures/<prop>_*.c is compiled through the same extractor and
run through the rule(s) it names; lines marked `// EXPECT <rule-id>` must be reported at that
line, everything else must be silent.  A mismatch is exit 2 (analysis broken): it keeps rules
whose expected count on libcoap is zero from passing vacuously."""
import os, re, glob, tempfile, shutil, importlib
from . import facts
from .facts import AnalysisBroken, VERIF
from .prog import Prog
from .report import Run

FIXDIR = os.path.join(VERIF, 'fixtures')


def _parse(cfile):
    rules_line = None
    expect = set()
    for i, line in enumerate(open(cfile), 1):
        m = re.search(r'//\s*RUN:\s*(\S+)', line)
        if m:
            rules_line = m.group(1)
        for m in re.finditer(r'EXPECT\s+(R-[A-Z0-9-]+)', line):
            expect.add((m.group(1), i))
    return rules_line, expect


def run_fixture(cfile):
    entry, expect = _parse(cfile)
    if not entry:
        raise AnalysisBroken('fixture %s has no RUN: line' % cfile)
    tmp = tempfile.mkdtemp(prefix='verif-fx-')
    try:
        facts.extract_fixture(cfile, tmp)
        P = Prog(tmp)
        r = Run('FIXTURE', 'quick')
        r.fixture_mode = True
        r.known = []
        mod, fn = entry.rsplit('.', 1)
        getattr(importlib.import_module(mod), fn)(r, P)
        got = set()
        for v in r.violations:
            try:
                got.add((v['rule'], int(v['loc'].rsplit(':', 1)[1])))
            except (ValueError, IndexError):
                got.add((v['rule'], -1))
        missing = expect - got
        extra = got - expect
        return {'fixture': os.path.basename(cfile), 'expected': len(expect), 'reported': len(got),
                'missing': sorted(missing), 'extra': sorted(extra), 'ok': not missing and not extra}
    finally:
        shutil.rmtree(tmp, ignore_errors=True)


def run_for(prop, run):
    files = sorted(glob.glob(os.path.join(FIXDIR, prop + '_*.c')))
    for cf in files:
        res = run_fixture(cf)
        run.fixture_results.append(res)
        if not res['ok']:
            raise AnalysisBroken('fixture %s misbehaved: missing %s, unexpected %s' % (res['fixture'], res['missing'], res['extra']))
    return len(files)


def main():
    bad = 0
    files = sorted(glob.glob(os.path.join(FIXDIR, '*.c')))
    for cf in files:
        try:
            res = run_fixture(cf)
        except AnalysisBroken as e:
            print('FIXTURE-BROKEN', os.path.basename(cf), e)
            bad += 1
            continue
        print('%-40s expected=%d reported=%d %s' % (res['fixture'], res['expected'], res['reported'], 'ok' if res['ok'] else 'MISMATCH missing=%s extra=%s' % (res['missing'], res['extra'])))
        if not res['ok']:
            bad += 1
    print('%d fixtures, %d bad' % (len(files), bad))
    return 2 if bad else 0
