"""Program model over the extracted facts: functions, records, globals, call graph,
expression-tree helpers, dominators / post-dominators / control dependence."""
import json, glob, os, collections
from .facts import AnalysisBroken

INF = float('inf')


# ------------------------------------------------------------------ expression helpers
def strip(x):
    """drop casts"""
    while isinstance(x, dict) and x.get('k') == 'cast':
        x = x.get('e')
    return x


def walk(x):
    if isinstance(x, dict):
        yield x
        for v in x.values():
            if isinstance(v, (dict, list)):
                yield from walk(v)
    elif isinstance(x, list):
        for v in x:
            yield from walk(v)


def is_null_const(x):
    x = strip(x)
    return isinstance(x, dict) and (x.get('k') == 'nullptr' or (x.get('k') == 'int' and x.get('v') == 0))


def const_int(x):
    x = strip(x)
    if isinstance(x, dict) and x.get('k') == 'int':
        v = x.get('v')
        if isinstance(v, int):
            return v
        try:
            return int(v)
        except (TypeError, ValueError):
            return None
    return None


def ap(x):
    """access path string of an lvalue-ish expression, or None.
    locals: v<id>; globals: g:<name>; fields ->f / .f; *p; &x; a[3] / a[]"""
    x = strip(x)
    if not isinstance(x, dict):
        return None
    k = x.get('k')
    if k == 'var':
        return ('g:' + x['n']) if x.get('g') else 'v%d' % x['id']
    if k == 'mem':
        b = ap(x['b'])
        return None if b is None else b + ('->' if x['arrow'] else '.') + x['f']
    if k == 'un' and x.get('op') == '*':
        b = ap(x['e'])
        if b is None:
            return None
        return b[1:] if b.startswith('&') else '*' + b
    if k == 'un' and x.get('op') == '&':
        b = ap(x['e'])
        if b is None:
            return None
        return b[1:] if b.startswith('*') else '&' + b
    if k == 'sub':
        b = ap(x['b'])
        i = const_int(x['i'])
        return None if b is None else b + ('[%d]' % i if i is not None else '[]')
    return None


def root_var(x):
    """the variable node an access path is rooted at"""
    x = strip(x)
    while isinstance(x, dict):
        k = x.get('k')
        if k == 'var':
            return x
        if k == 'mem' or k == 'sub':
            x = strip(x['b'])
        elif k == 'un' and x.get('op') in ('*', '&'):
            x = strip(x['e'])
        elif k == 'bin' and x.get('op') in ('+', '-'):
            x = strip(x['l'])
        else:
            return None
    return None


def short(t):
    """human readable rendering of an expression tree"""
    if not isinstance(t, dict):
        return str(t)
    k = t.get('k')
    if k == 'var':
        return t['n']
    if k == 'fn':
        return t['n']
    if k == 'int':
        return t.get('en') or t.get('mn') or str(t['v'])
    if k == 'nullptr':
        return 'NULL'
    if k == 'mem':
        return short(t['b']) + ('->' if t['arrow'] else '.') + t['f']
    if k == 'call':
        return (t.get('fn') or '(*' + short(t.get('callee')) + ')') + '(' + ','.join(short(a) for a in t['a']) + ')'
    if k in ('bin', 'asg'):
        return '(' + short(t['l']) + ' ' + t['op'] + ' ' + short(t['r']) + ')'
    if k == 'un':
        return (short(t['e']) + t['op']) if t.get('post') else (t['op'] + short(t['e']))
    if k == 'cast':
        return ('(%s)' % t.get('t', '?') if t.get('ex') else '') + short(t['e'])
    if k == 'sub':
        return short(t['b']) + '[' + short(t['i']) + ']'
    if k == 'cond':
        return '(%s ? %s : %s)' % (short(t['c']), short(t['x']), short(t['y']))
    if k == 'ret':
        return 'return ' + (short(t['e']) if 'e' in t else '')
    if k == 'decl':
        return 'decl ' + ','.join(d['n'] + ('=' + short(d['init']) if 'init' in d else '') for d in t['d'])
    if k == 'str':
        return '"%s"' % t.get('v', '')[:24]
    return k or '?'


def key(t):
    """structural key of an expression (variable ids, not names)"""
    t = strip(t)
    if not isinstance(t, dict):
        return str(t)
    k = t.get('k')
    if k == 'var':
        return ap(t)
    if k == 'int':
        return str(t['v'])
    if k == 'nullptr':
        return '0'
    if k == 'fn':
        return 'fn:' + t['n']
    if k in ('mem', 'sub'):
        a = ap(t)
        if a:
            return a
        if k == 'mem':
            return key(t['b']) + ('->' if t['arrow'] else '.') + t['f']
        return key(t['b']) + '[' + key(t['i']) + ']'
    if k == 'call':
        return (t.get('fn') or '(*' + key(t.get('callee')) + ')') + '(' + ','.join(key(a) for a in t['a']) + ')'
    if k in ('bin', 'asg'):
        return '(' + key(t['l']) + t['op'] + key(t['r']) + ')'
    if k == 'un':
        a = ap(t)
        if a:
            return a
        return t['op'] + key(t['e'])
    if k == 'cond':
        return '(%s?%s:%s)' % (key(t['c']), key(t['x']), key(t['y']))
    if k == 'str':
        return '"%s"' % t.get('v', '')
    return '?' + short(t)


def aps_of(t):
    out = set()
    for y in walk(t):
        if isinstance(y, dict) and y.get('k') in ('var', 'mem', 'sub', 'un'):
            a = ap(y)
            if a:
                out.add(a)
    return out


def has_side_effect(t):
    for y in walk(t):
        if isinstance(y, dict) and (y.get('k') in ('call', 'asg', 'stmtexpr') or (y.get('k') == 'un' and y.get('op') in ('++', '--'))):
            return True
    return False


def calls_in(t):
    return [y for y in walk(t) if isinstance(y, dict) and y.get('k') == 'call']


def callee_field(t):
    """for an indirect call: the field (or variable) the function pointer is read from"""
    c = strip(t.get('callee'))
    while isinstance(c, dict) and c.get('k') == 'un' and c.get('op') == '*':
        c = strip(c.get('e'))
    if isinstance(c, dict):
        if c.get('k') == 'mem':
            return c['f']
        if c.get('k') == 'sub':
            b = strip(c['b'])
            if isinstance(b, dict) and b.get('k') == 'mem':
                return b['f']
            if isinstance(b, dict) and b.get('k') == 'var':
                return 'var:' + b['n']
        if c.get('k') == 'var':
            return 'var:' + c['n']
    return None


# ------------------------------------------------------------------ program
class Prog:
    def __init__(self, factsdir, only_units=None):
        self.dir = factsdir
        self.funcs = {}
        self.records = {}
        self.globals = {}
        self.decls = {}
        self.units = []
        self.dups = collections.defaultdict(list)
        files = sorted(glob.glob(os.path.join(factsdir, '*.json')))
        if not files:
            raise AnalysisBroken('no facts in ' + factsdir)
        for fn in files:
            unit = os.path.basename(fn)[:-5]
            if only_units and unit not in only_units:
                continue
            with open(fn) as fh:
                d = json.load(fh)
            if d.get('errors'):
                raise AnalysisBroken('unit %s had parse errors' % unit)
            self.units.append(unit)
            for k, v in d.get('records', {}).items():
                self.records.setdefault(k, v)
            for g in d.get('globals', []):
                self.globals.setdefault(g['n'], g)
            for k, v in d.get('decls', {}).items():
                self.decls.setdefault(k, set()).update(v)
            for f in d['functions']:
                if f.get('nocfg'):
                    continue
                f['unit'] = unit
                cur = self.funcs.get(f['name'])
                if cur is not None:
                    if cur['main'] and f['main'] and cur['unit'] != unit:
                        self.dups[f['name']].append(f)
                    if cur['main'] or not f['main']:
                        continue
                f['B'] = {b['id']: b for b in f['blocks']}
                self.funcs[f['name']] = f
        for f in self.funcs.values():
            if 'B' not in f:
                f['B'] = {b['id']: b for b in f['blocks']}
        self._cg = None
        self._stores = None
        # parameters declared pointer-to-const: a call cannot change what such an argument points to (used by the generic call transfer)
        from core import psts
        for f in self.funcs.values():
            cp = set(i for i, p in enumerate(f.get('params') or ()) if p.get('p') and p.get('pc'))
            if cp:
                psts.CONST_PARAMS[f['name']] = cp

    # -------------------------------------------------------------- basic queries
    def func(self, name):
        f = self.funcs.get(name)
        if f is None:
            raise AnalysisBroken('anchor function %s() not found' % name)
        return f

    def has(self, name):
        return name in self.funcs

    def lib_funcs(self):
        """functions defined in a .c file of the library (not header inlines of libc)"""
        return [f for f in self.funcs.values() if f['loc'].startswith(os.environ.get('VERIF_REPO', '/repo')) or f['main']]

    def events(self, f):
        for b in f['blocks']:
            for ev in b['elems']:
                yield b, ev

    def field(self, rec, name):
        for fl in self.records.get(rec, []):
            if fl['n'] == name:
                return fl
        return None

    def const_named(self, name):
        """value of an enum constant / object-like macro as the compiler folded it in the library.  The extractor labels every folded
        constant expression that BEGINS with a macro with that macro's name (`MACRO + 1` carries the name and the value of the sum), so the
        macro's own value is the most frequent one among the nodes that carry its name (ties: the value seen in the most functions,
        then the smaller)."""
        if not hasattr(self, '_consts'):
            cnt = collections.defaultdict(collections.Counter)
            for f in self.funcs.values():
                for b in f['blocks']:
                    items = [ev['e'] for ev in b['elems']]
                    if b.get('term') and b['term'].get('cond') is not None:
                        items.append(b['term']['cond'])
                    lab = b.get('label')
                    if lab and lab.get('k') == 'case' and (lab.get('en') or lab.get('mn')):
                        cnt[lab.get('en') or lab.get('mn')][lab['lo']] += 1
                    for it in items:
                        for y in walk(it):
                            if isinstance(y, dict) and y.get('k') == 'int':
                                for kk in ('en', 'mn'):
                                    if y.get(kk) and const_int(y) is not None:
                                        cnt[y[kk]][const_int(y)] += 1
            self._consts = dict((k, sorted(c.items(), key=lambda kv: (-kv[1], kv[0]))[0][0]) for k, c in cnt.items())
        if name not in self._consts:
            raise AnalysisBroken('constant %s is not used anywhere in the library' % name)
        return self._consts[name]

    def is_macro(self, node, name):
        """the node is the macro itself (not a folded expression that merely starts with it)"""
        node = strip(node)
        return isinstance(node, dict) and node.get('k') == 'int' and (node.get('mn') == name or node.get('en') == name) and const_int(node) == self.const_named(name)

    # -------------------------------------------------------------- indirect calls
    def fp_stores(self):
        """field/variable name -> set of function names stored into it anywhere"""
        if self._stores is not None:
            return self._stores
        st = collections.defaultdict(set)

        def fns(t):
            return [y['n'] for y in walk(t) if isinstance(y, dict) and y.get('k') == 'fn']
        for f in self.funcs.values():
            for b, ev in self.events(f):
                t = ev['e']
                if t.get('k') == 'asg' and t.get('op') == '=':
                    l = strip(t['l'])
                    names = fns(t['r'])
                    if not names:
                        continue
                    if l.get('k') == 'mem':
                        st[l['f']].update(names)
                    elif l.get('k') == 'sub':
                        bb = strip(l['b'])
                        if bb.get('k') == 'mem':
                            st[bb['f']].update(names)
                        elif bb.get('k') == 'var':
                            st['var:' + bb['n']].update(names)
                    elif l.get('k') == 'var':
                        st['var:' + l['n']].update(names)
                elif t.get('k') == 'decl':
                    for d in t['d']:
                        if 'init' in d:
                            names = fns(d['init'])
                            if names and d.get('p'):
                                st['var:' + d['n']].update(names)
        # global initialisers: struct tables of function pointers
        for g in self.globals.values():
            self._init_stores(g['init'], g.get('arec') or g.get('rrec'), st)
        self._stores = st
        return st

    def _init_stores(self, init, recname, st):
        init = strip(init)
        if not isinstance(init, dict):
            return
        if init.get('k') == 'complit':
            return self._init_stores(init['e'], recname, st)
        if init.get('k') != 'initlist':
            return
        items = [strip(i) for i in init['a']]
        fields = self.records.get(recname) if recname else None
        is_struct_level = fields is not None and len(items) <= len(fields) and not (
            len(items) > 0 and all(isinstance(i, dict) and i.get('k') == 'initlist' for i in items)
            and not (fields[0].get('alen') or fields[0].get('rrec')))
        if is_struct_level:
            for fl, it in zip(fields, items):
                if not isinstance(it, dict):
                    continue
                if it.get('k') in ('initlist', 'complit'):
                    self._init_stores(it, fl.get('arec') or fl.get('rrec'), st)
                else:
                    for y in walk(it):
                        if isinstance(y, dict) and y.get('k') == 'fn':
                            st[fl['n']].add(y['n'])
        else:
            for it in items:
                self._init_stores(it, recname, st)

    def resolve_call(self, call):
        """list of possible callee names for a call node (direct: one; indirect: stored functions)"""
        if call.get('fn'):
            return [call['fn']]
        fld = callee_field(call)
        if fld is None:
            return []
        return sorted(self.fp_stores().get(fld, ()))

    # -------------------------------------------------------------- call graph
    def callgraph(self):
        if self._cg is not None:
            return self._cg
        cg = collections.defaultdict(set)
        for n, f in self.funcs.items():
            for b, ev in self.events(f):
                t = ev['e']
                if t.get('k') == 'call':
                    for c in self.resolve_call(t):
                        cg[n].add(c)
        self._cg = cg
        return cg

    def callers(self, name):
        return sorted(n for n, cs in self.callgraph().items() if name in cs)

    def reachable_from(self, roots):
        cg = self.callgraph()
        seen = set()
        work = list(roots)
        while work:
            n = work.pop()
            if n in seen:
                continue
            seen.add(n)
            work.extend(cg.get(n, ()))
        return seen


# ------------------------------------------------------------------ CFG utilities
def succs(b):
    return [s for s in b['succ'] if s is not None]


def preds_map(f):
    pm = collections.defaultdict(list)
    for b in f['blocks']:
        for s in succs(b):
            pm[s].append(b['id'])
    return pm


def reachable_blocks(f):
    B = f['B']
    seen = set()
    work = [f['entry']]
    while work:
        i = work.pop()
        if i in seen:
            continue
        seen.add(i)
        if B[i].get('noret'):
            continue
        work.extend(succs(B[i]))
    return seen


def dominators(f):
    B = f['B']
    ids = sorted(reachable_blocks(f))
    pm = preds_map(f)
    en = f['entry']
    dom = {i: set(ids) for i in ids}
    dom[en] = {en}
    changed = True
    while changed:
        changed = False
        for i in ids:
            if i == en:
                continue
            ps = [p for p in pm[i] if p in dom and not B[p].get('noret')]
            new = (set.intersection(*(dom[p] for p in ps)) if ps else set()) | {i}
            if new != dom[i]:
                dom[i] = new
                changed = True
    return dom


def postdoms(f):
    """post-dominators; noreturn blocks are treated as not reaching the exit"""
    if '_pd' in f:
        return f['_pd']
    B = f['B']
    ids = list(B)
    ex = f['exit']
    pd = {i: set(ids) for i in ids}
    pd[ex] = {ex}
    changed = True
    while changed:
        changed = False
        for i in ids:
            if i == ex or B[i].get('noret'):
                continue
            ss = succs(B[i]) or [ex]
            new = set.intersection(*(pd[s] for s in ss)) | {i}
            if new != pd[i]:
                pd[i] = new
                changed = True
    f['_pd'] = pd
    return pd


def branches(f):
    return [b for b in f['blocks'] if len(succs(b)) >= 2 and b.get('term') and b['term'].get('cond') is not None]


def control_deps(f):
    """block id -> set of (branch block id, successor index) it is directly control dependent on"""
    if '_cd' in f:
        return f['_cd']
    pd = postdoms(f)
    cd = collections.defaultdict(set)
    for b in branches(f):
        for idx, s in enumerate(b['succ']):
            if s is None:
                continue
            # every block that post-dominates s but does not strictly post-dominate b
            for e in pd[s]:
                if not (e in pd[b['id']] and e != b['id']):
                    cd[e].add((b['id'], idx))
    f['_cd'] = cd
    return cd


def transitive_control_deps(f, bid):
    """set of (branch block id, successor index) the block transitively depends on"""
    cd = control_deps(f)
    out = set()
    work = [bid]
    seen = set()
    while work:
        e = work.pop()
        if e in seen:
            continue
        seen.add(e)
        for (c, idx) in cd.get(e, ()):
            out.add((c, idx))
            work.append(c)
    return out
