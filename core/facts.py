"""Configure /repo's current working tree with cmake (scratch dir, removed afterwards),
derive the compilation database of target coap-3 and run the cfgx extractor.

Facts are cached under /verif/.cache/<tree-hash>/<cfg>/<mode>/ so the checks of one
tree state share one extraction.  Nothing is ever read from /repo/_build.
"""
import os, sys, json, hashlib, subprocess, shutil, tempfile, fcntl, time, re, shlex, glob
from concurrent.futures import ThreadPoolExecutor

VERIF = os.path.dirname(os.path.dirname(os.path.abspath(__file__)))
REPO = os.environ.get('VERIF_REPO', '/repo')
CACHE = os.path.join(VERIF, '.cache')
CFGX = os.path.join(VERIF, '.build', 'cfgx')
RESDIR = '/usr/lib/llvm-14/lib/clang/14.0.6'


class AnalysisBroken(Exception):
    """exit 2: an anchor vanished, a unit failed to parse, a fixture misbehaved, ..."""


# build-option configurations ("cfg").  'base' is the shipped one.
BASE_OPTS = ['-DENABLE_TESTS=ON', '-DENABLE_DOCS=OFF', '-DCMAKE_BUILD_TYPE=RelWithDebInfo']
CFGS = {
    'base': [],
    'noepoll': ['-DWITH_EPOLL=OFF'],
    'noqblock': ['-DENABLE_Q_BLOCK=OFF'],
    'noepoll_noqblock': ['-DWITH_EPOLL=OFF', '-DENABLE_Q_BLOCK=OFF'],
    'notcp': ['-DENABLE_TCP=OFF', '-DENABLE_WS=OFF'],
    'nooscore': ['-DENABLE_OSCORE=OFF'],
    'smallstack': ['-DENABLE_SMALL_STACK=ON'],
    'serveronly': ['-DENABLE_CLIENT_MODE=OFF', '-DENABLE_PROXY_CODE=OFF', '-DENABLE_EXAMPLES=OFF', '-DENABLE_TESTS=OFF'],
    'clientonly': ['-DENABLE_SERVER_MODE=OFF', '-DENABLE_PROXY_CODE=OFF', '-DENABLE_EXAMPLES=OFF', '-DENABLE_TESTS=OFF'],
    'reccheck': ['-DENABLE_THREAD_RECURSIVE_LOCK_CHECK=ON'],
}
# preprocessor modes
#   rel : exactly the shipped flags (-DNDEBUG)
#   dbg : -UNDEBUG (asserts visible: the project's own precondition markers)
#   ts  : -UNDEBUG and COAP_THREAD_SAFE forced to 1 through a shadowing coap3/coap_defines.h
MODES = ('rel', 'dbg', 'ts')


def tree_hash():
    h = hashlib.sha256()
    roots = ['src', 'include', 'cmake']
    files = []
    for r in roots:
        for dp, dn, fn in os.walk(os.path.join(REPO, r)):
            dn.sort()
            for f in sorted(fn):
                files.append(os.path.join(dp, f))
    for f in sorted(os.listdir(REPO)):
        p = os.path.join(REPO, f)
        if os.path.isfile(p) and (f.endswith('.in') or f.endswith('.sym') or f.endswith('.map') or f == 'CMakeLists.txt'):
            files.append(p)
    for p in files:
        h.update(p.encode())
        try:
            with open(p, 'rb') as fh:
                h.update(hashlib.sha256(fh.read()).digest())
        except OSError:
            h.update(b'?')
    # extractor version participates
    with open(os.path.join(VERIF, 'cfgx', 'cfgx.cc'), 'rb') as fh:
        h.update(hashlib.sha256(fh.read()).digest())
    return h.hexdigest()[:20]


def _evict(keep):
    try:
        ents = [(os.path.getmtime(os.path.join(CACHE, d)), d) for d in os.listdir(CACHE)
                if os.path.isdir(os.path.join(CACHE, d)) and d != keep]
    except OSError:
        return
    ents.sort(reverse=True)
    now = time.time()
    for mt, d in ents[5:]:
        if now - mt < 1800:
            continue          # possibly in use by a concurrent run (another tree / configuration)
        shutil.rmtree(os.path.join(CACHE, d), ignore_errors=True)


def _scratch_root():
    base = os.environ.get('VERIF_SCRATCH') or os.environ.get('TMPDIR') or '/tmp'
    return base


def _configure(cfg, scratch):
    """cmake configure into scratch; returns list of compile commands of target coap-3."""
    cmd = ['cmake', '-G', 'Ninja', '-S', REPO, '-B', scratch] + BASE_OPTS + CFGS[cfg]
    r = subprocess.run(cmd, stdout=subprocess.PIPE, stderr=subprocess.STDOUT, text=True)
    if r.returncode != 0:
        raise AnalysisBroken('cmake configure failed for cfg %s:\n%s' % (cfg, r.stdout[-2000:]))
    r = subprocess.run(['ninja', '-C', scratch, '-t', 'compdb'], stdout=subprocess.PIPE, stderr=subprocess.PIPE, text=True)
    if r.returncode != 0:
        raise AnalysisBroken('ninja -t compdb failed: ' + r.stderr[-500:])
    db = json.loads(r.stdout)
    seen = set()
    out = []
    for e in db:
        if 'coap-3.dir' not in e.get('output', ''):
            continue
        if not e['file'].endswith('.c') or e['file'] in seen:
            continue
        seen.add(e['file'])
        out.append(e)
    if len(out) < 20:
        raise AnalysisBroken('compilation database has only %d units of target coap-3' % len(out))
    return out


def _clean_cmd(cmdline, mode, override_inc):
    toks = shlex.split(cmdline)
    out = ['clang']
    if override_inc:
        out.append('-I' + override_inc)
    i = 1
    while i < len(toks):
        t = toks[i]
        if t in ('-o', '-MF', '-MT', '-MQ'):
            i += 2
            continue
        if t in ('-MD', '-MMD', '-c') or t.startswith('-O') or t.startswith('-g') or t.startswith('-W') or t == '-pedantic':
            i += 1
            continue
        if mode in ('dbg', 'ts') and t == '-DNDEBUG':
            i += 1
            continue
        if t.startswith('-std='):
            i += 1
            continue
        out.append(t)
        i += 1
    out[1:1] = ['-std=gnu11', '-w', '-fsyntax-only', '-resource-dir', RESDIR]
    if mode in ('dbg', 'ts'):
        out.append('-UNDEBUG')
    return out


def _force_ts_header(scratch, dst_inc):
    src = os.path.join(scratch, 'include', 'coap3', 'coap_defines.h')
    txt = open(src).read()
    new, n = re.subn(r'(?m)^\s*#\s*define\s+COAP_THREAD_SAFE\b.*$', '#define COAP_THREAD_SAFE 1', txt)
    if n == 0:
        new, n2 = re.subn(r'(?m)^/\*\s*#\s*undef\s+COAP_THREAD_SAFE\s*\*/\s*$', '#define COAP_THREAD_SAFE 1', txt)
        if n2 == 0:
            new = txt.replace('#endif /* COAP_DEFINES_H_ */', '#define COAP_THREAD_SAFE 1\n#endif /* COAP_DEFINES_H_ */')
            if new == txt:
                new = txt + '\n#ifndef COAP_THREAD_SAFE\n#define COAP_THREAD_SAFE 1\n#endif\n'
    os.makedirs(os.path.join(dst_inc, 'coap3'), exist_ok=True)
    with open(os.path.join(dst_inc, 'coap3', 'coap_defines.h'), 'w') as fh:
        fh.write(new)


def _extract(entries, mode, scratch, outdir):
    os.makedirs(outdir, exist_ok=True)
    dbdir = tempfile.mkdtemp(prefix='db-' + mode + '-', dir=scratch)
    override = None
    if mode == 'ts':
        override = os.path.join(dbdir, 'inc')
        _force_ts_header(scratch, override)
    db = []
    for e in entries:
        db.append({'directory': e['directory'], 'file': e['file'],
                   'arguments': _clean_cmd(e['command'], mode, override)})
    with open(os.path.join(dbdir, 'compile_commands.json'), 'w') as fh:
        json.dump(db, fh)
    files = [e['file'] for e in entries]
    nproc = min(16, os.cpu_count() or 4)
    chunks = [files[i::nproc] for i in range(nproc)]
    chunks = [c for c in chunks if c]

    def run(chunk):
        return subprocess.run([CFGX, '-p', dbdir, '-o', os.path.abspath(outdir)] + chunk,
                              stdout=subprocess.PIPE, stderr=subprocess.STDOUT, text=True)
    with ThreadPoolExecutor(len(chunks)) as ex:
        res = list(ex.map(run, chunks))
    bad = [r.stdout[-1500:] for r in res if r.returncode != 0]
    if bad:
        shutil.rmtree(outdir, ignore_errors=True)
        raise AnalysisBroken('extractor failed (%s):\n%s' % (mode, bad[0]))
    got = glob.glob(os.path.join(outdir, '*.json'))
    if len(got) != len(files):
        shutil.rmtree(outdir, ignore_errors=True)
        raise AnalysisBroken('extractor wrote %d of %d units' % (len(got), len(files)))


def ensure(cfg='base', modes=('rel',)):
    """returns dict mode -> facts directory; builds what is missing"""
    if not os.path.exists(CFGX):
        raise AnalysisBroken('extractor not built: run setup.sh')
    th = tree_hash()
    root = os.path.join(CACHE, th, cfg)
    os.makedirs(root, exist_ok=True)
    lockf = open(os.path.join(CACHE, '.lock'), 'w')
    fcntl.flock(lockf, fcntl.LOCK_EX)
    try:
        need = [m for m in modes if not os.path.exists(os.path.join(root, m, '.done'))]
        if need:
            scratch = tempfile.mkdtemp(prefix='verif-cfg-', dir=_scratch_root())
            try:
                t0 = time.time()
                entries = _configure(cfg, scratch)
                gen = {}
                for rel in ('coap_config.h', 'include/coap3/coap_defines.h'):
                    p = os.path.join(scratch, rel)
                    gen[rel] = open(p).read() if os.path.exists(p) else None
                with open(os.path.join(root, 'generated.json'), 'w') as fh:
                    json.dump({'headers': gen, 'units': [e['file'] for e in entries],
                               'scratch': scratch, 'cmake_opts': BASE_OPTS + CFGS[cfg]}, fh)
                for m in need:
                    out = os.path.join(root, m)
                    shutil.rmtree(out, ignore_errors=True)
                    _extract(entries, m, scratch, out)
                    # paths of generated headers live in the scratch dir: make them stable
                    open(os.path.join(out, '.done'), 'w').write('%.1f' % (time.time() - t0))
            finally:
                shutil.rmtree(scratch, ignore_errors=True)
        _evict(th)
    finally:
        fcntl.flock(lockf, fcntl.LOCK_UN)
        lockf.close()
    os.utime(os.path.join(CACHE, th), None)
    return {m: os.path.join(root, m) for m in modes}, root


def extract_fixture(cfile, outdir, extra_flags=()):
    """run the extractor on a stand-alone fixture file"""
    os.makedirs(outdir, exist_ok=True)
    r = subprocess.run([CFGX, '-o', os.path.abspath(outdir), cfile, '--', 'clang', '-std=gnu11', '-w', '-fsyntax-only', '-resource-dir', RESDIR] + list(extra_flags),
                       stdout=subprocess.PIPE, stderr=subprocess.STDOUT, text=True)
    if r.returncode != 0:
        raise AnalysisBroken('fixture %s does not parse:\n%s' % (cfile, r.stdout[-1500:]))
    return os.path.join(outdir, os.path.basename(cfile) + '.json')
