#!/usr/bin/env python3
"""writes MANIFEST.json from the table below (keeps it valid and in one place)"""
import json, os
CHECKS = {
 'C11': dict(technique='path-sensitive typestate over coap_add_observer (look-up / delete before create), coap_notify_observers (limit test before NON, counter follows type) and the RST arm of coap_dispatch (R-OBS-REPLACE / -CON / -RST)',
             text='Decides three structural clauses that the statement of C11 names: a re-registration replaces rather than duplicates (a subscription is created only after '
                  'the look-up by session and token came out NULL and an entry for the same request was deleted by the token of that entry); at least every sixth notification is Confirmable (NON only '
                  'with non_cnt below COAP_OBS_MAX_NON, NON_ALWAYS or the final 4.04, and the counter reset / incremented to match the type before transmission); a Reset that '
                  'matches a queued notification cancels the observer; an observer skipped under back-pressure is marked dirty; a Reset only cancels an observer of the session it came from. Losing a session removes every observer of that session, not the first. A failed Confirmable notification is counted before the count is judged; a subscription is found only for the session that asks. Freshness and ordering of Observe values, eventual notification of the last state and the other '
                  'deregistration routes are temporal properties over histories and are not decided.',
             design='6 C11'),
 'C07': dict(technique='path-sensitive typestate over handle_response(): duplicate-arm / handler / emission-count / verdict agreement (R-RESP)',
             text='Decides four structural clauses that the statement of C07 names, on every path of handle_response(): a duplicate Confirmable response is answered '
                  'again exactly once and never re-delivered (and its message id is recorded before delivery); after the handler exactly one ACK or RST is sent for the '
                  'received PDU, the RST exactly for verdict FAIL on a non-ACK, with the recorded verdict agreeing; a non-ACK response cancels the request\'s '
                  'retransmission by token before delivery; a response consumed by sending the next Block1 is acknowledged; an ACK / RST / duplicate retires only the queued request of its own session and message id. On the server side the "request already pending" test and the scheduler\'s "due" test partition the values of an async delay (0 = indefinitely pending). The exactly-once conclusion over all loss / '
                  'duplication / delay patterns, the NACK side and the server\'s separate-response machinery are not decided.',
             design='6 C07'),
 'C02': dict(technique='taint + interval range checker with the decoder\'s option-length table as bound (R-RANGE), declared-length cap rule (R-STREAM-CAP), parse-before-dispatch and reject-arm typestate (R-PARSE-GATE), library-wide stale-buffer-pointer typestate (R-FIXUP), compare-within-length relation analysis on (pointer,length) pairs (R-CMP-BOUND), inductive capacity-guard rule on persistent element counts (R-COUNT-CAP), computed freeable-field/stale-copy typestate (R-STALE-COPY)',
             text='Decides necessary structural conditions of memory safety on the receive surface: wire-derived indices/copy sizes into fixed-size objects proven in '
                  'range (bounds taken from the decoder\'s own per-option table), CBOR-declared sizes compared with what is left, wire-derived shift counts bounded, '
                  'declared lengths capped with the session closed on excess, rejection of every malformed-input condition before dispatch, no use of a PDU buffer '
                  'pointer after a possible reallocation, every memcmp/strncmp over a length-delimited string bounded by that string\'s own length, and a persistent count that bounds a fixed array only incremented behind one common capacity guard, a function that was given a buffer\'s capacity compares against it before a variable-size copy, two-pass string builders count and store the same bytes, a length is passed with the bytes it measures, header fields of a received PDU index fixed tables only in range, CBOR reader reads covered by real remaining-length tests, no use of a local copy of an owned pointer field after a call that may free it. A separator is written by segment count as the measuring pass counted it, a maybe-NULL call result never reaches a dereferencing libc routine untested, and the token-extension bytes are read only where the datagram has them. A record field whose object was released is assigned again (or its holder disposed of) on every path. Absence of all memory errors / UB for all inputs and histories, termination and continued service are '
                  'not decided; persistent reader-state indices are declined.',
             design='6 C02'),
 'C14': dict(technique='case-label dataflow of option numbers into the outer/inner PDU roles against the RFC 8613 Figure 5 table, tested-result gating of the decrypt call (R-OSC-SPLIT), role typing of byte-string flows between the COSE object and the request/response association (R-OSC-ROLE), reaching definitions of the steering flags and read-before-overwrite of comparison results in the context look-up',
             text='Decides three clauses of C14: the outer/inner option split (no class E option reaches the unprotected PDU; unnamed options go inner), that no '
                  'message is accepted unless cose_encrypt0_decrypt returned > 0, and that the association carrying the request\'s AAD/nonce/partial IV to the response is filled, refreshed and read back from fields of the same role; plus two supporting clauses: a steering flag of the protect/unprotect functions is reached at its test by an assignment other than its initialiser, in the security-context look-up no comparison result is overwritten before it was read (a Recipient-ID mismatch cannot be forgotten), the option decoder examines all eight bits of the flag byte, and the CBOR head writer produces the RFC 8949 form at every boundary. While the received (outer) PDU is walked every class E option is discarded before options are copied inward. A response is protected with the context kept in the exchange\'s association, not with the session\'s latest one. Byte equality with an independent RFC 8613 implementation and the round trip '
                  'are not decided.',
             design='6 C14'),
 'C19': dict(technique='who-may-call plus path-fact gating at the call sites, single-writer rule on the established flag under the GNUTLS_E_SUCCESS case label (R-ROUTE), verdict typestate on the application\'s identity/hint validation callbacks (R-PSK-VERDICT), delivered-or-NACKed-before-delete typestate on delay-queue nodes (R-DELAYQ-NACK)',
             text='Decides the routing/gating clauses of C19: cleartext processing only for UDP or inside an established TLS record read, established only on '
                  'handshake success, session-connected and record I/O only afterwards, transmission only in state ESTABLISHED; in the PSK callbacks the application\'s verdict on an identity/hint is never replaced and a NULL verdict never reaches a success return, an installed identity / hint callback is consulted before every success return, the back end acts on a TLS event only after resetting the event field in the same call; a message taken off a delay queue is deleted only after its PDU went to the transport or, if Confirmable, to coap_handle_nack (or the queue was already drained by a reporting loop). The loop that sends what was queued during the handshake counts a Confirmable only on the arm that sends it. Credential acceptance (inside '
                  'GnuTLS), handshake schedules and the exactly-once count of NACKs over histories are not decided.',
             design='6 C19'),
 'C20': dict(technique='path-sensitive guard check of every store through the output cursor and of the space handed to the callee (R-OUT-BOUND), compare-within-length relation analysis in the query-filter matcher (R-CMP-BOUND), flag/field agreement (R-ATTR-FLAGS), More-bit equivalence by enumeration (R-BLK-MORE)',
             text='Decides two clauses of C20. Nothing is written outside the window the caller supplied: every cursor store holds cursor < end for the current '
                  'cursor value and coap_print_link receives end - cursor. The filter compares a pattern with a value/token/path only within, and decides an exact match against, the length of the string actually compared. An attribute string is copied or kept according to the release flag of that string, not of the other one. Every More bit computed for a body being sent (the block-wise GET of the listing included) equals `length - offset > bytes in this block`. Window/total/truncation exactness and the rest of the filter semantics are not decided.',
             design='6 C20'),
 'C09': dict(technique='call-exactly-once / hand-over / store-and-link typestate on the release callback (R-RELEASE-ONCE), compare-within-length relation analysis on the transfer keys (R-CMP-BOUND), More-bit equivalence by enumeration and read-after-resync of the block size (R-BLK-MORE), stepped-before-read typestate on label counters (R-FRESH-LABEL)',
             text='Decides three clauses of C09: a reassembled request body is handed to the application from a block with the More bit set only when the final block is known to have been seen; a response is handed up after a transfer record expired only with the application\'s token back in it; transfers are told apart by their full keys (token, Request-Tag, query, path compared only with the compared length known within/equal to both operands\' lengths), and the sender\'s release callback runs exactly once on every path of every function that takes a release_func and of '
                  'the lg_xmit deleter. Two genuine defects (request == NULL in coap_add_data_large_response_lkd; premature delivery of a Q-Block1 body without Size1) are known findings. Every More bit computed for a body being sent equals `length - offset > bytes in this block` (enumerated), and the block-size decision is never taken on the requested size once the function has selected its own. The ETag counter is stepped before a new body is labelled with it. Body integrity, tiling, '
                  'at-most-once delivery, token hiding and size fitting quantify over runtime lengths and schedules and are not decided.',
             design='6 C09'),
 'C10': dict(technique='linear ownership of the response object (R-OWN-PDU) and emission-count typestate over coap_dispatch/handle_request (R-REPLY-ONCE), flag/class agreement of the suppression decision table (R-SUPPRESS-TAB), ACK-only-under-a-type-test clause',
             text='Decides the clause "at most one direct reply per request datagram": every reply object is created once and sent or deleted exactly once on '
                  'every path, and no path passes two emission points except Empty ACK followed by the response. Also decides the internal agreement of the suppression table in no_response(): each per-resource multicast flag is paired with the response class its public name states on the arm its polarity demands, the No-Response bitmap is indexed with class-1; a queued Non-confirmable reply is flagged for a single transmission; an ACK is only made on paths that tested the answered message to be Confirmable; a token is copied into a reply with the length of the bytes it is copied from; the unknown-resource handler is only chosen after .well-known/core was ruled out. A helper that replies on behalf of the dispatcher reports "stop" after replying. A scan of the options that is restarted resets what it carried from the first pass. The reply-code table, handler selection '
                  'and when suppression applies are not decided.',
             design='6 C10'),
 'C06': dict(technique='send-queue node typestate {owned, in send queue, in delay queue, deleted} via the linear-ownership engine (R-OWN-NODE), gate/count/NACK-once typestate in coap_retransmit (R-RETRANS)',
             text='Decides on every path that a queue node has one owner and one disposal (never leaked, never deleted while linked in a delay queue, never used '
                  'after deletion), that retransmission is gated by retransmit_cnt < max_retransmit with exactly one increment, that a given-up Confirmable is '
                  'NACKed exactly once, that only Confirmables or flagged single-shot nodes enter the retransmit queue, and that a transmitted-and-counted Confirmable reaches the retransmit queue or is un-counted, whoever arms the I/O timer records the deadline it armed it for, and no test of a message id treats id 0 as failure. The base time of the send queue is only set with the queue known empty. Necessary for "ends in one outcome and is never sent again"; timing, byte-identical retransmission and behaviour '
                  'under loss patterns are not decided.',
             design='6 C06'),
 'C08': dict(technique='who-may-write census plus path-sensitive gate/in-hand typestate on the in-flight counter (R-CNT-CON)',
             text='Decides the accounting discipline of con_active on every path of every writer: writer kinds, decrement only with a send-queue node in hand, '
                  'increment only below the NSTART comparison, transmitters count, a dequeued-and-deleted Confirmable was un-counted, a counted Confirmable is queued or un-counted before the counting function returns, a reset of the counter is followed by draining the session\'s queued messages, the flush of held messages after an exchange ended comes after the decrement, no test of a message id treats id 0 as failure, and a node is retired only for its own session and message id. One genuine defect is a known finding. These are necessary for the in-flight bound; the bound itself under all '
                  'ACK/RST orders and the FIFO order of held messages are not decided.',
             design='6 C08'),
 'C15': dict(technique='who-may-write rule on the anti-replay fields (R-REPLAY-OWN), snapshot/restore and rollback-before-exit typestate (R-REPLAY-RB), must-pass-through validation (R-REPLAY-MUST), interval check of shift counts (R-RANGE), persist-before-use difference analysis on the sender sequence number and its watermark (R-SSN-ORDER), implicit-narrowing rule on stored 64-bit differences (R-WIDTH e)',
             text='Decides the state discipline behind replay protection: only the window functions write the replay fields, everything the validation modifies '
                  'is saved and restored on every path of the roll-back, unauthenticated exits roll back, every accepted request passed a successful validation, '
                  'window shifts are bounded, and the sender sequence number is stepped by +1 exactly once between its use as partial IV and the successful return with the watermark comparison implying used+1 <= saved value on the skipping arm and the other arm advancing and saving the watermark; a new sender context starts from the configured restart value or 0, never from the derived watermark; a freshly built Echo challenge is protected with its own Partial IV; the context that Appendix B.2 builds as a copy takes over every setting the configuration constructor reads. Seven genuine defects of the current tree (upstream design flaws that need a coordinated rewrite) are recorded '
                  'in known_findings.txt and printed as KNOWN-FINDING on every run; any other violation fails. The distance of an incoming sequence number behind the newest one keeps its 64 bits until the window test judged it. Acceptance over histories and the numeric side of the watermark (ssn_freq >= 1, start-up rounding) '
                  'are not decided.',
             design='6 C15'),
 'C16': dict(technique='cursor/remaining-length availability analysis of look-ahead reads (R-LEN-READ), constant evaluation of the character-class predicates over all 256 bytes (R-URI-CLASS), per-byte agreement of measuring and filling loops (R-SIZE-FILL), NULL-check typestate (R-ALLOC-NULL)',
             text='Decides that the URI scanners never read behind the length-delimited input (every cursor[k] read is covered by a proven lower bound of the '
                  'remaining length, decode_segment only after a tested check_segment), that the unescaped sets used by the path/query reconstruction exclude the '
                  'separator and the escape character (necessary for injectivity of the lookup key), that the measuring and the filling pass of the reconstruction count and store the same number of bytes for every byte value, that a port number cannot leave its digit loop out of range without being rejected, that percent-escapes are recognised in both hex cases, and that optlist allocations are checked. A `..` segment can only remove path segments this conversion added, never an option the chain held before. The converter to options and the scheme table agree on every scheme\'s default port. Agreement with '
                  'RFC 3986 on all strings and dot-segment resolution are not decided.',
             design='6 C16'),
 'C05': dict(technique='transfer/advance pairing typestate on progress counters (R-STREAM-ADV), declared-length cap and close must-pass-through rule (R-STREAM-CAP)',
             text='Decides for the TCP and WebSocket stream readers that every n bytes stored at buffer+counter are accounted by advancing that counter by the same '
                  'n (or a reset) on every path, that peer-declared lengths are compared with a maximum before they size an allocation/copy/read with the '
                  'exceeding arm closing the session, that a parse cursor advanced into the receive buffer is re-derived after every refill, that a full handshake line buffer is rejected, and that the receive limit, once our own maximum is set, is computed without any session field the peer can set, that a position is never set to the size of the piece just stored, and that the needed length of a variable header is final when it is compared with what has arrived. The header is parsed only under a condition that mentions every variable of the length it is parsed with. A value learnt in the header phase of an earlier call is read from the session record, not from a local that has its initialiser again. Necessary for segmentation independence and for '
                  '"over-long closes the session"; equality of delivered message sequences over all segmentations is not decided.',
             design='6 C05'),
 'C01': dict(technique='sibling/table agreement by constant-partition extraction and interval-guided arm-offset check (R-CODEC-TAB), narrowing-cast interval check (R-WIDTH), stale-pointer and size/payload pairing typestate (R-FIXUP)',
             text='Decides, on the current source, that every encoder and decoder of option delta/length, TCP length and token length uses the RFC 7252/8323/8974 '
                  'thresholds, nibbles and offsets (and therefore each other\'s), that the decoder\'s option-number bound as folded in its unit equals the '
                  'builder\'s, that every buffer-measuring expression uses the on-wire token size, that every comparison against the extended-token bias macros cuts the token lengths exactly at 13 / 269, that the largest accepted token is the RFC 8974 maximum as folded into the library, that a payload marker is never written without payload behind it, that no stored length passes a truncating explicit cast, and that the builder keeps buffer pointers and size/payload in step. '
                  'After an option is removed the highest option number is taken from the options that remain; a resize re-bases the payload pointer against the old buffer; the stream frame size accounts for the token-extension bytes. The capacity check the editors rely on says yes only with the capacity known; the option-number bound separates exactly the numbers above 65535 in whatever form it is written; no shift discards all bits of a narrowed value. These are necessary conditions of the round trip; equality of parse(serialise(m)) with m is not decided.',
             design='6 C01'),
 'C03': dict(technique='interval analysis with wrap-guard/range-guard discharge on the decoder\'s option-number arithmetic (R-WIDTH), reject-arm must-return-0 typestate over a frozen condition table and parse-before-dispatch gating (R-PARSE-GATE), table agreement (R-CODEC-TAB)',
             text='Decides that the decoder cannot silently wrap an option number, that each malformed-input condition of the frozen table (reserved nibbles, '
                  'TKL 15, token longer than message, payload marker without payload, non-empty Empty, option-number overflow, runt datagram, truncated option) is '
                  'still tested and only leads to a zero return, that the parser\'s pure output fields are assigned on every accepting path, that the accept flag collected over the options of a message only ever goes down, and that the protocol layer is entered only after successful parser calls. An option length reaches the per-option limits with its full width. The option-number bound is decided by enumeration, also in its overflow-safe subtraction form. Agreement with an '
                  'independent decoder on all inputs and the per-option length table are not decided.',
             design='6 C03'),
 'C04': dict(technique='stale-pointer typestate across may-reallocate calls (computed closure) and used_size/data/memmove pairing (R-FIXUP), narrowing-cast interval check (R-WIDTH)',
             text='Decides for the in-place editors that payload pointer and used size are always moved together by the memmove distance, that no pointer into '
                  'the buffer survives a call that may reallocate it, that lengths are not truncated on store, and that token-length thresholds are applied to the right one of the two token lengths, and that an editor advances the size only after the encoder wrote the bytes. After a removal the highest option number is recomputed from the options that remain. The capacity check says yes only with the capacity known; the high byte of a re-encoded delta is not shifted out by a misplaced cast. Necessary for "edits change only what they name"; '
                  'equality with the list model after arbitrary edit sequences is not decided.',
             design='6 C04'),
 'C12': dict(technique='reference-count pairing typestate (R-REF-TMP), computed holder types with release-before-free (R-REF-HOLD), event-before-free must-precede rule (R-SESS-EVT), linear ownership of local heap objects (R-OWN-LOCAL), drain-before-gated-free ordering in the context destructor (R-TEARDOWN), hashed-before-free typestate for sessions made in a function (R-SESS-HASHED), zero-before-fields dominance rule on byte-hashed key records (R-SESS-KEY), key-atom rule on computed per-session finders (R-FINDER-KEY)',
             text='Every path of every library function: temporary session references are paired; every object type that stores a session reference '
                  '(computed from the assignments) releases it before it is freed or cleared, also through freeing helpers; a server session is freed only '
                  'after SERVER_SESSION_DEL was raised for it; strings/binaries/optlists/cache keys created in a function are released, stored, returned or '
                  'handed on on every path; the context destructor drains every collection of reference holders before the endpoint destructor that only frees unreferenced sessions; a holder whose reference was released does not keep the old pointer; a function that takes over an object it is handed agrees with itself, over all its failure returns, on who owns the object afterwards; scratch buffers are released on every path; a session found for a datagram has its idle clock refreshed; a session made in a function is freed or released there only after it was added to a session table (the free unlinks it, and unlinking a never-added element drops the whole table). The record that files and finds sessions by its bytes is zeroed as a whole before its fields are set. Per-session finders return only what belongs to the asking session. Necessary for "live while referenced; everything released; one NEW/DEL event". Peer-to-session bijection and '
                  'reclamation timing are not decided.',
             design='6 C12'),
 'C18': dict(technique='NULL-check typestate for computed may-fail constructors (R-ALLOC-NULL) + linear ownership of PDUs with computed consumer summaries (R-OWN-PDU), alias-window typestate after shallow struct copies against computed destructor frees (R-SHALLOW-ALIAS), fresh-holder field ownership (R-HOLDER-LEAK), linear ownership of local strings/binaries/optlists/cache keys (R-OWN-LOCAL), dead-after-destructor typestate with computed destructors (R-USE-AFTER-DESTROY), reallocation commit rule (R-REALLOC-COMMIT)',
             text='Library-wide, every path: the result of every (computed) may-fail constructor is NULL-tested before any dereference or hand-over to a '
                  'dereferencing callee; every PDU created or received through a consuming parameter is released/handed on/stored exactly once, never used '
                  'after release; the frozen consumer contracts (coap_send*, coap_session_delay_pdu, coap_send_q_block*) are checked against their own bodies; after a shallow struct copy no destructor that frees a still-aliased owned field runs before that field got its own buffer; a freshly allocated record is not freed raw while its fields hold objects created on that path; nothing is read through a local after the call that destroys what it points to; the result of a reallocation is not stored into the old pointer and the owner\'s fields are not changed ahead of a reallocation that can fail; a function that takes over an object agrees over its failure returns on who owns it; a field handed to a may-delete-and-return helper is assigned again afterwards; scratch buffers are released on every path; no library function ends the process (six HASH_ADD sites whose out-of-memory arm is exit(-1) are known findings). '
                  'A record field whose object was released is assigned again (or its holder disposed of) on every path. Necessary for surviving allocation failure without crash or leak; "the next operation succeeds" is not decided.',
             design='6 C18'),
 'C13': dict(technique='lock typestate {U,L,F} + in_callback counter over all paths and calling contexts (ESP-style property simulation), capability/mechanism configuration rule, owner typestate on the lock object\'s bookkeeping fields inside the lock primitives (R-LOCK-OWNER)',
             text='Path- and context-exhaustive lock-discipline analysis with thread safety forced on and asserts visible: balance of lock/unlock and '
                  'in_callback on every path, every function that reaches the project\'s own precondition marker is entered locked, no locking wrapper is '
                  'called from locked code, application callbacks run unlocked or with in_callback>0, no unbounded wait while locked, the lock object\'s owner id and nesting counters are only written by the thread owning the mutex, and the shipped '
                  'configuration really compiles the locking it advertises. Necessary for serialisation and deadlock freedom; data races on deliberately '
                  'unlocked accessors and progress under all schedules are not decided.',
             design='6 C13'),
 'C17': dict(technique='FILE* typestate over the CFG (R-FILE-MODE) + tmp-file/rename must-pass-through rule (R-PERSIST)',
             text='Path-exhaustive structural rule over every function that opens a file: decides the necessary clauses '
                  '"stream only used as its mode allows", "only the .tmp copy is written", "rename only after a tested flush", "the temporary stream is opened truncating", "a restored subscription is re-written under the key the restoring call returned", "a record that is only copied is written back with the fields that were read", "the real file is replaced by rename() alone, never removed first". '
                  '"the raw request recorded for a dynamically created resource spans header and body". "resources are re-created before anything is restored onto them". Does not decide restart behaviour or counter values.',
             design='6 C17'),
}
NA = {
}
ALL = ['C%02d' % i for i in range(1, 21)]
def main():
    checks = []
    for pid in ALL:
        if pid not in CHECKS: continue
        c = CHECKS[pid]
        checks.append({
            'property_id': pid,
            'quick_cmd': 'python3 check.py %s --tier quick' % pid,
            'thorough_cmd': 'python3 check.py %s --tier thorough' % pid,
            'evidence_file': 'evidence/%s.json' % pid,
            'replay_cmd_template': 'python3 check.py %s --replay {path}' % pid,
            'engine': 'cfgx+psts',
            'level_claimed': {'category': 'other', 'text': c['text'], 'design_ref': 'DESIGN.md section ' + c['design']},
            'level_note': 'Static analysis of the current source (clang 14 AST/CFG via cfgx, path-sensitive typestate solver). Trusted: clang front end, '
                          'the cmake configuration step, the frozen rule tables in rules/*.py, sequential reasoning per function with call summaries. '
                          'Decides the structural clauses named in level_claimed.text only, never the whole behaviour.',
            'technique': c['technique'],
        })
    na = [{'property_id': p, 'reason': NA.get(p, 'not yet covered by a static rule in this revision (see DESIGN.md section 6)')} for p in ALL if p not in CHECKS]
    m = {
        'version': 1,
        'setup_cmd': 'sh setup.sh',
        'hooks': {'guard': 'LIBCOAP_VERIF', 'enable': 'none needed: the analysis reads the source with the real build flags; no hooks are compiled in',
                  'baseline_off_cmd': 'cmake --build /repo/_build --target testdriver && cd /repo/_build && ./testdriver',
                  'source_commits': [], 'add_only': True},
        'engines': [
            {'name': 'cfgx', 'path': 'cfgx/cfgx.cc', 'serves_properties': sorted(CHECKS), 'kind_free_text': 'libTooling fact extractor: clang CFG + expression trees per function, record layouts, global initialisers'},
            {'name': 'psts', 'path': 'core/psts.py', 'serves_properties': sorted(CHECKS), 'kind_free_text': 'path-sensitive typestate solver (ESP-style property simulation) with relevance filtering'},
            {'name': 'rules', 'path': 'rules/', 'serves_properties': sorted(CHECKS), 'kind_free_text': 'one module per rule: frozen tables, obligations, reports'},
        ],
        'checks': checks,
        'not_applicable': na,
        'notes': 'Technique family: static analysis only. Exit 2 = analysis broken (vanished anchor, instance count below the frozen minimum, fixture mismatch).',
    }
    json.dump(m, open(os.path.join(os.path.dirname(os.path.abspath(__file__)), 'MANIFEST.json'), 'w'), indent=1)
if __name__ == '__main__':
    main()
