#!/bin/sh
# Build the fact extractor (offline, from files on disk only) and run the
# engine self-tests on the fixtures.  Idempotent.
set -e
cd "$(dirname "$0")"
mkdir -p .build .cache evidence
if [ ! -x .build/cfgx ] || [ cfgx/cfgx.cc -nt .build/cfgx ]; then
  clang++ $(llvm-config-14 --cxxflags) -fno-rtti -O1 cfgx/cfgx.cc -o .build/cfgx.tmp \
    /usr/lib/llvm-14/lib/libclang-cpp.so.14 /usr/lib/llvm-14/lib/libLLVM-14.so
  mv .build/cfgx.tmp .build/cfgx
fi
python3 check.py --selftest
